import numpy as np, sys, itertools, warnings, time
warnings.filterwarnings("ignore")
sys.path.insert(0,'/repo/src')
from symfc import Symfc
from symfc.utils.utils import SymfcAtoms
from symfc.basis_sets import FCBasisSetO2, FCBasisSetO3, FCBasisSetO4
from symfc.utils.cutoff_tools import FCCutoff
def supercell(L, prim_pos, numbers, dims):
    pos=[]; num=[]
    for p,z in zip(prim_pos,numbers):
        for x in range(dims[0]):
            for y in range(dims[1]):
                for w in range(dims[2]):
                    pos.append([(p[0]+x)/dims[0],(p[1]+y)/dims[1],(p[2]+w)/dims[2]]); num.append(z)
    return SymfcAtoms(cell=np.diag(dims)@np.array(L,float), scaled_positions=pos, numbers=num)
def full_basis(b, order):
    N = b.translation_permutations.shape[1]
    F = np.asarray(b.compression_matrix @ b.basis_set)
    return F.reshape((N,)*order+(3,)*order+(-1,))
def checks(cell, order, cutoff=None, ops=None):
    cls = {2:FCBasisSetO2,3:FCBasisSetO3,4:FCBasisSetO4}[order]
    b = cls(cell, cutoff=cutoff, spacegroup_operations=ops).run()
    N=len(cell); nb=b.basis_set.shape[1]
    if nb==0: return "empty"
    F = full_basis(b, order)
    # perm
    perm = max(np.abs(F-np.transpose(F, list(p)+[order+q for q in p]+[2*order])).max() for p in itertools.permutations(range(order)))
    sumr = max(np.abs(F.sum(axis=k)).max() for k in range(order))
    Fm = F.reshape(-1, nb); orth = np.abs(Fm.T@Fm-np.eye(nb)).max()
    # spg invariance
    sr = b._spg_reps; perms = sr._permutations
    import spglib
    if ops is None:
        sym = spglib.get_symmetry((cell.cell, cell.scaled_positions, cell.numbers))
    else: sym = ops
    Lt = cell.cell.T
    spg=0
    for r,pm in zip(sym["rotations"], perms):
        R = Lt@r@np.linalg.inv(Lt)
        G = F
        # rotate every cart index
        for k in range(order):
            G = np.moveaxis(np.tensordot(R, G, axes=(1, order+k)), 0, order+k)
        # G[i..] = R..R F[i..]; need F[g(i)...] == G[i...]
        idx = np.ix_(*([pm]*order))
        spg = max(spg, np.abs(F[idx] - G).max())
    cut=0
    if cutoff is not None:
        d = FCCutoff(cell, cutoff=cutoff).distances
        far = d >= cutoff
        mask = np.zeros((N,)*order, bool)
        for a,bb in itertools.combinations(range(order),2):
            sh=[1]*order; sh[a]=N; sh[bb]=N
            mask |= far.reshape(sh) if a<bb else far.T.reshape(sh)
        cut = np.abs(F[mask]).max() if mask.any() else 0
    return dict(nb=nb, n_lp=b.translation_permutations.shape[0], nsym=len(perms), perm="%.1e"%perm, sumr="%.1e"%sumr, orth="%.1e"%orth, spg="%.1e"%spg, cut="%.1e"%cut)
S = {}
S["tric2_211"] = supercell([[3.0,0.1,0.2],[0.3,3.4,0.1],[0.2,0.5,3.9]], [[0,0,0],[0.31,0.22,0.43]], [1,2], (2,1,1))
S["mono_C_111"] = SymfcAtoms(cell=[[5.0,0,0],[0,4.0,0],[-1.2,0,6.0]], scaled_positions=[[0.1,0.2,0.3],[0.6,0.7,0.3],[-0.1,0.2,-0.3],[0.4,0.7,-0.3]], numbers=[1,1,1,1])
c=5.18; a=3.18
S["wurtz_111"] = SymfcAtoms(cell=[[a,0,0],[-a/2,a*np.sqrt(3)/2,0],[0,0,c]], scaled_positions=[[1/3,2/3,0.0],[2/3,1/3,0.5],[1/3,2/3,0.375],[2/3,1/3,0.875]], numbers=[30,30,16,16])
S["wurtz_211"] = supercell([[a,0,0],[-a/2,a*np.sqrt(3)/2,0],[0,0,c]], [[1/3,2/3,0.0],[2/3,1/3,0.5],[1/3,2/3,0.375],[2/3,1/3,0.875]], [30,30,16,16], (2,1,1))
S["rocksalt_prim_221"] = supercell(2.8*np.array([[0,1,1],[1,0,1],[1,1,0]]), [[0,0,0],[.5,.5,.5]], [11,17], (2,2,1))
for name, cell in S.items():
    for order in (2,3,4):
        if order==4 and len(cell)>6: continue
        for cutoff in (None, 3.5):
            t=time.time()
            try: r = checks(cell, order, cutoff)
            except Exception as e: r = "EXC %s %s"%(type(e).__name__, e)
            print(name, len(cell), "order", order, "cutoff", cutoff, r, "%.1fs"%(time.time()-t), flush=True)
