# quick probes: C08 compact vs full, C12 purity / history, C13 linearity on a small cell
import numpy as np, sys, warnings, copy
warnings.filterwarnings("ignore")
sys.path.insert(0,'/repo/src')
from symfc import Symfc
from symfc.utils.utils import SymfcAtoms
def supercell(L, prim_pos, numbers, dims):
    pos=[]; num=[]
    for p,z in zip(prim_pos,numbers):
        for x in range(dims[0]):
            for y in range(dims[1]):
                for w in range(dims[2]):
                    pos.append([(p[0]+x)/dims[0],(p[1]+y)/dims[1],(p[2]+w)/dims[2]]); num.append(z)
    return SymfcAtoms(cell=np.diag(dims)@np.array(L,float), scaled_positions=pos, numbers=num)
cell = supercell([[3.0,0.1,0.2],[0.3,3.4,0.1],[0.2,0.5,3.9]], [[0,0,0],[0.31,0.22,0.43]], [1,2], (2,1,1))
rng=np.random.default_rng(0); ns=400
d = rng.normal(size=(ns,4,3))*0.03; f1 = rng.normal(size=(ns,4,3)); f2 = rng.normal(size=(ns,4,3))
d0=d.copy(); f10=f1.copy()
s = Symfc(cell, displacements=d, forces=f1).run(max_order=3, is_compact_fc=False)
full = {k:v.copy() for k,v in s.force_constants.items()}
s.solve(max_order=3, is_compact_fc=True)
comp = s.force_constants
p2s = s.p2s_map
print("p2s", p2s, "compact==full[p2s]:", [float(np.abs(comp[k]-full[k][p2s]).max()) for k in comp])
print("inputs untouched:", np.array_equal(d,d0), np.array_equal(f1,f10))
# history: solve again after other solves, compare with fresh
s.solve(orders=[2]); s.forces = f2; s.solve(max_order=3, batch_size=7); s.forces = f1; s.solve(max_order=3, is_compact_fc=False)
print("history vs first:", [float(np.abs(s.force_constants[k]-full[k]).max()) for k in full])
# linearity
A = Symfc(cell, displacements=d, forces=f1).run(max_order=3, is_compact_fc=False).force_constants
B = Symfc(cell, displacements=d, forces=f2).run(max_order=3, is_compact_fc=False).force_constants
C = Symfc(cell, displacements=d, forces=2*f1-3*f2).run(max_order=3, is_compact_fc=False).force_constants
print("linearity:", [float(np.abs(C[k]-(2*A[k]-3*B[k])).max()/np.abs(C[k]).max()) for k in C])
perm = rng.permutation(ns)
P = Symfc(cell, displacements=d[perm], forces=f1[perm]).run(max_order=3, is_compact_fc=False, batch_size=33).force_constants
print("snapshot perm:", [float(np.abs(P[k]-A[k]).max()/np.abs(A[k]).max()) for k in A])
Z = Symfc(cell, displacements=d, forces=0*f1).run(max_order=3, is_compact_fc=False).force_constants
print("zero forces:", [float(np.abs(Z[k]).max()) for k in Z])
