import numpy as np, sys, itertools
sys.path.insert(0,'/repo/src')
from scipy.sparse import csr_array
from symfc.utils.eig_tools import eigsh_projector, eigsh_projector_sumrule, eigsh_projector_sumrule_large, eigsh_projector_sumrule_stable
# 1x1 block with value 0.5
M = csr_array(np.diag([0.5, 1.0, 0.0]))
print("eigsh_projector diag(0.5,1,0):\n", eigsh_projector(M, verbose=False).toarray())
print("sumrule_stable diag(0.5,1,0):\n", eigsh_projector_sumrule_stable(M, verbose=False))
# block-divided: rank-1 projector spread over 2 sub-blocks with traces 0.4/0.6
n=2000
rng=np.random.default_rng(0)
v = rng.normal(size=n); v[:1000] *= np.sqrt(0.4)/np.linalg.norm(v[:1000]); v[1000:] *= np.sqrt(0.6)/np.linalg.norm(v[1000:])
P = csr_array(np.outer(v,v))
for name,f in (("stable",eigsh_projector_sumrule_stable),("large",eigsh_projector_sumrule_large)):
    try:
        E = f(P, verbose=False); print(name, "rank-1 projector ->", E.shape, "overlap", np.abs(E.T@v).max() if E.shape[1] else None)
    except Exception as e: print(name, "EXC", type(e).__name__, e)
# random projector rank 700 in 2000 dims
Q,_ = np.linalg.qr(rng.normal(size=(n,700)))
P = csr_array(Q@Q.T)
for name,f in (("stable",eigsh_projector_sumrule_stable),("large",eigsh_projector_sumrule_large)):
    try:
        E = f(P, verbose=False); 
        print(name, "rank-700 ->", E.shape, "orth err %.2g"%np.abs(E.T@E-np.eye(E.shape[1])).max(), "proj err %.2g"%np.abs(E@E.T-Q@Q.T).max())
    except Exception as e: print(name, "EXC", type(e).__name__, e)
