import itertools, numpy as np, sys, time
sys.path.insert(0,'/repo/src')
from e2 import rand_trans_perms, F, G
from symfc.utils.matrix_tools_O4 import compressed_projector_sum_rules_O4
from symfc.utils.matrix_tools_O3 import compressed_projector_sum_rules_O3
from symfc.utils.matrix_tools_O2 import compressed_projector_sum_rules_O2
from symfc.utils.eig_tools import eigsh_projector_sumrule
S = {2:compressed_projector_sum_rules_O2,3:compressed_projector_sum_rules_O3,4:compressed_projector_sum_rules_O4}
def sym_defect(M, tp, adi, order):
    n_lp, N = tp.shape
    ncls = N**order // n_lp
    rep = np.full(ncls, -1); rep[adi[::-1]] = np.arange(N**order)[::-1]
    tup = np.array(np.unravel_index(rep, (N,)*order)).T
    cart = np.array(list(itertools.product(range(3), repeat=order)))
    worst = 0
    for p in itertools.permutations(range(order)):
        p = list(p)
        tcls = adi[np.ravel_multi_index(tup[:, p].T, (N,)*order)]
        cidx = np.ravel_multi_index(cart[:, p].T, (3,)*order)
        rowmap = (tcls[:, None] * 3**order + cidx[None, :]).reshape(-1)
        d = M[rowmap] - M
        worst = max(worst, np.abs(d).max() if d.size else 0)
    return worst
if __name__ == "__main__":
    rng = np.random.default_rng(int(sys.argv[1]))
    cfgs = [((2,2),1),((2,2),2),((2,3),1),((4,),1),((4,),2),((2,2,2),1),((2,4),1),((5,),1),((7,),1),((3,3),1)]
    for dims, n_a in cfgs:
        tp = rand_trans_perms(rng, dims, n_a)
        n_lp, N = tp.shape
        for order in (3,4):
            if order==4 and N>9: continue
            t=time.time()
            c_pt = F[order](tp); adi = G[order](tp)
            d0 = sym_defect(c_pt.toarray(), tp, adi, order) if c_pt.shape[0]*c_pt.shape[1] < 2e8 else float('nan')
            proj = S[order](tp, c_pt, atomic_decompr_idx=adi)
            ev = eigsh_projector_sumrule(proj, verbose=False)
            M = c_pt @ ev
            d1 = sym_defect(np.asarray(M), tp, adi, order)
            print(dims, n_a, "order", order, "c_pt", c_pt.shape, "defect c_pt %.2g"%d0, "basis", ev.shape[1], "defect basis %.2g"%d1, "%.1fs"%(time.time()-t), flush=True)
