import numpy as np, sys, warnings, itertools
warnings.filterwarnings("ignore")
sys.path.insert(0,'/repo/src')
import spglib
from symfc.utils.utils import compute_sg_permutations, compute_sg_permutations_stable
def exact(pos, rot, trans, lat, tol=1e-4):
    out=[]
    for r,t in zip(rot,trans):
        newp = pos@r.T + t
        d = pos[None,:,:]-newp[:,None,:]; d -= np.rint(d)
        dist = np.linalg.norm(d@lat.T,axis=2)
        idx = dist.argmin(axis=1)
        assert (dist[np.arange(len(pos)),idx]<tol).all() and len(set(idx))==len(pos)
        out.append(idx)
    return np.array(out)
a=5.69
nacl_pos = np.array([[0,0,0],[0,.5,.5],[.5,0,.5],[.5,.5,0],[.5,.5,.5],[.5,0,0],[0,.5,0],[0,0,.5]])
nacl = (np.eye(3)*a, nacl_pos, [11]*4+[17]*4)
aw=3.18; cw=5.18
wpos = np.array([[1/3,2/3,0.0],[2/3,1/3,0.5],[1/3,2/3,0.375],[2/3,1/3,0.875]])
wz = (np.array([[aw,0,0],[-aw/2,aw*np.sqrt(3)/2,0],[0,0,cw]]), wpos, [30,30,16,16])
def sup(cellt, dims):
    L,p,z = cellt
    pos=[];num=[]
    for q,zz in zip(p,z):
        for x in itertools.product(*[range(d) for d in dims]):
            pos.append((q+np.array(x))/np.array(dims)); num.append(zz)
    return (np.diag(dims)@L, np.array(pos), num)
rng = np.random.default_rng(0)
cases=0; bad=0; exc=0
for base in (nacl, sup(wz,(2,1,1)), sup(wz,(3,1,1)), sup(nacl,(2,1,1))):
    L,p,z = base
    for trial in range(60):
        q = p.copy()
        kind = trial%6
        if kind==0: q = q + rng.integers(-3,4,size=q.shape)           # integer wraps
        if kind==1: q = q + np.array([0.5-1e-9,0.5+1e-9,0.25])        # origin shift onto boundary
        if kind==2: q = q + rng.choice([0.5,-0.5,0.5-1e-13,0.5+1e-12,0.4999999999,1/3,2/3],size=3)
        if kind==3: q = np.round(q + rng.uniform(-.5,.5,size=3), 4)   # few decimals
        if kind==4: q = q + rng.uniform(-1e-7,1e-7,size=q.shape) + rng.uniform(-.5,.5,size=3)  # noise
        if kind==5: q = q[rng.permutation(len(q))] + 0.5
        zz = z if kind!=5 else None
        if kind==5:
            perm = rng.permutation(len(p)); q = p[perm]+0.5; zz=[z[i] for i in perm]
        sym = spglib.get_symmetry((L,q,zz), symprec=1e-5)
        if sym is None: continue
        rot, tr = sym["rotations"], sym["translations"]
        cases+=1
        try:
            A = compute_sg_permutations(q, rot, tr, L.T)
            B = compute_sg_permutations_stable(q, rot, tr, L.T)
            E = exact(q, rot, tr, L.T)
            if not (np.array_equal(A,B) and np.array_equal(A,E)):
                bad+=1; print("MISMATCH kind",kind, "nops", len(rot), "A==B",np.array_equal(A,B),"A==E",np.array_equal(A,E),"B==E",np.array_equal(B,E))
        except Exception as e:
            exc+=1; print("EXC kind",kind,type(e).__name__, str(e)[:80])
print("cases",cases,"bad",bad,"exc",exc)
