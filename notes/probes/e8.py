import numpy as np, sys
sys.path.insert(0,'/repo/src')
from symfc import Symfc
from symfc.utils.utils import SymfcAtoms
from scipy.linalg.lapack import get_lapack_funcs
import symfc.utils.solver_funcs as sf
L = np.array([[3.0,0.1,0.2],[0.3,3.4,0.1],[0.2,0.5,3.9]])
pos=[[0,0,0],[0.31,0.22,0.43],[0.6,0.7,0.1]]
cell = SymfcAtoms(cell=L, scaled_positions=pos, numbers=[1,2,3])
rng = np.random.default_rng(0)
# instrument posv
orig = sf.solve_linear_equation
def spy(A,b):
    (posv,) = get_lapack_funcs(("posv",), (A, b))
    c, x, info = posv(A, b, lower=False, overwrite_a=False, overwrite_b=False)
    r = A@x-b
    print("   posv info", info, "size", A.shape, "rank", np.linalg.matrix_rank(A), "normal-eq residual %.3g"%(np.abs(r).max()/max(1e-300,np.abs(b).max())))
    return x
import symfc.solvers.solver_O2 as s2; s2.solve_linear_equation = spy
for nsnap in (1,2,3,5,30):
    d = rng.normal(size=(nsnap,3,3))*0.03; f = rng.normal(size=(nsnap,3,3))
    s = Symfc(cell, displacements=d, forces=f).run(max_order=2)
    print(nsnap, "basis", s.basis_set[2].basis_set.shape, "fc max", np.abs(s.force_constants[2]).max())
