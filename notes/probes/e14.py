import numpy as np, sys, itertools, warnings
warnings.filterwarnings("ignore")
src = sys.argv[1]
sys.path.insert(0, src)
from symfc.utils.utils import SymfcAtoms
from symfc.utils.cutoff_tools import FCCutoff
import spglib
rng=np.random.default_rng(1)
def brute(cell, pos, R=3):
    red = spglib.niggli_reduce(cell)
    T = np.rint(cell@np.linalg.inv(red))
    s = pos@T
    d = s[:,None,:]-s[None,:,:]; d -= np.rint(d)
    best = np.full(d.shape[:2], 1e10)
    for t in itertools.product(range(-R,R+1), repeat=3):
        best = np.minimum(best, np.linalg.norm((d+np.array(t))@red, axis=2))
    return best
nbad=0; over=0; worst=0; n=0
for it in range(600):
    kind = it%3
    A = rng.normal(size=(3,3))
    if kind==1: A = np.array([[1,0,0],[0.98,0.2,0],[0.3,0.4,0.1]])*3 + rng.normal(size=(3,3))*0.05
    if kind==2: A = np.diag([1,1,8.0]) + rng.normal(size=(3,3))*0.3
    if abs(np.linalg.det(A))<0.02: continue
    pos = rng.uniform(-1.5,1.5,size=(6,3))
    fc = FCCutoff(SymfcAtoms(cell=A, scaled_positions=pos, numbers=[1]*6), cutoff=3.0)
    b = brute(A, pos); n+=1
    e = fc.distances-b
    if np.abs(e).max()>1e-8: nbad+=1
    if e.max()>1e-8: over+=1
    worst=max(worst, np.abs(e).max())
print(src, "cells", n, "bad", nbad, "code>true", over, "worst", worst)
