import numpy as np, sys, warnings, itertools
warnings.filterwarnings("ignore")
sys.path.insert(0,'/repo/src')
from symfc import Symfc
from symfc.utils.utils import SymfcAtoms
from scipy.spatial.transform import Rotation
def supercell(L, prim_pos, numbers, dims):
    pos=[]; num=[]
    for p,z in zip(prim_pos,numbers):
        for x in itertools.product(*[range(d) for d in dims]):
            pos.append((np.array(p)+np.array(x))/np.array(dims)); num.append(z)
    return np.diag(dims)@np.array(L,float), np.array(pos), np.array(num)
aw=3.18; cw=5.18
cells = {
 "wurtz_211": supercell([[aw,0,0],[-aw/2,aw*np.sqrt(3)/2,0],[0,0,cw]], [[1/3,2/3,0.0],[2/3,1/3,0.5],[1/3,2/3,0.375],[2/3,1/3,0.875]], [30,30,16,16], (2,1,1)),
 "monoC": (np.array([[5.0,0,0],[0,4.0,0],[-1.2,0,6.0]]), np.array([[0.1,0.2,0.3],[0.6,0.7,0.3],[-0.1,0.2,-0.3],[0.4,0.7,-0.3]]), np.array([1,1,1,1])),
}
rng=np.random.default_rng(5)
for name,(L,p,z) in cells.items():
    N=len(p); ns=150
    u = rng.normal(size=(ns,N,3))*0.05; f = rng.normal(size=(ns,N,3))
    ref = Symfc(SymfcAtoms(cell=L,scaled_positions=p,numbers=z), displacements=u, forces=f).run(max_order=3, is_compact_fc=False).force_constants
    # 1. atom permutation
    perm = rng.permutation(N)
    r = Symfc(SymfcAtoms(cell=L,scaled_positions=p[perm],numbers=z[perm]), displacements=u[:,perm], forces=f[:,perm]).run(max_order=3, is_compact_fc=False).force_constants
    e2 = np.abs(r[2]-ref[2][np.ix_(perm,perm)]).max()/np.abs(ref[2]).max(); e3 = np.abs(r[3]-ref[3][np.ix_(perm,perm,perm)]).max()/np.abs(ref[3]).max()
    print(name, "atom perm", "%.1e %.1e"%(e2,e3))
    # 2. origin shift + integer wraps
    for sh in ([0.5-1e-9,0.25,0.123], [0.37,0.5,-0.5+1e-12], [1/3,2/3,0.5]):
        q = p + np.array(sh) + rng.integers(-2,3,size=p.shape)
        r = Symfc(SymfcAtoms(cell=L,scaled_positions=q,numbers=z), displacements=u, forces=f).run(max_order=3, is_compact_fc=False).force_constants
        print(name, "shift", sh, "%.1e %.1e"%(np.abs(r[2]-ref[2]).max()/np.abs(ref[2]).max(), np.abs(r[3]-ref[3]).max()/np.abs(ref[3]).max()))
    # 3. unimodular change of basis
    U = np.array([[1,1,0],[0,1,0],[0,2,1]])
    L2 = U@L; q = p@np.linalg.inv(U)
    r = Symfc(SymfcAtoms(cell=L2,scaled_positions=q,numbers=z), displacements=u, forces=f).run(max_order=3, is_compact_fc=False).force_constants
    print(name, "unimodular", "%.1e %.1e"%(np.abs(r[2]-ref[2]).max()/np.abs(ref[2]).max(), np.abs(r[3]-ref[3]).max()/np.abs(ref[3]).max()))
    # 4. rigid rotation (improper)
    Q = Rotation.random(random_state=1).as_matrix() @ np.diag([1,1,-1])
    L3 = L@Q.T; u3 = u@Q.T; f3 = f@Q.T
    r = Symfc(SymfcAtoms(cell=L3,scaled_positions=p,numbers=z), displacements=u3, forces=f3).run(max_order=3, is_compact_fc=False).force_constants
    t2 = np.einsum('ijab,ca,db->ijcd', ref[2], Q, Q); t3 = np.einsum('ijkabc,da,eb,fc->ijkdef', ref[3], Q,Q,Q)
    print(name, "rotation", "%.1e %.1e"%(np.abs(r[2]-t2).max()/np.abs(t2).max(), np.abs(r[3]-t3).max()/np.abs(t3).max()))
