import itertools, numpy as np, sys, time
sys.path.insert(0,'/repo/src')
from symfc.utils.utils import SymfcAtoms
from symfc.basis_sets import FCBasisSetO4
from e6 import sym_defect
def mk(L, dims, order_perm=None):
    pos = np.array([[x/dims[0], y/dims[1], z/dims[2]] for x in range(dims[0]) for y in range(dims[1]) for z in range(dims[2])])
    if order_perm is not None: pos = pos[order_perm]
    return SymfcAtoms(cell=np.diag(dims)@L, scaled_positions=pos, numbers=[1]*len(pos))
def run(name, cell, ops=None):
    t=time.time()
    b = FCBasisSetO4(cell, spacegroup_operations=ops).run()
    M = np.asarray(b._n_a_compression_matrix @ b.basis_set)
    d = sym_defect(M, b.translation_permutations, b.atomic_decompr_idx, 4)
    print(name, "nsym", b._spg_reps._permutations.shape[0], "n_lp", b.translation_permutations.shape[0], "basis", b.basis_set.shape, "perm defect %.2g"%d, "%.1fs"%(time.time()-t), flush=True)
Ltri = np.array([[3.0,0.1,0.2],[0.3,3.4,0.1],[0.2,0.5,3.9]])
Lfcc = 2.0*np.array([[0,1,1],[1,0,1],[1,1,0]])
Lsc = 3.0*np.eye(3)
run("triclinic 1-atom 2x2x2 (spglib ops)", mk(Ltri,(2,2,2)))
run("sc 2x2x2 (spglib ops)", mk(Lsc,(2,2,2)))
run("fcc-prim 2x2x2 (spglib ops)", mk(Lfcc,(2,2,2)))
# translations only, passed explicitly
c = mk(Ltri,(2,2,2))
trans = np.array([[x/2,y/2,z/2] for x in range(2) for y in range(2) for z in range(2)])
ops = {"rotations": np.array([np.eye(3,dtype=int)]*8), "translations": trans}
run("triclinic 1-atom 2x2x2 (translations only, explicit)", c, ops)
rng = np.random.default_rng(0)
for k in range(3):
    p = rng.permutation(8)
    run("triclinic 2x2x2 shuffled atoms %s"%p.tolist(), mk(Ltri,(2,2,2),p))
