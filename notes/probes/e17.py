import numpy as np, sys, warnings, itertools, time
warnings.filterwarnings("ignore")
sys.path.insert(0,'/repo/src')
from symfc.utils.utils import SymfcAtoms
from symfc.basis_sets import FCBasisSetO3
import symfc.utils.eig_tools as et
def supercell(L, prim_pos, numbers, dims):
    pos=[]; num=[]
    for p,z in zip(prim_pos,numbers):
        for x in itertools.product(*[range(d) for d in dims]):
            pos.append((np.array(p)+np.array(x))/np.array(dims)); num.append(z)
    return SymfcAtoms(cell=np.diag(dims)@np.array(L,float), scaled_positions=pos, numbers=num)
cell = supercell([[3.0,0.1,0.2],[0.3,3.4,0.1],[0.2,0.5,3.9]], [[0,0,0],[0.31,0.22,0.43],[0.7,0.6,0.2]], [1,2,3], (2,2,1))
t=time.time(); b = FCBasisSetO3(cell).run(); print("large path basis", b.basis_set.shape, "%.1fs"%(time.time()-t))
Z = b.basis_set; print("orth err", np.abs(Z.T@Z-np.eye(Z.shape[1])).max())
C = b._n_a_compression_matrix
from symfc.utils.matrix_tools_O3 import compressed_projector_sum_rules_O3
proj = compressed_projector_sum_rules_O3(b.translation_permutations, C, atomic_decompr_idx=b.atomic_decompr_idx)
print("proj size", proj.shape)
t=time.time(); Zs = et.eigsh_projector_sumrule_stable(proj, verbose=False); print("stable", Zs.shape, "%.1fs"%(time.time()-t))
P1 = Z@Z.T; P2 = Zs@Zs.T; print("span diff", np.abs(P1-P2).max())
# sum rule residual in compact form: first-index sum over all atoms -> use full expansion of a few vectors
N=len(cell); F = np.asarray(b.compression_matrix @ Z[:, :5]).reshape(N,N,N,3,3,3,-1)
print("sum rule", max(np.abs(F.sum(axis=k)).max() for k in range(3)))
