import numpy as np, sys, warnings, itertools, time
warnings.filterwarnings("ignore")
sys.path.insert(0,'/repo/src')
from symfc import Symfc
from symfc.utils.utils import SymfcAtoms
def supercell(L, prim_pos, numbers, dims):
    pos=[]; num=[]
    for p,z in zip(prim_pos,numbers):
        for x in itertools.product(*[range(d) for d in dims]):
            pos.append((np.array(p)+np.array(x))/np.array(dims)); num.append(z)
    return SymfcAtoms(cell=np.diag(dims)@np.array(L,float), scaled_positions=pos, numbers=num)
cell = supercell([[3.0,0.1,0.2],[0.3,3.4,0.1],[0.2,0.5,3.9]], [[0,0,0],[0.31,0.22,0.43]], [1,2], (2,1,1))
N=len(cell); rng=np.random.default_rng(3)
s0 = Symfc(cell).compute_basis_set(max_order=4)
def rand_fc(order):
    b = s0.basis_set[order]; c = rng.normal(size=b.basis_set.shape[1])
    return np.asarray(b.compression_matrix @ (b.basis_set @ c)).reshape((N,)*order+(3,)*order)
fc = {n: rand_fc(n) for n in (2,3,4)}
def forces(u, orders):
    f = np.zeros_like(u)
    if 2 in orders: f -= np.einsum('ijab,sjb->sia', fc[2], u)
    if 3 in orders: f -= 0.5*np.einsum('ijkabc,sjb,skc->sia', fc[3], u, u)
    if 4 in orders: f -= (1/6)*np.einsum('ijklabcd,sjb,skc,sld->sia', fc[4], u, u, u)
    return f
for orders in ([2],[3],[4],[2,3],[3,4],[2,3,4]):
    nb = sum(s0.basis_set[n].basis_set.shape[1] for n in orders)
    ns = max(10, int(2.0*nb/(3*N))+5)
    u = rng.normal(size=(ns,N,3))*0.1
    f = forces(u, orders)
    for compact in (False, True):
        s = Symfc(cell, displacements=u, forces=f); s.basis_set = s0.basis_set
        t=time.time(); s.solve(orders=orders, is_compact_fc=compact, batch_size=7)
        errs=[]
        for n in orders:
            ref = fc[n] if not compact else fc[n][s.p2s_map]
            errs.append(float(np.abs(s.force_constants[n]-ref).max()/np.abs(ref).max()))
        print(orders, "compact" if compact else "full", "nbasis", nb, "nsnap", ns, "rel err", ["%.1e"%e for e in errs], "%.1fs"%(time.time()-t), flush=True)
