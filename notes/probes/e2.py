import itertools, numpy as np, sys
sys.path.insert(0,'/repo/src')
from scipy.sparse import csr_array
from symfc.utils.permutation_tools_O2 import compr_permutation_lat_trans_O2
from symfc.utils.permutation_tools_O3 import compr_permutation_lat_trans_O3
from symfc.utils.permutation_tools_O4 import compr_permutation_lat_trans_O4
from symfc.utils.utils_O2 import _get_atomic_lat_trans_decompr_indices
from symfc.utils.utils_O3 import get_atomic_lat_trans_decompr_indices_O3
from symfc.utils.utils_O4 import get_atomic_lat_trans_decompr_indices_O4
F = {2:compr_permutation_lat_trans_O2,3:compr_permutation_lat_trans_O3,4:compr_permutation_lat_trans_O4}
G = {2:_get_atomic_lat_trans_decompr_indices,3:get_atomic_lat_trans_decompr_indices_O3,4:get_atomic_lat_trans_decompr_indices_O4}

def rand_trans_perms(rng, dims, n_a):
    # group Z_d1 x Z_d2..., acting on n_a orbits
    elems = list(itertools.product(*[range(d) for d in dims]))
    n_lp = len(elems)
    N = n_lp * n_a
    label = rng.permutation(N)  # (orbit, elem) -> atom label
    def at(o, e): return label[o*n_lp + elems.index(e)]
    tp = np.zeros((n_lp, N), dtype=int)
    order = list(range(1, n_lp)); rng.shuffle(order); order = [0] + order
    for r, ti in enumerate(order):
        t = elems[ti]
        for o in range(n_a):
            for e in elems:
                e2 = tuple((x+y) % d for x, y, d in zip(e, t, dims))
                tp[r, at(o, e)] = at(o, e2)
    return tp

def check(tp, order):
    n_lp, N = tp.shape
    c_pt = F[order](tp).tocsr()
    adi = G[order](tp)
    ncls = N**order // n_lp
    # representative tuple index for each class
    rep = np.full(ncls, -1); rep[adi[::-1]] = np.arange(N**order)[::-1]
    tup = np.array(np.unravel_index(rep, (N,)*order)).T   # (ncls, order)
    cart = np.array(list(itertools.product(range(3), repeat=order)))  # (3^n, order)
    bad = 0
    for p in itertools.permutations(range(order)):
        p = list(p)
        tcls = adi[np.ravel_multi_index(tup[:, p].T, (N,)*order)]
        cidx = np.ravel_multi_index(cart[:, p].T, (3,)*order)
        rowmap = (tcls[:, None] * 3**order + cidx[None, :]).reshape(-1)
        d = c_pt[rowmap] - c_pt
        if d.nnz and abs(d).max() > 1e-12: bad += 1
    return bad, c_pt.shape

if __name__ == '__main__':
    rng = np.random.default_rng(int(sys.argv[1]) if len(sys.argv) > 1 else 0)
    cfgs = [((2,),1),((2,),2),((3,),1),((3,),2),((2,2),1),((4,),1),((2,),3),((5,),1),((6,),1),((2,3),1),((2,2),2)]
    for it in range(int(sys.argv[2]) if len(sys.argv)>2 else 3):
        for dims, n_a in cfgs:
            tp = rand_trans_perms(rng, dims, n_a)
            for order in (2,3,4):
                N = tp.shape[1]
                if order == 4 and N > 6: continue
                bad, shp = check(tp, order)
                if bad: print("BAD", dims, n_a, order, bad, shp, tp.tolist(), flush=True)
    print("done")
