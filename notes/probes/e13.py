import numpy as np, sys, warnings, copy
warnings.filterwarnings("ignore")
sys.path.insert(0,'/repo/src')
from symfc import Symfc
from symfc.utils.utils import SymfcAtoms
from symfc.utils.permutation_tools_O4 import compr_permutation_lat_trans_O4
from symfc.utils.permutation_tools_O3 import compr_permutation_lat_trans_O3
tp = np.array([[0,1,2,3],[1,0,3,2]])
for nb in (1,2,3):
    try: print("O4 n_batch", nb, compr_permutation_lat_trans_O4(tp, n_batch=nb).shape)
    except Exception as e: print("O4 n_batch", nb, "EXC", type(e).__name__, e)
    try: print("O3 n_batch", nb, compr_permutation_lat_trans_O3(tp, n_batch=nb).shape)
    except Exception as e: print("O3 n_batch", nb, "EXC", type(e).__name__, e)
cell = SymfcAtoms(cell=[[3.0,0.1,0.2],[0.3,3.4,0.1],[0.2,0.5,3.9]], scaled_positions=[[0,0,0],[0.31,0.22,0.43],[0.6,0.7,0.1]], numbers=[1,2,3])
rng=np.random.default_rng(0)
d = rng.normal(size=(40,3,3))*0.03; f = rng.normal(size=(40,3,3))
def t(label, fn):
    try: r = fn(); print(label, "->", r)
    except Exception as e: print(label, "-> EXC", type(e).__name__, e)
s = Symfc(cell, displacements=d, forces=f)
t("orders=[]", lambda: s.run(orders=[]).force_constants.keys())
t("orders=[2,2]", lambda: s.run(orders=[2,2]).force_constants.keys())
t("orders=[3,2]", lambda: list(s.run(orders=[3,2]).force_constants.keys()))
t("orders=(2,4)", lambda: s.run(orders=(2,4)).force_constants.keys())
t("max_order=1", lambda: s.run(max_order=1).force_constants.keys())
t("max_order=5", lambda: s.run(max_order=5).force_constants.keys())
t("max_order=2.0", lambda: list(s.run(max_order=2.0).force_constants.keys()))
t("max_order=True", lambda: list(s.run(max_order=True).force_constants.keys()))
t("none", lambda: s.run().force_constants.keys())
t("orders=[2], max_order=3", lambda: list(Symfc(cell, displacements=d, forces=f).run(orders=[2], max_order=3).force_constants.keys()))
t("orders='23'", lambda: list(Symfc(cell, displacements=d, forces=f).run(orders='23').force_constants.keys()))
t("orders=[2.0]", lambda: list(Symfc(cell, displacements=d, forces=f).run(orders=[2.0]).force_constants.keys()))
t("orders=np.array([2,3])", lambda: list(Symfc(cell, displacements=d, forces=f).run(orders=np.array([2,3])).force_constants.keys()))
# shape mismatches
s2 = Symfc(cell, displacements=d, forces=f[:39]); t("snap mismatch", lambda: s2.run(max_order=2).force_constants.keys())
s2 = Symfc(cell, displacements=d[:,:2], forces=f[:,:2]); t("atom mismatch", lambda: s2.run(max_order=2).force_constants.keys())
s2 = Symfc(cell, displacements=d.reshape(40,9), forces=f.reshape(40,9)); t("rank mismatch", lambda: s2.run(max_order=2).force_constants.keys())
s2 = Symfc(cell, displacements=d.tolist(), forces=f.tolist()); t("lists", lambda: s2.run(max_order=2).force_constants.keys())
s2 = Symfc(cell, displacements=d, forces=None); t("forces None run", lambda: s2.run(max_order=2).force_constants.keys())
t("forces None solve", lambda: s2.solve(max_order=2).force_constants.keys())
s2 = Symfc(cell, displacements=d, forces=f); t("solve without basis", lambda: s2.solve(max_order=2).force_constants.keys())
s2.compute_basis_set(max_order=2); t("solve (2,3) with only basis 2", lambda: s2.solve(max_order=3).force_constants.keys())
t("  fc after", lambda: list(s2.force_constants.keys()))
# zero snapshots
s2 = Symfc(cell, displacements=d[:0], forces=f[:0]); t("zero snapshots", lambda: np.abs(s2.run(max_order=2).force_constants[2]).max())
# float32 / int arrays / non-contiguous
s2 = Symfc(cell, displacements=d.astype(np.float32), forces=f.astype(np.float32)); t("float32", lambda: s2.run(max_order=2).force_constants[2].dtype)
s2 = Symfc(cell, displacements=np.asfortranarray(d), forces=np.asfortranarray(f)); 
ref = Symfc(cell, displacements=d, forces=f).run(max_order=2).force_constants[2]
t("fortran order", lambda: np.abs(s2.run(max_order=2).force_constants[2]-ref).max())
# cutoff dict mutation
cut = {3: 3.0}; s3 = Symfc(cell, displacements=d, forces=f, cutoff=cut); print("cutoff dict after:", cut)
