From Coq Require Import List Arith Lia.
Import ListNotations.

Section TAction.
  (* abstract free action of a finite group of translations, indices tau < nlp, atoms i < N *)
  Variables (nlp N : nat).
  Variable act : nat -> nat -> nat.
  Variable comp : nat -> nat -> nat.
  Variable inv : nat -> nat.
  Hypothesis nlp_pos : 0 < nlp.
  Hypothesis act_lt : forall t i, t < nlp -> i < N -> act t i < N.
  Hypothesis comp_lt : forall a b, a < nlp -> b < nlp -> comp a b < nlp.
  Hypothesis inv_lt : forall a, a < nlp -> inv a < nlp.
  Hypothesis act_id : forall i, i < N -> act 0 i = i.
  Hypothesis act_comp : forall a b i, a < nlp -> b < nlp -> i < N -> act (comp a b) i = act a (act b i).
  Hypothesis act_inv_l : forall a i, a < nlp -> i < N -> act (inv a) (act a i) = i.
  Hypothesis act_inv_r : forall a i, a < nlp -> i < N -> act a (act (inv a) i) = i.
  Hypothesis free : forall a b i, a < nlp -> b < nlp -> i < N -> act a i = act b i -> a = b.

  (* orbit minimum *)
  Definition orbit (i : nat) : list nat := map (fun t => act t i) (seq 0 nlp).
  Definition omin (i : nat) : nat := fold_right Nat.min i (orbit i).

  Lemma fold_min_le l d : fold_right Nat.min d l <= d.
  Proof. induction l; simpl; lia. Qed.
  Lemma fold_min_le_in l d x : In x l -> fold_right Nat.min d l <= x.
  Proof. induction l; simpl; [tauto|]. intros [->|H]; [lia|]. specialize (IHl H). lia. Qed.
  Lemma fold_min_in l d : fold_right Nat.min d l = d \/ In (fold_right Nat.min d l) l.
  Proof. induction l; simpl; [auto|]. destruct IHl as [E|H].
    - rewrite E. destruct (Nat.min_spec a d) as [[_ ->]|[_ ->]]; auto.
    - destruct (Nat.min_spec a (fold_right Nat.min d l)) as [[_ ->]|[_ ->]]; auto. Qed.

  Lemma in_orbit i x : In x (orbit i) <-> exists t, t < nlp /\ x = act t i.
  Proof. unfold orbit. rewrite in_map_iff. split.
    - intros [t [E H]]. apply in_seq in H. exists t. split; [lia|auto].
    - intros [t [H E]]. exists t. split; [auto|]. apply in_seq. lia. Qed.

  Lemma self_in_orbit i : i < N -> In i (orbit i).
  Proof. intro H. apply in_orbit. exists 0. split; [lia|]. symmetry. auto. Qed.

  Lemma omin_in_orbit i : i < N -> exists t, t < nlp /\ omin i = act t i.
  Proof. intro H. unfold omin. destruct (fold_min_in (orbit i) i) as [E|Hin].
    - rewrite E. exists 0. split; [lia|]. symmetry; auto.
    - apply in_orbit in Hin. exact Hin. Qed.

  Lemma omin_lt i : i < N -> omin i < N.
  Proof. intro H. destruct (omin_in_orbit i H) as [t [Ht ->]]. auto. Qed.

  Lemma omin_le_orbit i t : t < nlp -> omin i <= act t i.
  Proof. intro H. unfold omin. apply fold_min_le_in. apply in_orbit. eauto. Qed.

  Lemma omin_shift i t : t < nlp -> i < N -> omin (act t i) = omin i.
  Proof.
    intros Ht Hi. apply Nat.le_antisymm.
    - destruct (omin_in_orbit i Hi) as [s [Hs E]]. rewrite E.
      (* act s i = act (comp s (inv t)) (act t i) *)
      replace (act s i) with (act (comp s (inv t)) (act t i)).
      + apply omin_le_orbit. auto.
      + rewrite act_comp; auto.
    - assert (Hti : act t i < N) by auto.
      destruct (omin_in_orbit _ Hti) as [s [Hs E]]. rewrite E.
      rewrite <- act_comp; auto. apply omin_le_orbit. auto. Qed.

  (* the translation carrying omin i to i: specified, existence + uniqueness *)
  Definition is_tof (i t : nat) := t < nlp /\ act t (omin i) = i.
  Lemma tof_exists i : i < N -> exists t, is_tof i t.
  Proof. intro H. destruct (omin_in_orbit i H) as [s [Hs E]]. exists (inv s). split; [auto|].
    rewrite E. apply act_inv_l; auto. Qed.
  Lemma tof_unique i t t' : i < N -> is_tof i t -> is_tof i t' -> t = t'.
  Proof. intros H [Ht E] [Ht' E']. apply (free t t' (omin i)); auto using omin_lt. congruence. Qed.

  (* structured class of an atom tuple i1 :: rest *)
  Definition shift t (a : list nat) := map (act t) a.
  Definition in_range (a : list nat) := Forall (fun i => i < N) a.

  Definition same_class (i1 : nat) (rest : list nat) (i1' : nat) (rest' : list nat) :=
    omin i1 = omin i1' /\
    forall t t', is_tof i1 t -> is_tof i1' t' -> shift (inv t) rest = shift (inv t') rest'.

  Lemma shift_shift a b l : a < nlp -> b < nlp -> in_range l -> shift a (shift b l) = shift (comp a b) l.
  Proof. intros Ha Hb Hl. unfold shift. rewrite map_map. apply map_ext_in. intros x Hx.
    unfold in_range in Hl; rewrite Forall_forall in Hl. symmetry. apply act_comp; auto. Qed.
  Lemma shift_range t l : t < nlp -> in_range l -> in_range (shift t l).
  Proof. intros Ht Hl. unfold in_range in *. apply Forall_forall. intros x Hx. unfold shift in Hx.
    apply in_map_iff in Hx. destruct Hx as [y [<- Hy]]. unfold in_range in Hl; rewrite Forall_forall in Hl. auto. Qed.
  Lemma shift_inv_l t l : t < nlp -> in_range l -> shift (inv t) (shift t l) = l.
  Proof. intros Ht Hl. unfold shift. rewrite map_map. rewrite <- (map_id l) at 2. apply map_ext_in.
    intros x Hx. unfold in_range in Hl; rewrite Forall_forall in Hl. apply act_inv_l; auto. Qed.
  Lemma shift_inv_r t l : t < nlp -> in_range l -> shift t (shift (inv t) l) = l.
  Proof. intros Ht Hl. unfold shift. rewrite map_map. rewrite <- (map_id l) at 2. apply map_ext_in.
    intros x Hx. unfold in_range in Hl; rewrite Forall_forall in Hl. apply act_inv_r; auto. Qed.

  Theorem class_complete i1 rest i1' rest' :
    i1 < N -> i1' < N -> in_range rest -> in_range rest' ->
    (same_class i1 rest i1' rest' <-> exists t, t < nlp /\ act t i1 = i1' /\ shift t rest = rest').
  Proof.
    intros H1 H1' Hr Hr'. split.
    - intros [Eo Hs].
      destruct (tof_exists i1 H1) as [t Ht]. destruct (tof_exists i1' H1') as [t' Ht'].
      specialize (Hs t t' Ht Ht'). destruct Ht as [Htl Ht]. destruct Ht' as [Htl' Ht'].
      exists (comp t' (inv t)). split; [auto|]. split.
      + rewrite act_comp; auto. rewrite <- Ht at 1. rewrite act_inv_l; auto using omin_lt. congruence.
      + rewrite <- shift_shift; auto. rewrite Hs. apply shift_inv_r; auto.
    - intros [s [Hs [E1 E2]]]. subst i1' rest'. split.
      + symmetry. apply omin_shift; auto.
      + intros t t' [Htl Ht] [Htl' Ht'].
        assert (t' = comp s t).
        { apply (free t' (comp s t) (omin i1)); auto using omin_lt.
          rewrite act_comp; auto using omin_lt. rewrite Ht. rewrite omin_shift in Ht'; auto. }
        subst t'.
        (* shift (inv (comp s t)) (shift s rest) = shift (inv t) rest *)
        rewrite <- (shift_inv_r t rest) at 2; auto.
        rewrite (shift_shift s t); auto using shift_range.
        rewrite shift_inv_l; auto using shift_range. Qed.
End TAction.
Print Assumptions class_complete.
