From Coq Require Import ZArith Lia.
Open Scope Z_scope.
(* generated-style definitions mirroring reshape_nNN333_nx_to_N3N3_n3nx *)
Definition row3 (N r : Z) : Z :=
  let div0 := r / (27*N*N) in let rem0 := r mod (27*N*N) in
  let div1 := rem0 / (27*N) in let rem1 := rem0 mod (27*N) in
  let row := div1 * 9 * N in
  let div2 := rem1 / 27 in let rem2 := rem1 mod 27 in
  let row := row + div2 * 3 in
  let div3 := rem2 / 9 in let rem3 := rem2 mod 9 in
  let div4 := rem3 / 3 in let rem4 := rem3 mod 3 in
  row + div4 * 3 * N + rem4.
Definition col3 (N nx r c : Z) : Z :=
  let div0 := r / (27*N*N) in let rem0 := r mod (27*N*N) in
  let c := c + div0 * 3 * nx in
  let div1 := rem0 / (27*N) in let rem1 := rem0 mod (27*N) in
  let div2 := rem1 / 27 in let rem2 := rem1 mod 27 in
  let div3 := rem2 / 9 in
  c + div3 * nx.

Lemma digit (K d r : Z) : 0 <= r < K -> (d*K + r) / K = d /\ (d*K + r) mod K = r.
Proof. intros H. assert (K > 0) by lia. split.
  - symmetry. apply Z.div_unique with r; lia.
  - symmetry. apply Z.mod_unique with d; lia. Qed.

Theorem reshape3_spec N nx i j k a b c x :
  0 < N -> 0 <= j < N -> 0 <= k < N -> 0 <= a < 3 -> 0 <= b < 3 -> 0 <= c < 3 -> 0 <= i ->
  let r := ((i*N + j)*N + k)*27 + (a*9 + b*3 + c) in
  row3 N r = (3*j + b) * (3*N) + (3*k + c) /\ col3 N nx r x = x + i*3*nx + a*nx.
Proof.
  intros HN Hj Hk Ha Hb Hc Hi r. unfold row3, col3.
  assert (E0 : r = i * (27*N*N) + (j*(27*N) + (k*27 + (a*9 + (b*3 + c))))) by (unfold r; ring).
  assert (B3 : 0 <= b*3 + c < 9) by lia.
  assert (B2 : 0 <= a*9 + (b*3+c) < 27) by lia.
  assert (B1 : 0 <= k*27 + (a*9 + (b*3+c)) < 27*N) by nia.
  assert (B0 : 0 <= j*(27*N) + (k*27 + (a*9 + (b*3+c))) < 27*N*N) by nia.
  rewrite E0.
  destruct (digit (27*N*N) i _ B0) as [-> ->].
  destruct (digit (27*N) j _ B1) as [-> ->].
  destruct (digit 27 k _ B2) as [-> ->].
  destruct (digit 9 a _ B3) as [-> ->].
  destruct (digit 3 b c Hc) as [-> ->].
  split; ring.
Qed.
Print Assumptions reshape3_spec.
