(* Exploratory spike written while drafting DESIGN.md (round 0); not part of the machinery.
   Shows that the abstract inner-product-space style over Coq Reals works: compiles in ~8 s with
   coqc 8.16.1; Print Assumptions reports only ClassicalDedekindReals.sig_forall_dec and
   FunctionalExtensionality.functional_extensionality_dep (standard-library Reals axioms). *)
From Coq Require Import Reals Lra Psatz List.
Open Scope R_scope.
Record IPS := {
  V : Type; vadd : V -> V -> V; vscale : R -> V -> V; vzero : V;
  ip : V -> V -> R;
  ip_sym : forall x y, ip x y = ip y x;
  ip_add_l : forall x y z, ip (vadd x y) z = ip x z + ip y z;
  ip_scale_l : forall a x y, ip (vscale a x) y = a * ip x y;
  ip_pos : forall x, 0 <= ip x x;
  ip_def : forall x, ip x x = 0 -> forall y, ip x y = 0;
}.
Section PSD.
  Variable S : IPS.
  Variable A : V S -> V S.
  Hypothesis A_add : forall x y, A (vadd S x y) = vadd S (A x) (A y).
  Hypothesis A_scale : forall a x, A (vscale S a x) = vscale S a (A x).
  Hypothesis A_sym : forall x y, ip S (A x) y = ip S x (A y).
  Hypothesis A_psd : forall x, 0 <= ip S x (A x).
  Lemma psd_zero_form : forall v, ip S v (A v) = 0 -> ip S (A v) (A v) = 0.
  Proof.
    intros v Hv.
    set (w := A v).
    assert (Hq : forall s, 0 <= - 2 * s * ip S w w + s * s * ip S w (A w)).
    { intro s. pose proof (A_psd (vadd S v (vscale S (-s) w))) as H.
      rewrite A_add, A_scale in H.
      rewrite !ip_add_l, !ip_scale_l in H.
      rewrite (ip_sym S v (vadd S _ _)), (ip_sym S w (vadd S _ _)) in H.
      rewrite !ip_add_l, !ip_scale_l in H.
      rewrite (ip_sym S (A v) v) in H. rewrite Hv in H.
      assert (E1 : ip S (A w) v = ip S w w). { rewrite A_sym. unfold w. reflexivity. }
      assert (E2 : ip S (A v) w = ip S w w) by reflexivity.
      assert (E3 : ip S (A w) w = ip S w (A w)) by apply ip_sym.
      rewrite E1, E2, E3 in H. lra. }
    pose proof (ip_pos S w) as Hp.
    set (a := ip S w w) in *. set (b := ip S w (A w)) in *.
    destruct (Rle_lt_dec a 0) as [|Hpos]; [lra|exfalso].
    assert (Hb : 0 <= b) by (apply A_psd).
    specialize (Hq (a / (b + 1))).
    assert (Hb1 : 0 < b + 1) by lra.
    assert (E : - 2 * (a / (b + 1)) * a + a / (b + 1) * (a / (b + 1)) * b
              = (a*a/(b+1)) * ( -2 + b/(b+1))). { field. lra. }
    rewrite E in Hq.
    assert (0 < a*a/(b+1)). { apply Rdiv_lt_0_compat; nra. }
    assert (b/(b+1) < 1). { apply (Rmult_lt_reg_r (b+1)); [lra|]. unfold Rdiv. rewrite Rmult_assoc, Rinv_l; lra. }
    nra.
  Qed.
End PSD.
Print Assumptions psd_zero_form.
