(** FCSolver objects as a state machine (the shape is regenerated: gen/SolverStruct.v checks that [full_fc] and
    [compact_fc] are plain properties returning [_recover_fcs(..)], which reads only the basis sets and the current
    coefficients, and that [solve] rebinds the coefficients).

    State: the coefficients of the last solve (None before the first).  Operations: solve a dataset, read the full or the
    compact result.  Datasets and results are abstract tokens: [fit d] stands for the coefficient vector the normal
    equations give for dataset d, [expand compact coefs] for comp @ (basis @ coefs). *)
From Coq Require Import List Bool.
Import ListNotations.

Section SolverObj.
  Variables (dataset coefs tensor : Type).
  Variable fit : dataset -> coefs.
  Variable expand : bool -> coefs -> tensor.      (* true: compact layout *)

  Inductive sop := Solve (d : dataset) | ReadFull | ReadCompact.
  Definition sstate := option coefs.

  Definition sstep (s : sstate) (o : sop) : sstate * option tensor :=
    match o with
    | Solve d => (Some (fit d), None)
    | ReadFull => (s, option_map (expand false) s)
    | ReadCompact => (s, option_map (expand true) s)
    end.

  Definition srun (h : list sop) (s : sstate) : sstate := fold_left (fun st o => fst (sstep st o)) h s.

  (** reads never change the state *)
  Lemma read_keeps_state s o : (forall d, o <> Solve d) -> fst (sstep s o) = s.
  Proof. destruct o; intros H; [exfalso; apply (H d); reflexivity | reflexivity | reflexivity]. Qed.

  (** the dataset of the last solve of a history, if any *)
  Fixpoint last_solve (h : list sop) (acc : option dataset) : option dataset :=
    match h with
    | [] => acc
    | Solve d :: h' => last_solve h' (Some d)
    | _ :: h' => last_solve h' acc
    end.

  Lemma srun_state h : forall s acc, s = option_map fit acc -> srun h s = option_map fit (last_solve h acc).
  Proof.
    induction h as [|o h IH]; intros s acc Hs; cbn [srun fold_left last_solve]; [exact Hs|].
    destruct o as [d| |]; cbn [sstep fst]; fold (srun h).
    - apply IH. reflexivity.
    - apply IH. exact Hs.
    - apply IH. exact Hs.
  Qed.

  (** After ANY history (solves of any datasets, reads in between, reads before the first solve) a solve of d followed
      by a read returns what a fresh solver returns for d. *)
  Theorem reused_solver_equals_fresh (h : list sop) d (compact : bool) :
    snd (sstep (fst (sstep (srun h None) (Solve d))) (if compact then ReadCompact else ReadFull))
    = snd (sstep (fst (sstep None (Solve d))) (if compact then ReadCompact else ReadFull)).
  Proof. destruct compact; reflexivity. Qed.

  (** and a read at any point returns the expansion of the LAST solved dataset *)
  Theorem read_returns_last_solve (h : list sop) (compact : bool) :
    snd (sstep (srun h None) (if compact then ReadCompact else ReadFull))
    = option_map (fun d => expand compact (fit d)) (last_solve h None).
  Proof.
    rewrite (srun_state h None None eq_refl). destruct compact; cbn [sstep snd]; destruct (last_solve h None); reflexivity.
  Qed.
End SolverObj.
