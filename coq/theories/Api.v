(** The [Symfc] object as a state machine.  Validation ([check_orders], [check_dataset]) and the
    effect order of [solve] ([dispatch]) are the *translated* definitions of gen/Orders.v; the
    interpreter below executes the translated event lists one event at a time, so a ladder that
    assigned a result before a later look-up could still fail would make [solve_error_preserves_state]
    unprovable.

    Arrays are modelled by an identity (which array object / which content) and a shape; a basis set
    by an identity.  What a solver returns is modelled as a token recording everything the call was
    given: the order, the requested combination, compact/full, the basis-set identities it received and
    the dataset identities.  "Depends only on its inputs" then reads: the token written by a solve does
    not mention anything else of the state. *)
From Coq Require Import ZArith List Bool Lia ZifyBool.
Import ListNotations.
From SymfcV Require Import PyPrelude OrdersThm.
From SymfcG Require Import Orders.
Open Scope Z_scope.

Definition arr := (nat * list Z)%type.          (* identity, shape *)
Inductive fcval := FC (k : Z) (o : list Z) (compact : bool) (bids : list nat) (did fid : nat).

Record state := mk {
  s_disp : option arr;
  s_forces : option arr;
  s_basis : list (Z * nat);
  s_fc : list (Z * fcval) }.

Definition init (d f : option arr) : state := mk d f [] [].

Definition shape_of (a : option arr) : option (list Z) := option_map snd a.
Definition id_of (a : option arr) : nat := match a with Some (i, _) => i | None => 0%nat end.

Section WithSupercell.
Variable natom : Z.

(** Interpreter of one dispatch branch. *)
Fixpoint run_events (o : list Z) (compact : bool) (evs : list ev) (st : state) (reads : list nat)
  : state * result unit :=
  match evs with
  | [] => (st, Ok tt)
  | EvRead k :: evs' =>
      match alist_get k (s_basis st) with
      | None => (st, Err KeyError)
      | Some b => run_events o compact evs' st (reads ++ [b])
      end
  | EvSolve :: evs' => run_events o compact evs' st reads
  | EvWrite k :: evs' =>
      let v := FC k o compact reads (id_of (s_disp st)) (id_of (s_forces st)) in
      run_events o compact evs' (mk (s_disp st) (s_forces st) (s_basis st) (alist_set k v (s_fc st))) reads
  end.

Definition solve (st : state) (m : option Z) (os : option (list Z)) (compact : bool) : state * result unit :=
  match check_dataset natom (shape_of (s_disp st)) (shape_of (s_forces st)) with
  | Err e => (st, Err e)
  | Ok _ =>
    match check_orders m os with
    | Err e => (st, Err e)
    | Ok o =>
      match find_branch o dispatch with
      | None => (st, Ok tt)
      | Some evs => run_events o compact evs st []
      end
    end
  end.

(** A freshly computed basis set is a function of the object's supercell, cutoff and the order;
    [fresh_bid] stands for it. *)
Variable fresh_bid : Z -> nat.

Fixpoint compute_orders (o : list Z) (b : list (Z * nat)) : list (Z * nat) :=
  match o with
  | [] => b
  | k :: o' =>
      match alist_get k compute_table with
      | Some (key, _) => compute_orders o' (alist_set key (fresh_bid key) b)
      | None => compute_orders o' b
      end
  end.

Definition compute (st : state) (m : option Z) (os : option (list Z)) : state * result unit :=
  match check_orders m os with
  | Err e => (st, Err e)
  | Ok o => (mk (s_disp st) (s_forces st) (compute_orders o (s_basis st)) (s_fc st), Ok tt)
  end.

Definition run (st : state) (m : option Z) (os : option (list Z)) (compact : bool) : state * result unit :=
  match s_disp st, s_forces st with
  | Some _, Some _ =>
      match compute st m os with
      | (st', Err e) => (st', Err e)
      | (st', Ok _) => solve st' m os compact
      end
  | _, _ => (st, Ok tt)
  end.

Inductive op :=
| OpSetDisp (a : arr)
| OpSetForces (a : arr)
| OpSetBasis (b : list (Z * nat))
| OpCompute (m : option Z) (os : option (list Z))
| OpSolve (m : option Z) (os : option (list Z)) (compact : bool)
| OpRun (m : option Z) (os : option (list Z)) (compact : bool).

Definition step (st : state) (p : op) : state * result unit :=
  match p with
  | OpSetDisp a => (mk (Some a) (s_forces st) (s_basis st) (s_fc st), Ok tt)
  | OpSetForces a => (mk (s_disp st) (Some a) (s_basis st) (s_fc st), Ok tt)
  | OpSetBasis b => (mk (s_disp st) (s_forces st) b (s_fc st), Ok tt)
  | OpCompute m os => compute st m os
  | OpSolve m os c => solve st m os c
  | OpRun m os c => run st m os c
  end.

Definition exec (st : state) (h : list op) : state := fold_left (fun s p => fst (step s p)) h st.

(** ** Events of a canonical branch *)
Fixpoint lookup_all (o : list Z) (b : list (Z * nat)) : option (list nat) :=
  match o with
  | [] => Some []
  | k :: o' => match alist_get k b, lookup_all o' b with
               | Some x, Some xs => Some (x :: xs)
               | _, _ => None
               end
  end.

Fixpoint write_all (o0 : list Z) (compact : bool) (reads : list nat) (did fid : nat) (ks : list Z)
  (fc : list (Z * fcval)) : list (Z * fcval) :=
  match ks with
  | [] => fc
  | k :: ks' => write_all o0 compact reads did fid ks' (alist_set k (FC k o0 compact reads did fid) fc)
  end.

Lemma run_reads o0 c st : forall (ks : list Z) (rest : list ev) (reads : list nat),
  run_events o0 c (map EvRead ks ++ rest) st reads =
  match lookup_all ks (s_basis st) with
  | Some xs => run_events o0 c rest st (reads ++ xs)
  | None => (st, Err KeyError)
  end.
Proof.
  induction ks as [|k ks IH]; intros rest reads; simpl.
  - rewrite app_nil_r. reflexivity.
  - destruct (alist_get k (s_basis st)) as [b|]; [|reflexivity].
    rewrite IH. destruct (lookup_all ks (s_basis st)); [|reflexivity].
    rewrite <- app_assoc. reflexivity.
Qed.

Lemma run_writes o0 c reads : forall (ks : list Z) (st : state),
  run_events o0 c (map EvWrite ks) st reads =
  (mk (s_disp st) (s_forces st) (s_basis st)
      (write_all o0 c reads (id_of (s_disp st)) (id_of (s_forces st)) ks (s_fc st)), Ok tt).
Proof.
  induction ks as [|k ks IH]; intros st; simpl.
  - destruct st; reflexivity.
  - rewrite IH. reflexivity.
Qed.

Lemma run_canonical o0 c st o :
  run_events o0 c (canonical_events o) st [] =
  match lookup_all o (s_basis st) with
  | Some xs => (mk (s_disp st) (s_forces st) (s_basis st)
                   (write_all o0 c xs (id_of (s_disp st)) (id_of (s_forces st)) o (s_fc st)), Ok tt)
  | None => (st, Err KeyError)
  end.
Proof.
  unfold canonical_events. rewrite run_reads.
  destruct (lookup_all o (s_basis st)) as [xs|]; [|reflexivity].
  simpl. apply run_writes.
Qed.

(** ** What [solve] does, in closed form *)
Theorem solve_spec st m os c :
  solve st m os c =
  match check_dataset natom (shape_of (s_disp st)) (shape_of (s_forces st)) with
  | Err e => (st, Err e)
  | Ok _ =>
    match check_orders m os with
    | Err e => (st, Err e)
    | Ok o =>
      match lookup_all o (s_basis st) with
      | None => (st, Err KeyError)
      | Some xs => (mk (s_disp st) (s_forces st) (s_basis st)
                       (write_all o c xs (id_of (s_disp st)) (id_of (s_forces st)) o (s_fc st)), Ok tt)
      end
    end
  end.
Proof.
  unfold solve.
  destruct (check_dataset natom (shape_of (s_disp st)) (shape_of (s_forces st))); [|reflexivity].
  destruct (check_orders m os) as [o|] eqn:E; [|reflexivity].
  rewrite (dispatch_branch o (check_orders_ok_in_whitelist _ _ _ E)).
  apply run_canonical.
Qed.

(** C16: a rejected request changes nothing. *)
Theorem solve_error_preserves_state st m os c st' e : solve st m os c = (st', Err e) -> st' = st.
Proof.
  rewrite solve_spec.
  destruct (check_dataset natom (shape_of (s_disp st)) (shape_of (s_forces st))); [|intros H; inversion H; reflexivity].
  destruct (check_orders m os) as [o|]; [|intros H; inversion H; reflexivity].
  destruct (lookup_all o (s_basis st)); intros H; inversion H; reflexivity.
Qed.

Theorem solve_rejects_bad_dataset st m os c :
  (forall n, ~ (shape_of (s_disp st) = Some [n; natom; 3] /\ shape_of (s_forces st) = Some [n; natom; 3])) ->
  solve st m os c = (st, Err RuntimeError).
Proof.
  intros H. unfold solve.
  destruct (check_dataset_never_other natom (shape_of (s_disp st)) (shape_of (s_forces st))) as [E|E]; rewrite E.
  - apply check_dataset_accept_iff in E. destruct E as [n Hn]. exfalso. apply (H n). exact Hn.
  - reflexivity.
Qed.

Theorem solve_rejects_bad_orders st m os c e :
  check_orders m os = Err e -> exists e', solve st m os c = (st, Err e').
Proof.
  intros H. unfold solve.
  destruct (check_dataset natom (shape_of (s_disp st)) (shape_of (s_forces st))); [|eauto].
  rewrite H. eauto.
Qed.

Theorem solve_missing_basis st m os c o k :
  check_orders m os = Ok o -> In k o -> alist_get k (s_basis st) = None ->
  exists e, solve st m os c = (st, Err e).
Proof.
  intros Ho Hk Hb. rewrite solve_spec.
  destruct (check_dataset natom (shape_of (s_disp st)) (shape_of (s_forces st))); [|eauto].
  rewrite Ho.
  assert (lookup_all o (s_basis st) = None).
  { clear Ho. induction o as [|k' o IH]; [destruct Hk|]. simpl.
    destruct Hk as [->|Hk].
    - rewrite Hb. reflexivity.
    - rewrite (IH Hk). destruct (alist_get k' (s_basis st)); reflexivity. }
  rewrite H. eauto.
Qed.

(** ** Written entries *)
Lemma write_all_other o0 c xs did fid : forall ks fc k, ~ In k ks ->
  alist_get k (write_all o0 c xs did fid ks fc) = alist_get k fc.
Proof.
  induction ks as [|k0 ks IH]; intros fc k Hk; simpl; [reflexivity|].
  rewrite IH by (intros H; apply Hk; right; exact H).
  apply alist_get_set_other. intros ->. apply Hk. left. reflexivity.
Qed.

Lemma write_all_in o0 c xs did fid : forall ks fc k, In k ks ->
  alist_get k (write_all o0 c xs did fid ks fc) = Some (FC k o0 c xs did fid).
Proof.
  induction ks as [|k0 ks IH]; intros fc k Hk; simpl; [destruct Hk|].
  destruct (in_dec Z.eq_dec k ks) as [Hin|Hnin].
  - apply IH. exact Hin.
  - destruct Hk as [->|Hk]; [|contradiction].
    rewrite write_all_other by exact Hnin. apply alist_get_set_same.
Qed.

(** C16/C12: a successful solve writes exactly the requested orders, each entry being determined by
    (order, requested combination, compact/full, the basis sets of the requested orders, the dataset);
    every other entry, the basis sets and the dataset are untouched. *)
Theorem solve_ok_spec st m os c st' :
  solve st m os c = (st', Ok tt) ->
  exists o xs,
    check_orders m os = Ok o /\ lookup_all o (s_basis st) = Some xs /\
    s_disp st' = s_disp st /\ s_forces st' = s_forces st /\ s_basis st' = s_basis st /\
    (forall k, In k o -> alist_get k (s_fc st') = Some (FC k o c xs (id_of (s_disp st)) (id_of (s_forces st)))) /\
    (forall k, ~ In k o -> alist_get k (s_fc st') = alist_get k (s_fc st)).
Proof.
  rewrite solve_spec.
  destruct (check_dataset natom (shape_of (s_disp st)) (shape_of (s_forces st))); [|discriminate].
  destruct (check_orders m os) as [o|]; [|discriminate].
  destruct (lookup_all o (s_basis st)) as [xs|] eqn:El; [|discriminate].
  intros H. inversion H; subst; clear H. exists o, xs. simpl.
  split; [reflexivity|]. split; [exact El|]. do 3 (split; [reflexivity|]). split.
  - intros k Hk. apply write_all_in. exact Hk.
  - intros k Hk. apply write_all_other. exact Hk.
Qed.

(** C12: the entries written by a solve do not depend on the history.  Two objects in arbitrary
    states that hold the same dataset and the same basis sets for the requested orders obtain the
    same entries for the requested orders. *)
Lemma lookup_all_ext o : forall b1 b2, (forall k, In k o -> alist_get k b1 = alist_get k b2) ->
  lookup_all o b1 = lookup_all o b2.
Proof.
  induction o as [|k o IH]; intros b1 b2 H; simpl; [reflexivity|].
  rewrite (H k (or_introl eq_refl)). rewrite (IH b1 b2) by (intros k' Hk'; apply H; right; exact Hk').
  reflexivity.
Qed.

Theorem solve_depends_only_on_inputs st1 st2 m os c st1' o :
  check_orders m os = Ok o ->
  s_disp st1 = s_disp st2 -> s_forces st1 = s_forces st2 ->
  (forall k, In k o -> alist_get k (s_basis st1) = alist_get k (s_basis st2)) ->
  solve st1 m os c = (st1', Ok tt) ->
  exists st2', solve st2 m os c = (st2', Ok tt) /\
               forall k, In k o -> alist_get k (s_fc st1') = alist_get k (s_fc st2').
Proof.
  intros Ho Hd Hf Hb H1.
  pose proof H1 as H1'. apply solve_ok_spec in H1'.
  destruct H1' as [o1 [xs1 [Ho1 [Hl1 [_ [_ [_ [Hw1 _]]]]]]]].
  assert (o1 = o) by congruence. subst o1.
  rewrite solve_spec in H1. rewrite solve_spec.
  rewrite <- Hd, <- Hf.
  destruct (check_dataset natom (shape_of (s_disp st1)) (shape_of (s_forces st1))); [|discriminate].
  rewrite Ho in *. rewrite <- (lookup_all_ext o _ _ Hb). rewrite Hl1.
  eexists. split; [reflexivity|]. simpl.
  intros k Hk. rewrite (Hw1 k Hk). symmetry. apply write_all_in. exact Hk.
Qed.

Theorem solve_history_independent (h : list op) st0 m os c :
  let st := exec st0 h in
  let fresh := mk (s_disp st) (s_forces st) (s_basis st) [] in
  forall st' o,
  check_orders m os = Ok o ->
  solve st m os c = (st', Ok tt) ->
  exists fresh', solve fresh m os c = (fresh', Ok tt) /\
                 forall k, In k o -> alist_get k (s_fc st') = alist_get k (s_fc fresh').
Proof.
  intros st fresh st' o Ho H1.
  exact (solve_depends_only_on_inputs st fresh m os c st' o Ho eq_refl eq_refl (fun _ _ => eq_refl) H1).
Qed.

(** Repeating a call reproduces its result (idempotence of solve on the result dictionary). *)
Theorem solve_repeat st m os c st' st'' :
  solve st m os c = (st', Ok tt) -> solve st' m os c = (st'', Ok tt) ->
  forall k, alist_get k (s_fc st'') = alist_get k (s_fc st').
Proof.
  intros H1 H2 k.
  apply solve_ok_spec in H1. apply solve_ok_spec in H2.
  destruct H1 as [o1 [xs1 [Ho1 [Hl1 [Hd1 [Hf1 [Hb1 [Hw1 Hn1]]]]]]]].
  destruct H2 as [o2 [xs2 [Ho2 [Hl2 [Hd2 [Hf2 [Hb2 [Hw2 Hn2]]]]]]]].
  assert (o2 = o1) by congruence. subst o2.
  rewrite Hb1 in Hl2. assert (xs2 = xs1) by congruence. subst xs2.
  destruct (in_dec Z.eq_dec k o1) as [Hin|Hnin].
  - rewrite (Hw2 k Hin), (Hw1 k Hin), Hd1, Hf1. reflexivity.
  - apply Hn2. exact Hnin.
Qed.

(** run without a complete dataset is a no-op. *)
Theorem run_without_data_noop st m os c :
  s_disp st = None \/ s_forces st = None -> run st m os c = (st, Ok tt).
Proof. intros [H|H]; unfold run; rewrite H; [reflexivity | destruct (s_disp st); reflexivity]. Qed.

(** Frame: over any history the dataset is changed only by its setters, the basis sets only by
    compute / the basis setter; solve never touches either. *)
Definition touches_inputs (p : op) : bool :=
  match p with OpSolve _ _ _ => false | _ => true end.

Theorem solve_frame st p : touches_inputs p = false ->
  s_disp (fst (step st p)) = s_disp st /\ s_forces (fst (step st p)) = s_forces st /\
  s_basis (fst (step st p)) = s_basis st.
Proof.
  destruct p; try discriminate. intros _. simpl.
  destruct (solve st m os compact) as [st' r] eqn:E. simpl.
  destruct r as [[]|e].
  - apply solve_ok_spec in E. destruct E as [o [xs [_ [_ [Hd [Hf [Hb _]]]]]]]. auto.
  - apply solve_error_preserves_state in E. subst. auto.
Qed.

Theorem history_frame (h : list op) st :
  forallb (fun p => negb (touches_inputs p)) h = true ->
  s_disp (exec st h) = s_disp st /\ s_forces (exec st h) = s_forces st /\ s_basis (exec st h) = s_basis st.
Proof.
  revert st. induction h as [|p h IH]; intros st H; simpl in *; [auto|].
  apply andb_true_iff in H. destruct H as [Hp Hh].
  apply negb_true_iff in Hp.
  destruct (solve_frame st p Hp) as [H1 [H2 H3]].
  destruct (IH (fst (step st p)) Hh) as [H4 [H5 H6]].
  unfold exec in *. simpl. rewrite H4, H5, H6. auto.
Qed.

(** The result dictionary after a successful solve on an object with no earlier results holds exactly
    the requested orders. *)


Theorem solve_result_keys st m os c st' :
  s_fc st = [] -> solve st m os c = (st', Ok tt) ->
  exists o, check_orders m os = Ok o /\ forall k, In k (alist_keys (s_fc st')) <-> In k o.
Proof.
  clear fresh_bid. intros Hfc H. apply solve_ok_spec in H.
  destruct H as [o [xs [Ho [_ [_ [_ [_ [Hw Hn]]]]]]]]. exists o. split; [exact Ho|].
  intros k. split.
  - intros Hin. destruct (in_dec Z.eq_dec k o) as [Hk|Hk]; [exact Hk|].
    specialize (Hn k Hk). rewrite Hfc in Hn. simpl in Hn.
    apply alist_get_none_iff in Hn. contradiction.
  - intros Hk. specialize (Hw k Hk).
    destruct (in_dec Z.eq_dec k (alist_keys (s_fc st'))) as [Hin|Hnin]; [exact Hin|].
    apply alist_get_none_iff in Hnin. congruence.
Qed.

End WithSupercell.
