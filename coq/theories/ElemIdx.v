(** The element-level index loops [get_lat_trans_decompr_indices(_O3/_O4)] (the table behind C_trans and the full
    output) compute  class code of the atoms * 3^n + Cartesian index.

    Source shape (regenerated: gen/IndepGen.v): the loops of AtomIdx.v with one more innermost loop
        for ab in range(3^n):  indices[index_shift + ab] = n;  n += 1
    i.e. nested loops with mixed bases (N, ..., N, 3^n) and ONE running counter, written at all translates of the atoms.
    For every number of atoms, valid table and nesting depth. *)
From Coq Require Import List Arith Lia Bool NArith.
Import ListNotations.
From SymfcV Require Import Tuples Group Concrete AtomIdx.
Local Open Scope nat_scope.

(** nested loops with mixed bases and a running counter *)
Fixpoint enum_mixed (bases : list nat) (prefix : list nat) (c0 : BinNums.N) : list item * BinNums.N :=
  match bases with
  | [] => ([(prefix, c0)], (c0 + 1)%N)
  | b :: bs => enum_digits (fun i c => enum_mixed bs (prefix ++ [i]) c) (seq 0 b) c0
  end.

Fixpoint mravel (bases : list nat) (acc : BinNums.N) (l : list nat) : BinNums.N :=
  match bases, l with
  | b :: bs, d :: l' => mravel bs (acc * N.of_nat b + N.of_nat d)%N l'
  | _, _ => acc
  end.

Definition mprod (bases : list nat) : BinNums.N := fold_right (fun b acc => (N.of_nat b * acc)%N) 1%N bases.

Lemma mravel_split bases : forall acc l, length l = length bases ->
  mravel bases acc l = (acc * mprod bases + mravel bases 0 l)%N.
Proof.
  induction bases as [|b bs IH]; intros acc l Hlen.
  - destruct l; [|discriminate]. cbn [mravel mprod fold_right]. lia.
  - destruct l as [|d l]; [discriminate|]. cbn [mravel]. cbn [length] in Hlen. injection Hlen as Hlen.
    rewrite (IH (acc * N.of_nat b + N.of_nat d)%N l Hlen), (IH (0 * N.of_nat b + N.of_nat d)%N l Hlen).
    cbn [mprod fold_right]. fold (mprod bs). lia.
Qed.

Lemma forall2_len {A B} (R : A -> B -> Prop) l l' : Forall2 R l l' -> length l = length l'.
Proof. induction 1; cbn [length]; congruence. Qed.

Lemma enum_mixed_spec bases : forall prefix c0,
  snd (enum_mixed bases prefix c0) = (c0 + mprod bases)%N /\
  forall a cc, In (a, cc) (fst (enum_mixed bases prefix c0)) <->
    exists suf, Forall2 (fun d b => d < b) suf bases /\ a = prefix ++ suf /\ cc = (c0 + mravel bases 0 suf)%N.
Proof.
  induction bases as [|b bs IH]; intros prefix c0.
  - cbn [enum_mixed fst snd mprod fold_right]. split; [reflexivity|]. intros a cc. split.
    + intros [E|[]]. injection E as <- <-. exists []. rewrite app_nil_r. cbn [mravel]. split; [constructor|]. split; [reflexivity | lia].
    + intros (suf & HF & -> & ->). inversion HF; subst. left. rewrite app_nil_r. cbn [mravel]. f_equal. lia.
  - cbn [enum_mixed].
    pose proof (enum_digits_spec (fun i c => enum_mixed bs (prefix ++ [i]) c) (mprod bs) (fun i => prefix ++ [i])
                  (fun suf => Forall2 (fun d b0 => d < b0) suf bs) (mravel bs 0)
                  (fun i c => IH (prefix ++ [i]) c) (seq 0 b) (seq_NoDup b 0) c0) as [Hc Hl].
    rewrite seq_length in Hc. split.
    + rewrite Hc. cbn [mprod fold_right]. fold (mprod bs). reflexivity.
    + intros a cc. rewrite Hl. split.
      * intros (i & suf & Hi & HF & -> & ->). apply in_seq in Hi. exists (i :: suf). rewrite index_of_seq by lia.
        split; [constructor; [lia | exact HF]|]. split; [rewrite <- app_assoc; reflexivity|].
        cbn [mravel]. rewrite (mravel_split bs (0 * N.of_nat b + N.of_nat i)%N suf) by (eapply forall2_len; eauto).
        rewrite Nat.sub_0_r. lia.
      * intros (suf & HF & -> & ->). inversion HF as [|i b0 suf' bs0 Hi HF']; subst.
        exists i, suf'. assert (Hin : In i (seq 0 b)) by (apply in_seq; lia).
        split; [exact Hin|]. split; [exact HF'|]. split; [rewrite <- app_assoc; reflexivity|].
        rewrite index_of_seq by lia. cbn [mravel].
        rewrite (mravel_split bs (0 * N.of_nat b + N.of_nat i)%N suf') by (eapply forall2_len; eauto).
        rewrite Nat.sub_0_r. lia.
Qed.

(** atoms in base NA followed by one Cartesian digit in base K *)
Lemma mravel_atoms_cart NA K k : forall acc suf ab, length suf = k ->
  mravel (repeat NA k ++ [K]) acc (suf ++ [ab]) = (ravel_acc (N.of_nat NA) acc suf * N.of_nat K + N.of_nat ab)%N.
Proof.
  induction k as [|k IH]; intros acc suf ab Hlen.
  - destruct suf; [|discriminate]. cbn [repeat app mravel ravel_acc]. reflexivity.
  - destruct suf as [|d suf]; [discriminate|]. cbn [length] in Hlen. injection Hlen as Hlen.
    cbn [repeat app mravel ravel_acc]. apply IH. exact Hlen.
Qed.

Lemma mprod_atoms_cart NA K k : mprod (repeat NA k ++ [K]) = (N.of_nat NA ^ N.of_nat k * N.of_nat K)%N.
Proof.
  induction k as [|k IH].
  - cbn [repeat app mprod fold_right]. change (N.of_nat 0) with 0%N. rewrite N.pow_0_r. lia.
  - cbn [repeat app mprod fold_right]. fold (mprod (repeat NA k ++ [K])). rewrite IH.
    rewrite Nat2N.inj_succ, N.pow_succ_r'. lia.
Qed.

Lemma forall2_atoms_cart NA K k l : Forall2 (fun d b => d < b) l (repeat NA k ++ [K]) <->
  exists suf ab, l = suf ++ [ab] /\ length suf = k /\ in_range NA suf /\ ab < K.
Proof.
  revert l. induction k as [|k IH]; intros l.
  - cbn [repeat app]. split.
    + intros H. inversion H as [|d b l' bs Hd Hl']; subst. inversion Hl'; subst. exists [], d. repeat split; auto. constructor.
    + intros (suf & ab & -> & Hlen & _ & Hab). destruct suf; [|discriminate]. cbn. constructor; [exact Hab | constructor].
  - cbn [repeat app]. split.
    + intros H. inversion H as [|d b l' bs Hd Hl']; subst. apply IH in Hl'. destruct Hl' as (suf & ab & -> & Hlen & Hr & Hab).
      exists (d :: suf), ab. repeat split; auto; [cbn [length]; lia | constructor; assumption].
    + intros (suf & ab & -> & Hlen & Hr & Hab). destruct suf as [|d suf]; [discriminate|].
      inversion Hr; subst. cbn [app]. constructor; [assumption|]. apply IH. exists suf, ab. cbn [length] in Hlen. repeat split; auto; lia.
Qed.

Section ElemTable.
  Variable NA : nat.
  Variable tp : table.
  Hypothesis Hv : valid_tp NA tp = true.
  Let nlp := length tp.
  Variable K : nat.      (* 3^n Cartesian components *)

  (** items of the loops: (independent atom :: other atoms ++ [ab], counter) *)
  Definition elem_items (k : nat) : list item :=
    fst (enum_digits (fun p c => enum_mixed (repeat NA k ++ [K]) [p] c) (indep_t NA tp) 0%N).

  Lemma elem_items_spec k a cc :
    In (a, cc) (elem_items k) <->
    exists p suf ab, In p (indep_t NA tp) /\ length suf = k /\ in_range NA suf /\ ab < K /\ a = p :: suf ++ [ab] /\
                     cc = (cls_code NA tp (p :: suf) * N.of_nat K + N.of_nat ab)%N.
  Proof.
    unfold elem_items.
    pose proof (enum_digits_spec (fun p c => enum_mixed (repeat NA k ++ [K]) [p] c) (mprod (repeat NA k ++ [K])) (fun p => [p])
                  (fun suf => Forall2 (fun d b => d < b) suf (repeat NA k ++ [K])) (mravel (repeat NA k ++ [K]) 0)
                  (fun p c => enum_mixed_spec (repeat NA k ++ [K]) [p] c) (indep_t NA tp) (indep_t_nodup NA tp) 0%N) as [_ Hl].
    rewrite Hl. split.
    - intros (p & l & Hp & HF & -> & ->). apply forall2_atoms_cart in HF. destruct HF as (suf & ab & -> & Hlen & Hr & Hab).
      exists p, suf, ab. repeat split; auto.
      assert (Hpr : p < NA).
      { unfold indep_t, indep_atoms in Hp. apply filter_In in Hp. destruct Hp as [Hp _]. apply in_seq in Hp. lia. }
      rewrite (cls_indep_first NA tp Hv p suf Hpr Hp Hr).
      rewrite (mravel_atoms_cart NA K k 0%N suf ab Hlen), mprod_atoms_cart.
      rewrite (ravel_acc_split (N.of_nat NA) (N.of_nat (index_of p (indep_t NA tp))) suf), Hlen. lia.
    - intros (p & suf & ab & Hp & Hlen & Hr & Hab & -> & ->). exists p, (suf ++ [ab]). split; [exact Hp|].
      split; [apply forall2_atoms_cart; exists suf, ab; repeat split; auto|]. split; [reflexivity|].
      assert (Hpr : p < NA).
      { unfold indep_t, indep_atoms in Hp. apply filter_In in Hp. destruct Hp as [Hp _]. apply in_seq in Hp. lia. }
      rewrite (cls_indep_first NA tp Hv p suf Hpr Hp Hr).
      rewrite (mravel_atoms_cart NA K k 0%N suf ab Hlen), mprod_atoms_cart.
      rewrite (ravel_acc_split (N.of_nat NA) (N.of_nat (index_of p (indep_t NA tp))) suf), Hlen. lia.
  Qed.

  (** a write: atoms (translated), Cartesian component, value *)
  Definition ewrite := ((list nat * nat) * BinNums.N)%type.
  Definition split_last (a : list nat) : list nat * nat := (removelast a, last a 0).

  Definition elem_writes (k : nat) : list ewrite :=
    flat_map (fun it => let (atoms, ab) := split_last (fst it) in
                        map (fun tau => ((shift (act tp) tau atoms, ab), snd it)) (seq 0 nlp)) (elem_items k).

  Lemma split_last_snoc l x : split_last (l ++ [x]) = (l, x).
  Proof. unfold split_last. rewrite removelast_last, last_last. reflexivity. Qed.

  (** every write carries  class code of its atoms * K + its Cartesian component ... *)
  Theorem elem_writes_sound k atoms ab v : In ((atoms, ab), v) (elem_writes k) ->
    v = (cls_code NA tp atoms * N.of_nat K + N.of_nat ab)%N /\ length atoms = S k /\ in_range NA atoms /\ ab < K.
  Proof.
    unfold elem_writes. intros H. apply in_flat_map in H. destruct H as ([a c] & Hit & Hw).
    apply elem_items_spec in Hit. destruct Hit as (p & suf & ab0 & Hp & Hlen & Hr & Hab & -> & ->).
    cbn [fst snd] in Hw. change (p :: suf ++ [ab0]) with ((p :: suf) ++ [ab0]) in Hw. rewrite split_last_snoc in Hw.
    apply in_map_iff in Hw. destruct Hw as (tau & E & Htau). apply in_seq in Htau. injection E as <- <- <-.
    assert (Hpr : p < NA).
    { unfold indep_t, indep_atoms in Hp. apply filter_In in Hp. destruct Hp as [Hp _]. apply in_seq in Hp. lia. }
    assert (Hrange : in_range NA (p :: suf)) by (constructor; assumption).
    change (act tp tau p :: shift (act tp) tau suf) with (shift (act tp) tau (p :: suf)).
    repeat split.
    - rewrite (cls_code_shift NA tp Hv) by (try discriminate; try assumption; lia). reflexivity.
    - unfold shift. rewrite map_length. cbn [length]. lia.
    - apply (shift_range_t NA tp Hv); [lia | exact Hrange].
    - exact Hab.
  Qed.

  (** ... and every in-range (atoms, component) is written *)
  Theorem elem_writes_complete k atoms ab : length atoms = S k -> in_range NA atoms -> ab < K ->
    exists v, In ((atoms, ab), v) (elem_writes k).
  Proof.
    intros Hlen Ha Hab.
    destruct (atomic_writes_complete NA tp Hv k atoms Hlen Ha) as [v0 Hin].
    unfold atomic_writes in Hin. apply in_flat_map in Hin. destruct Hin as ([a c] & Hit & Hw).
    apply in_map_iff in Hw. destruct Hw as (tau & E & Htau). cbn [fst snd] in E. injection E as Ea Ec.
    apply (atomic_items_spec NA k _ (indep_t_nodup NA tp)) in Hit. destruct Hit as (p & suf & Hp & Hlen' & Hr & -> & ->).
    exists (cls_code NA tp (p :: suf) * N.of_nat K + N.of_nat ab)%N.
    unfold elem_writes. apply in_flat_map. exists (p :: suf ++ [ab], (cls_code NA tp (p :: suf) * N.of_nat K + N.of_nat ab)%N). split.
    - apply elem_items_spec. exists p, suf, ab. repeat split; auto.
    - cbn [fst snd]. change (p :: suf ++ [ab]) with ((p :: suf) ++ [ab]). rewrite split_last_snoc.
      apply in_map_iff. exists tau. split; [rewrite Ea; reflexivity | exact Htau].
  Qed.
End ElemTable.
