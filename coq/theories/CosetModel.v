(** Executable model of the compressed coset sum built by get_compr_coset_projector_On (without c_pt), for
    operations whose Cartesian rotation L r L^-1 is an integer matrix (triclinic, monoclinic, orthorhombic,
    tetragonal, cubic cells in axis-aligned settings).  Output: (row, column, numerator) triples; the
    matrix is their sum divided by the number of distinct rotations.  Used by the C02 correspondence. *)
From Coq Require Import List Arith NArith ZArith Bool.
Import ListNotations.
From SymfcV Require Import Tuples Group Concrete Cutoff SumRule Pipeline.
Local Open Scope nat_scope.

Definition rot_entry (R : list (list Z)) (cs' cs : list nat) : Z :=
  fold_left Z.mul (map (fun cc => nth (snd cc) (nth (fst cc) R []) 0%Z) (combine cs' cs)) 1%Z.

Definition coset_triples (n N : nat) (tp : table) (nr : option near) (ops : list (list nat * list (list Z))) : list (list Z) :=
  let carts := all_lists n [0; 1; 2] in
  let p3 := N.of_nat (3 ^ n) in
  flat_map (fun op =>
    let sigma := fst op in
    let R := snd op in
    flat_map (fun a =>
      if existsb (Nat.eqb (hd 0 a)) (indep_t N tp) && match nr with None => true | Some r => atoms_mutually_near r a end then
        let col0 := cls_code N tp a in
        let row0 := cls_code N tp (map (fun i => nth i sigma 0) a) in
        flat_map (fun cs =>
          flat_map (fun cs' =>
            let v := rot_entry R cs' cs in
            if Z.eqb v 0 then []
            else [[Z.of_N (row0 * p3 + ravel_acc 3 0 cs')%N; Z.of_N (col0 * p3 + ravel_acc 3 0 cs)%N; v]]) carts) carts
      else []) (all_tuples n N)) ops.

(** accumulate the triples into a sparse matrix and compare with expected non-zero entries (numerators) *)
From Coq Require Import PArith FMapPositive.
Definition key_of (size : N) (r c : Z) : positive := N.succ_pos (Z.to_N r * size + Z.to_N c)%N.

Definition accumulate (size : N) (triples : list (list Z)) : PositiveMap.t Z :=
  fold_left (fun m t => match t with
                        | [r; c; v] => let k := key_of size r c in
                                       PositiveMap.add k (v + match PositiveMap.find k m with Some x => x | None => 0 end)%Z m
                        | _ => m
                        end) triples (PositiveMap.empty Z).

Definition coset_check (n N : nat) (tp : table) (nr : option near) (ops : list (list nat * list (list Z)))
           (size : BinNums.N) (expected : list (list Z)) : bool :=
  let m := accumulate size (coset_triples n N tp nr ops) in
  forallb (fun t => match t with
                    | [r; c; v] => match PositiveMap.find (key_of size r c) m with Some x => Z.eqb x v | None => false end
                    | _ => false
                    end) expected
  && Nat.eqb (length (filter (fun kv => negb (Z.eqb (snd kv) 0)) (PositiveMap.elements m))) (length expected).
