(** From coefficients to force constants (C06, C05): the property speaks about "all admissible force constants", the solver
    about coefficient vectors.  With E the expansion (compression matrix @ basis set, the map C04 says is onto the admissible
    space), D the design on full tensors (forces = D phi) and X = D o E the matrix the solver accumulates:

    - [fit_minimises_over_admissible]: c solves the normal equations of X  <->  E c is admissible and its residual is minimal
      among ALL admissible tensors;
    - [fitted_forces_unique]: two solutions of the normal equations (data that do not determine the fit) predict the same
      forces, hence have the same residual: whichever one a solver returns is a minimiser with the same cost;
    - [admissible_minimiser_unique]: when X is injective (the snapshots determine the fit) the minimising ADMISSIBLE TENSOR is
      unique, whatever coefficients describe it;
    - [exact_data_recovered]: if the forces are produced exactly by an admissible tensor phi0 and X is injective, every solution of
      the normal equations expands to phi0 (C05). *)
From Coq Require Import Reals Lra.
From SymfcV Require Import IPS.
Open Scope R_scope.

Section Admissible.
  Variables C F O : IPS.            (* coefficients, full force-constant tensors, observed forces *)
  Variable E : C -> F.
  Variable D : F -> O.
  Variable Adm : F -> Prop.
  Hypothesis E_add : forall c d, E (vadd c d) = vadd (E c) (E d).
  Hypothesis E_scale : forall a c, E (vscale a c) = vscale a (E c).
  Hypothesis D_add : forall p q, D (vadd p q) = vadd (D p) (D q).
  Hypothesis D_scale : forall a p, D (vscale a p) = vscale a (D p).
  Hypothesis span : forall phi, Adm phi <-> exists c, phi = E c.          (* C04 *)
  Variable y : O.

  Definition Xd (c : C) : O := D (E c).
  Definition fcost (phi : F) : R := ip (vsub y (D phi)) (vsub y (D phi)).

  Lemma Xd_add c d : Xd (vadd c d) = vadd (Xd c) (Xd d).
  Proof. unfold Xd. rewrite E_add, D_add. reflexivity. Qed.
  Lemma Xd_scale a c : Xd (vscale a c) = vscale a (Xd c).
  Proof. unfold Xd. rewrite E_scale, D_scale. reflexivity. Qed.

  Lemma cost_is_fcost c : cost C O Xd y c = fcost (E c).
  Proof. reflexivity. Qed.

  Theorem fit_minimises_over_admissible c :
    normal_eq C O Xd y c <-> (Adm (E c) /\ forall phi, Adm phi -> fcost (E c) <= fcost phi).
  Proof.
    rewrite (normal_eq_iff_minimiser C O Xd Xd_add Xd_scale y c). split.
    - intros Hm. split; [apply span; exists c; reflexivity|].
      intros phi Hphi. apply span in Hphi. destruct Hphi as [c' ->]. rewrite <- !cost_is_fcost. apply Hm.
    - intros [_ Hm] c'. rewrite !cost_is_fcost. apply Hm. apply span. exists c'. reflexivity.
  Qed.

  Theorem fitted_forces_unique c c' : normal_eq C O Xd y c -> normal_eq C O Xd y c' -> Xd c = Xd c' /\ fcost (E c) = fcost (E c').
  Proof.
    intros Hn Hn'.
    assert (Hd : Xd (vsub c c') = vzero).
    { apply ip_def.
      assert (Er : resid C O Xd y c' = vadd (resid C O Xd y c) (Xd (vsub c c'))).
      { unfold resid, vsub. rewrite Xd_add, Xd_scale.
        rewrite vadd_assoc. f_equal. rewrite <- vadd_assoc. rewrite (vadd_comm (vscale (-1) (Xd c)) (Xd c)), vadd_neg.
        rewrite vadd_comm, vadd_zero. reflexivity. }
      pose proof (Hn' (vsub c c')) as H1. rewrite Er in H1. rewrite ip_add_r in H1. rewrite (Hn (vsub c c')) in H1. lra. }
    assert (Heq : Xd c = Xd c').
    { apply vsub_zero_eq. unfold vsub in *. rewrite Xd_add, Xd_scale in Hd. exact Hd. }
    split; [exact Heq|]. rewrite <- !cost_is_fcost. unfold cost, resid. rewrite Heq. reflexivity.
  Qed.

  Hypothesis X_inj : forall d, Xd d = vzero -> d = vzero.

  Theorem admissible_minimiser_unique c phi :
    normal_eq C O Xd y c -> Adm phi -> (forall psi, Adm psi -> fcost phi <= fcost psi) -> phi = E c.
  Proof.
    intros Hn Hphi Hmin. pose proof Hphi as Hphi'. apply span in Hphi'. destruct Hphi' as [c' ->].
    f_equal. apply (minimiser_unique C O Xd Xd_add Xd_scale y c' c X_inj); [|exact Hn].
    apply fit_minimises_over_admissible. split; assumption.
  Qed.

  Theorem exact_data_recovered phi0 c : Adm phi0 -> y = D phi0 -> normal_eq C O Xd y c -> E c = phi0.
  Proof.
    intros Hadm Hy Hn. symmetry. apply (admissible_minimiser_unique c phi0 Hn Hadm).
    intros psi _. unfold fcost at 1. rewrite Hy.
    assert (Z : vsub (D phi0) (D phi0) = vzero) by (unfold vsub; apply vadd_neg).
    rewrite Z, ip_zero_l. apply ip_pos.
  Qed.
End Admissible.

(** Non-vacuity on R: E c = 2c onto Adm = everything, D phi = 3 phi, y = 12: the normal equations hold exactly at c = 2 and
    the admissible minimiser is phi = 4. *)
From SymfcV Require Import IPSInst.
Definition E_ex (c : R) : R := 2 * c.
Definition D_ex (p : R) : R := 3 * p.
Example admissible_instance :
  (forall phi : R, True <-> exists c : R, phi = E_ex c) /\
  normal_eq R_IPS R_IPS (fun c : R_IPS => D_ex (E_ex c) : R_IPS) (12 : R) (2 : R) /\ E_ex 2 = 4.
Proof.
  split; [|split].
  - intro phi. split; [intros _; exists (phi / 2); unfold E_ex; field | trivial].
  - intro d. unfold resid, vsub, E_ex, D_ex. cbn. change (V R_IPS) with R in *. ring.
  - unfold E_ex. ring.
Qed.
