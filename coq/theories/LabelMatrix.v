(** A matrix built from a labelling of its rows -- entry (e, c) = 1/sqrt(#{e' : label e' = c}) when label e = c,
    0 otherwise (this is how c_pt is built from the orbit labels and C_trans from the translation classes) --
    has orthonormal columns.  For every finite row set, every labelling (None = eliminated row). *)
From Coq Require Import List Arith Reals Lra Lia Bool.
Import ListNotations.
Open Scope R_scope.

Section LabelMatrix.
  Variable A : Type.
  Variable lab : A -> option nat.

  Definition has (c : nat) (e : A) : bool := match lab e with Some c' => Nat.eqb c' c | None => false end.
  Definition count (E : list A) (c : nat) : nat := length (filter (has c) E).
  Definition entry (E : list A) (e : A) (c : nat) : R := if has c e then / sqrt (INR (count E c)) else 0.

  Fixpoint rsuml (f : A -> R) (l : list A) : R := match l with [] => 0 | x :: l' => f x + rsuml f l' end.

  Lemma rsuml_indicator (c : nat) (x : R) l : rsuml (fun e => if has c e then x else 0) l = INR (count l c) * x.
  Proof.
    unfold count. induction l as [|e l IH]; cbn [rsuml filter]; [cbn; lra|].
    destruct (has c e); cbn [length]; rewrite IH; [rewrite S_INR|]; lra.
  Qed.

  Lemma has_two c c' e : c <> c' -> has c e && has c' e = false.
  Proof.
    intros Hne. unfold has. destruct (lab e) as [k|]; [|reflexivity].
    destruct (Nat.eqb_spec k c) as [->|]; [|reflexivity]. destruct (Nat.eqb_spec c c'); [contradiction | reflexivity].
  Qed.

  Theorem columns_orthogonal E c c' : c <> c' -> rsuml (fun e => entry E e c * entry E e c') E = 0.
  Proof.
    intros Hne. unfold entry. generalize (count E c), (count E c'). intros n n'.
    induction E as [|e l IH]; cbn [rsuml]; [reflexivity|]. rewrite IH. pose proof (has_two c c' e Hne) as H2.
    destruct (has c e), (has c' e); cbn in H2; try discriminate; lra.
  Qed.

  Theorem column_unit_norm E c : (0 < count E c)%nat -> rsuml (fun e => entry E e c * entry E e c) E = 1.
  Proof.
    intros Hpos. unfold entry. set (n := count E c) in *.
    transitivity (rsuml (fun e => if has c e then / sqrt (INR n) * / sqrt (INR n) else 0) E).
    - clear Hpos. generalize n. intros m. induction E as [|e l IH]; cbn [rsuml]; [reflexivity|]. rewrite IH. destruct (has c e); lra.
    - rewrite rsuml_indicator. fold n.
      assert (Hn : 0 < INR n) by (apply lt_0_INR; exact Hpos).
      rewrite <- Rinv_mult. rewrite sqrt_sqrt by lra. apply Rinv_r. lra.
  Qed.

  (** the constant-entry form used for C_trans: when every fibre has the same size n, entries 1/sqrt(n) *)
  Definition entry_const (n : nat) (e : A) (c : nat) : R := if has c e then / sqrt (INR n) else 0.

  Theorem uniform_columns_unit E n c : count E c = n -> (0 < n)%nat -> rsuml (fun e => entry_const n e c * entry_const n e c) E = 1.
  Proof.
    intros Hc Hn. rewrite <- (column_unit_norm E c) by (rewrite Hc; exact Hn).
    unfold entry_const, entry. rewrite Hc. reflexivity.
  Qed.

  Theorem uniform_columns_orthogonal E n c c' : c <> c' -> rsuml (fun e => entry_const n e c * entry_const n e c') E = 0.
  Proof.
    intros Hne. unfold entry_const.
    induction E as [|e l IH]; cbn [rsuml]; [reflexivity|]. rewrite IH. pose proof (has_two c c' e Hne) as H2.
    destruct (has c e), (has c' e); cbn in H2; try discriminate; lra.
  Qed.
End LabelMatrix.
