(** Executable trace of the Api.v state machine, flattened to integers for the correspondence
    harness (harness/apihist.py).  No theorems here. *)
From Coq Require Import ZArith List Bool.
Import ListNotations.
From SymfcV Require Import PyPrelude Api.
Open Scope Z_scope.

Definition exn_code (e : exn) : Z :=
  match e with
  | RuntimeError => 1 | NotImplementedError => 2 | ValueError => 3 | KeyError => 4 | TypeError => 5 | OtherError => 6
  end.

Definition res_code (r : result unit) : Z := match r with Ok _ => 0 | Err e => exn_code e end.

Definition flat_fc (v : fcval) : list Z :=
  match v with
  | FC k o c bids did fid =>
      [k; Z.of_nat (length o)] ++ o ++ [if c then 1 else 0; Z.of_nat (length bids)]
      ++ map Z.of_nat bids ++ [Z.of_nat did; Z.of_nat fid]
  end.

Definition flat_state (st : state) : list Z :=
  [Z.of_nat (length (s_fc st))] ++ concat (map (fun kv => fst kv :: flat_fc (snd kv)) (s_fc st))
  ++ [Z.of_nat (length (s_basis st))] ++ concat (map (fun kb => [fst kb; Z.of_nat (snd kb)]) (s_basis st)).

Fixpoint trace (natom : Z) (st : state) (h : list op) : list (list Z) :=
  match h with
  | [] => []
  | p :: h' =>
      let '(st', r) := step natom (fun k => Z.to_nat k) st p in
      (res_code r :: flat_state st') :: trace natom st' h'
  end.
