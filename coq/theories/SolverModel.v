(** Solver model.

    A dataset is a list of snapshots; snapshot s contributes a linear design map [Xs s : C -> O]
    (coefficients to the forces of that snapshot) and observed forces [ys s : O].  The normal
    equations accumulated by [prepare_normal_equation_*] are the condition
        forall d,  sum_s < Xs s d , ys s - Xs s c > = 0,
    i.e. (sum_s Xs^T Xs) c = sum_s Xs^T ys.  Everything here is exact real arithmetic. *)
From Coq Require Import Reals Lra List Permutation ZArith QArith.
Import ListNotations.
From SymfcV Require Import PyPrelude IPS IPSInst Batch.
From SymfcG Require Import BatchGen SolverStruct.
Open Scope R_scope.

Fixpoint rsum (l : list R) : R := match l with [] => 0 | x :: l' => x + rsum l' end.

Lemma rsum_app l1 l2 : rsum (l1 ++ l2) = rsum l1 + rsum l2.
Proof. induction l1 as [|x l1 IH]; simpl; [lra | rewrite IH; lra]. Qed.

Lemma rsum_perm l l' : Permutation l l' -> rsum l = rsum l'.
Proof. induction 1; simpl; lra. Qed.

Lemma rsum_concat (ls : list (list R)) : rsum (concat ls) = rsum (map rsum ls).
Proof. induction ls as [|l ls IH]; simpl; [reflexivity | rewrite rsum_app, IH; reflexivity]. Qed.

Lemma rsum_map_scale {A} (f : A -> R) k l : rsum (map (fun s => k * f s) l) = k * rsum (map f l).
Proof. induction l as [|x l IH]; simpl; [lra | rewrite IH; lra]. Qed.

Lemma rsum_map_add {A} (f g : A -> R) l : rsum (map (fun s => f s + g s) l) = rsum (map f l) + rsum (map g l).
Proof. induction l as [|x l IH]; simpl; [lra | rewrite IH; lra]. Qed.

Lemma rsum_map_ext {A} (f g : A -> R) l : (forall s, In s l -> f s = g s) -> rsum (map f l) = rsum (map g l).
Proof.
  induction l as [|x l IH]; intros H; simpl; [reflexivity|].
  rewrite (H x (or_introl eq_refl)), IH; [reflexivity|]. intros s Hs. apply H. right. exact Hs.
Qed.

Section Dataset.
  Variables C O : IPS.
  Variable Snap : Type.                         (* a snapshot: displacements (and forces) *)
  Variable Xs : Snap -> C -> O.
  Hypothesis Xs_add : forall s c d, Xs s (vadd c d) = vadd (Xs s c) (Xs s d).
  Hypothesis Xs_scale : forall s a c, Xs s (vscale a c) = vscale a (Xs s c).

  (** one term of the normal equations *)
  Definition term (ys : Snap -> O) (c d : C) (s : Snap) : R := ip (Xs s d) (vsub (ys s) (Xs s c)).
  Definition normal_eqs (ds : list Snap) (ys : Snap -> O) (c : C) : Prop :=
    forall d, rsum (map (term ys c d) ds) = 0.

  (** C13: the solution set depends on the dataset as a multiset *)
  Theorem normal_eqs_permutation ds ds' ys c : Permutation ds ds' -> (normal_eqs ds ys c <-> normal_eqs ds' ys c).
  Proof.
    intros Hp. unfold normal_eqs. split; intros H d.
    - rewrite <- (rsum_perm _ _ (Permutation_map (term ys c d) Hp)). apply H.
    - rewrite (rsum_perm _ _ (Permutation_map (term ys c d) Hp)). apply H.
  Qed.

  (** C13: duplicating the whole dataset changes nothing *)
  Theorem normal_eqs_duplication ds ys c : normal_eqs (ds ++ ds) ys c <-> normal_eqs ds ys c.
  Proof.
    unfold normal_eqs. split; intros H d; specialize (H d); rewrite map_app, rsum_app in *; lra.
  Qed.

  (** C11/C06: accumulating over snapshot batches (any batch size) gives the same equations *)
  Theorem normal_eqs_batches ds ys c (b : Z) : (0 < b)%Z ->
    exists bs es, get_batch_slice (Z.of_nat (length ds)) b = Ok (bs, es) /\
      (normal_eqs ds ys c <-> forall d, rsum (map (fun batch => rsum (map (term ys c d) batch)) (batches ds bs es)) = 0).
  Proof.
    intros Hb. destruct (batches_concat ds b Hb) as [bs [es [Hg Hc]]]. exists bs, es. split; [exact Hg|].
    unfold normal_eqs. split; intros H d; specialize (H d).
    - rewrite <- Hc in H. rewrite concat_map, rsum_concat, map_map in H. exact H.
    - rewrite <- Hc. rewrite concat_map, rsum_concat, map_map. exact H.
  Qed.

  (** C13: linear in the forces *)
  Theorem normal_eqs_linear ds ys1 ys2 c1 c2 a b :
    normal_eqs ds ys1 c1 -> normal_eqs ds ys2 c2 ->
    normal_eqs ds (fun s => vadd (vscale a (ys1 s)) (vscale b (ys2 s))) (vadd (vscale a c1) (vscale b c2)).
  Proof.
    intros H1 H2 d. specialize (H1 d). specialize (H2 d).
    rewrite (rsum_map_ext _ (fun s => a * term ys1 c1 d s + b * term ys2 c2 d s)).
    - rewrite rsum_map_add, !rsum_map_scale, H1, H2. lra.
    - intros s _. unfold term. rewrite Xs_add, !Xs_scale.
      rewrite !ip_sub_r, !ip_add_r, !ip_scale_r. lra.
  Qed.

  (** C13: zero forces are fitted by zero coefficients *)
  Theorem normal_eqs_zero ds : normal_eqs ds (fun _ => vzero) vzero.
  Proof.
    intros d. rewrite (rsum_map_ext _ (fun _ => 0)).
    - induction ds; simpl; lra.
    - intros s _. unfold term.
      assert (E : Xs s vzero = vzero).
      { apply ip_ext. intro z.
        assert (H : Xs s (vadd vzero vzero) = Xs s vzero) by (rewrite vadd_zero; reflexivity).
        rewrite Xs_add in H. rewrite ip_zero_l.
        assert (H2 : ip (vadd (Xs s vzero) (Xs s vzero)) z = ip (Xs s vzero) z) by (rewrite H; reflexivity).
        rewrite ip_add_l in H2. lra. }
      rewrite E. rewrite ip_sub_r, !ip_zero_r. lra.
  Qed.

  (** C13: scaling.  If the design maps and the forces of another dataset are k times those of this one
      (k <> 0; for a single fitted order m and displacements scaled by s this is k = s^(m-1)), the
      solution set is the same. *)
  Theorem normal_eqs_scaling (Xs' : Snap -> C -> O) ds ys ys' k c :
    k <> 0 -> (forall s c0, Xs' s c0 = vscale k (Xs s c0)) -> (forall s, ys' s = vscale k (ys s)) ->
    (normal_eqs ds ys c <-> forall d, rsum (map (fun s => ip (Xs' s d) (vsub (ys' s) (Xs' s c))) ds) = 0).
  Proof.
    intros Hk HX Hy.
    assert (E : forall d, rsum (map (fun s => ip (Xs' s d) (vsub (ys' s) (Xs' s c))) ds) = (k * k) * rsum (map (term ys c d) ds)).
    { intro d. rewrite <- rsum_map_scale. apply rsum_map_ext. intros s _. unfold term.
      rewrite !HX, Hy. rewrite !ip_sub_r, !ip_scale_l, !ip_scale_r. lra. }
    unfold normal_eqs. split; intros H d.
    - rewrite E, H. lra.
    - specialize (H d). rewrite E in H.
      assert (k * k <> 0) by (apply Rmult_integral_contrapositive; split; assumption).
      destruct (Rmult_integral _ _ H); [contradiction | assumption].
  Qed.

  (** C13: a snapshot whose design map is zero (the undisplaced supercell: every row of X vanishes) can stand anywhere in the list or
      be left out, WHATEVER its forces are: the solution set is the same. *)
  Theorem normal_eqs_null_snapshot s0 ds1 ds2 ys c :
    (forall d, Xs s0 d = vzero) -> (normal_eqs (ds1 ++ s0 :: ds2) ys c <-> normal_eqs (ds1 ++ ds2) ys c).
  Proof.
    intros H0.
    assert (T : forall d, term ys c d s0 = 0) by (intro d; unfold term; rewrite H0; apply ip_zero_l).
    unfold normal_eqs. split; intros H d; specialize (H d); rewrite map_app, rsum_app in *; cbn [map rsum] in *; rewrite T in *; lra.
  Qed.
End Dataset.

(** ... whereas a snapshot whose FORCES are zero is an equation like any other (its displacements are not zero): leaving it out
    changes the solution.  One coefficient, design "multiply by the displacement", snapshots (x, y) = (1, 1) and (1, 0): the
    least-squares coefficient is 1/2 with both and 1 without the second. *)
Section ZeroForceExample.
  Definition zx (s : R * R) (c : R_IPS) : R_IPS := fst s * c.
  Definition zy (s : R * R) : R_IPS := snd s.
  Example zero_force_snapshot_matters :
    normal_eqs R_IPS R_IPS (R * R) zx [(1, 1); (1, 0)] zy (/ 2) /\
    normal_eqs R_IPS R_IPS (R * R) zx [(1, 1)] zy 1 /\
    ~ normal_eqs R_IPS R_IPS (R * R) zx [(1, 1); (1, 0)] zy 1.
  Proof.
    unfold normal_eqs, term, zx, zy, vsub. cbn. repeat split.
    - intro d. field.
    - intro d. ring.
    - intro H. specialize (H 1). lra.
  Qed.
End ZeroForceExample.

(** ** posv and solve_linear_equation *)
(** LAPACK posv is a section variable: it returns a vector and a status; the only assumption is
    info = 0 -> A x = b.  [solve_lin checked] is the model of solve_linear_equation: the translator
    reports whether the status is checked ([SolverStruct.posv_info_checked]). *)
Section Posv.
  Variable Vc : IPS.
  Variable posv : (Vc -> Vc) -> Vc -> Vc * Z.
  Hypothesis posv_spec : forall A b x, posv A b = (x, 0%Z) -> A x = b.

  Definition solve_lin (checked : bool) (A : Vc -> Vc) (b : Vc) : result Vc :=
    let '(x, info) := posv A b in
    if checked then (if Z.eqb info 0 then Ok x else Err OtherError) else Ok x.

  Theorem solve_lin_checked_sound A b x : solve_lin true A b = Ok x -> A x = b.
  Proof.
    unfold solve_lin. destruct (posv A b) as [x0 info] eqn:E.
    destruct (Z.eqb info 0) eqn:E0; [|discriminate]. intros H. inversion H; subst.
    apply Z.eqb_eq in E0. subst. apply posv_spec. exact E.
  Qed.
End Posv.

(** With the status ignored the statement is false: a solver that reports failure and leaves the
    right-hand side in place (what LAPACK does) makes solve_lin return something that does not solve
    the system.  Witness over the one-dimensional space R. *)
Definition R_ips : IPS.
Proof.
  refine {| V := R; vadd := Rplus; vscale := Rmult; vzero := 0; ip := Rmult |}; intros; try lra.
  - nra.
  - nra.
Defined.

Theorem solve_lin_unchecked_refuted :
  exists (posv : (R_ips -> R_ips) -> R_ips -> R_ips * Z),
    (forall A b x, posv A b = (x, 0%Z) -> A x = b) /\
    exists A b x, solve_lin R_ips posv false A b = Ok x /\ A x <> b.
Proof.
  exists (fun A b => (b, 1%Z)). split.
  - intros A b x H. inversion H.
  - exists (fun _ => 0), 1, 1. split; [reflexivity|]. simpl. lra.
Qed.

(** ** Taylor constants of every solver file: -1/(m-1)! *)
Definition taylor_ref (m : Z) : Q :=
  match m with 2%Z => (-1 # 1) | 3%Z => (-1 # 2) | 4%Z => (-1 # 6) | _ => 0 end%Q.
Definition taylor_ok : bool := forallb (fun mq => Qeq_bool (snd mq) (taylor_ref (fst mq))) taylor_consts.
Lemma taylor_consts_ok : taylor_ok = true.
Proof. vm_compute. reflexivity. Qed.
