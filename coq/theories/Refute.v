(** Regression about the representative choice that the source used before the C01 repair: with the FIRST
    entry of a row as representative (and numpy's sequential "last write wins"), the weakly connected
    components of the pointer graph are NOT invariant under position permutations: a concrete order-4
    instance on the translation group Z2 x Z2 (4 atoms) splits an S4 x T orbit into two components.

    The proof is by a certified boolean checker: a labelling of the nodes that is constant along every
    pointer edge separates the two elements, hence they are not connected. *)
From Coq Require Import List Arith Lia Bool PArith ZArith FMapPositive Relations.
Import ListNotations.
From SymfcV Require Import PyPrelude Tuples PermModel PermExec Concrete Cutoff Pipeline.
From SymfcG Require Import Tables.
Local Open Scope nat_scope.

Definition edge (m : PositiveMap.t positive) (e r : positive) : Prop := PositiveMap.find e m = Some r.
(** weak connectivity of the pointer graph (what scipy's connected_components computes) *)
Definition connected (m : PositiveMap.t positive) : positive -> positive -> Prop := clos_refl_sym_trans positive (edge m).

Definition getl (L : PositiveMap.t positive) (e : positive) : positive :=
  match PositiveMap.find e L with Some l => l | None => e end.

Definition relax (edges : list (positive * positive)) (L : PositiveMap.t positive) : PositiveMap.t positive :=
  fold_left (fun L0 er => let m := Pos.min (getl L0 (fst er)) (getl L0 (snd er)) in
                          PositiveMap.add (fst er) m (PositiveMap.add (snd er) m L0)) edges L.

Fixpoint iterate (k : nat) (edges : list (positive * positive)) (L : PositiveMap.t positive) : PositiveMap.t positive :=
  match k with 0 => L | S k' => iterate k' edges (relax edges L) end.

Definition stable (edges : list (positive * positive)) (L : PositiveMap.t positive) : bool :=
  forallb (fun er => Pos.eqb (getl L (fst er)) (getl L (snd er))) edges.

(** checker: some labelling, constant along all edges, separates e1 and e2 *)
Definition separated_b (k : nat) (m : PositiveMap.t positive) (e1 e2 : positive) : bool :=
  let edges := PositiveMap.elements m in
  let L := iterate k edges (PositiveMap.empty positive) in
  stable edges L && negb (Pos.eqb (getl L e1) (getl L e2)).

Lemma separated_sound k m e1 e2 : separated_b k m e1 e2 = true -> ~ connected m e1 e2.
Proof.
  unfold separated_b. set (edges := PositiveMap.elements m). set (L := iterate k edges (PositiveMap.empty positive)).
  intros H. apply andb_true_iff in H. destruct H as [Hst Hne].
  apply negb_true_iff in Hne. apply Pos.eqb_neq in Hne.
  assert (Hinv : forall e r, edge m e r -> getl L e = getl L r).
  { intros e r He. unfold edge in He. apply PositiveMap.elements_correct in He.
    unfold stable in Hst. rewrite forallb_forall in Hst. specialize (Hst (e, r) He). apply Pos.eqb_eq in Hst. exact Hst. }
  intros Hc. apply Hne. clear Hne Hst.
  induction Hc as [x y Hxy| x | x y _ IH | x y z _ IH1 _ IH2].
  - apply Hinv. exact Hxy.
  - reflexivity.
  - symmetry. exact IH.
  - congruence.
Qed.

(** generic wrapper: a successful write sequence whose pointer graph separates e1 and e2 *)
Definition check_sep (k : nat) (r : result writes) (e1 e2 : positive) : bool :=
  match r with Ok W => separated_b k (ptr_of W) e1 e2 | Err _ => false end.

Lemma check_sep_sound k r e1 e2 : check_sep k r e1 e2 = true -> exists W, r = Ok W /\ ~ connected (ptr_of W) e1 e2.
Proof.
  destruct r as [W|e]; simpl; [|discriminate]. intros H. exists W. split; [reflexivity|]. apply (separated_sound k). exact H.
Qed.

(** the instance: Z2 x Z2 acting on 4 atoms, order 4, no cutoff, one batch per block *)
Definition tp_z2z2 : table := [[0; 1; 2; 3]; [1; 0; 3; 2]; [2; 3; 0; 1]; [3; 2; 1; 0]]%nat.
Definition witness_tuple : tuple := [0; 3; 6; 10]%nat.
Definition witness_perm : list nat := [1; 0; 2; 3]%nat.
Definition witness_writes (r : rep) : result writes :=
  all_writes (elem_tab 4 tp_z2z2) r (perm_input 4 tp_z2z2 None blocks_O4 [1; 1; 1; 1]%Z).
Definition witness_e1 : positive := elem_tab 4 tp_z2z2 witness_tuple.
Definition witness_e2 : positive := elem_tab 4 tp_z2z2 (permute witness_perm witness_tuple).

Lemma first_rep_splits_true : check_sep 40 (witness_writes RepFirst) witness_e1 witness_e2 = true.
Proof. vm_compute. reflexivity. Qed.

(** with the row minimum the two elements of the same instance get the same pointer *)
Definition same_pointer (r : result writes) (e1 e2 : positive) : bool :=
  match r with
  | Err _ => false
  | Ok W => match PositiveMap.find e1 (ptr_of W), PositiveMap.find e2 (ptr_of W) with
            | Some a, Some b => Pos.eqb a b
            | _, _ => false
            end
  end.
Lemma rowmin_same_pointer : same_pointer (witness_writes RepRowMin) witness_e1 witness_e2 = true.
Proof. vm_compute. reflexivity. Qed.

Lemma valid_z2z2 : valid_tp 4 tp_z2z2 = true.
Proof. vm_compute. reflexivity. Qed.

Theorem first_rep_splits_orbits :
  valid_tp 4 tp_z2z2 = true /\
  exists W, witness_writes RepFirst = Ok W /\ ~ connected (ptr_of W) witness_e1 witness_e2.
Proof. split; [exact valid_z2z2 | exact (check_sep_sound 40 _ _ _ first_rep_splits_true)]. Qed.
