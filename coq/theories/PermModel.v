(** Model of [compr_permutation_lat_trans_On] / [_update_perm_decompr_indices] /
    [construct_basis_from_perm_decompr_indices]: pointer updates over arrangement rows and the resulting
    labelling of lattice-translation classes ("elements").

    The section is generic in the order [n], the translation action on indices [tshift], the class
    map [elem] (specified by: two in-range tuples have the same element iff a translation maps one to
    the other) and the arrangement tables [blocks]; the decidable table facts it needs are hypotheses
    that are discharged by computation on the tables regenerated from the source (TableFacts.v). *)
From Coq Require Import List Arith Lia Permutation Bool PArith FMapPositive ZArith.
Import ListNotations.
From SymfcV Require Import PyPrelude Tuples Batch.
From SymfcG Require Import BatchGen.
Local Open Scope nat_scope.

(** Minimum of a non-empty list of positives. *)
Definition minl (l : list positive) : positive := fold_right Pos.min (hd 1%positive l) l.

Lemma minl_le l x : In x l -> (minl l <= x)%positive.
Proof.
  unfold minl. generalize (hd 1%positive l) as d. induction l as [|y l IH]; intros d H; [destruct H|].
  simpl. destruct H as [->|H].
  - apply Pos.le_min_l.
  - specialize (IH d H). eapply Pos.le_trans; [apply Pos.le_min_r | exact IH].
Qed.

Lemma fold_min_in d l : fold_right Pos.min d l = d \/ In (fold_right Pos.min d l) l.
Proof.
  induction l as [|y l IH]; simpl; [auto|].
  destruct (Pos.min_spec y (fold_right Pos.min d l)) as [[_ E]|[_ E]]; rewrite E; [auto|].
  destruct IH as [IH|IH]; auto.
Qed.

Lemma minl_in l : l <> [] -> In (minl l) l.
Proof.
  destruct l as [|y l]; [congruence|]. intros _. unfold minl. cbn [hd].
  destruct (fold_min_in y (y :: l)) as [E|H]; [rewrite E; left; reflexivity | exact H].
Qed.

Lemma minl_ext l l' : l <> [] -> l' <> [] -> (forall x, In x l <-> In x l') -> minl l = minl l'.
Proof.
  intros Hl Hl' H. apply Pos.le_antisym.
  - apply minl_le. apply H. apply minl_in. exact Hl'.
  - apply minl_le. apply H. apply minl_in. exact Hl.
Qed.

(** Pointer map = last write per key. *)
Definition writes := list (positive * positive).
Definition ptr_of (W : writes) : PositiveMap.t positive :=
  fold_left (fun m w => PositiveMap.add (fst w) (snd w) m) W (PositiveMap.empty positive).

Lemma ptr_of_spec_gen (m : positive -> positive) (W : writes) : forall M0,
  (forall e v, In (e, v) W -> v = m e) ->
  forall e,
  PositiveMap.find e (fold_left (fun M w => PositiveMap.add (fst w) (snd w) M) W M0) =
  if existsb (fun w => Pos.eqb (fst w) e) W then Some (m e) else PositiveMap.find e M0.
Proof.
  induction W as [|[e0 v0] W IH]; intros M0 H e; simpl; [reflexivity|].
  rewrite IH by (intros e' v' Hin; apply H; right; exact Hin).
  destruct (existsb (fun w => Pos.eqb (fst w) e) W) eqn:E.
  - rewrite orb_true_r. reflexivity.
  - rewrite orb_false_r. destruct (Pos.eqb e0 e) eqn:E2.
    + apply Pos.eqb_eq in E2. subst e0. rewrite PositiveMap.gss. f_equal. apply H. left. reflexivity.
    + apply Pos.eqb_neq in E2. rewrite PositiveMap.gso by congruence. reflexivity.
Qed.

Lemma ptr_of_spec (m : positive -> positive) (W : writes) :
  (forall e v, In (e, v) W -> v = m e) ->
  forall e, PositiveMap.find e (ptr_of W) =
            if existsb (fun w => Pos.eqb (fst w) e) W then Some (m e) else None.
Proof.
  intros H e. unfold ptr_of. rewrite (ptr_of_spec_gen m W _ H e). rewrite PositiveMap.gempty. reflexivity.
Qed.

Lemma existsb_key_iff (W : writes) e :
  existsb (fun w => Pos.eqb (fst w) e) W = true <-> exists v, In (e, v) W.
Proof.
  rewrite existsb_exists. split.
  - intros [[e' v] [Hin He]]. simpl in He. apply Pos.eqb_eq in He. subst. eauto.
  - intros [v Hin]. exists (e, v). split; [exact Hin | simpl; apply Pos.eqb_refl].
Qed.

Section Perm.
  Variable n : nat.                       (* tensor order *)
  Variable bound : nat.                   (* 3 * number of atoms: indices are < bound *)
  Variable nlp : nat.                     (* number of lattice translations *)
  Variable tshift : nat -> nat -> nat.    (* translation tau acting on an index *)
  Variable elem : tuple -> positive.      (* lattice-translation class of a tuple, plus one *)
  Variable bc : list (block * list (list nat)).   (* each block with its list of combinations *)
  Let blocks : list block := map fst bc.

  Definition wf (t : tuple) : Prop := length t = n /\ Forall (fun p => p < bound) t.
  Definition tmap (tau : nat) (t : tuple) : tuple := map (tshift tau) t.

  Hypothesis tshift_lt : forall tau p, tau < nlp -> p < bound -> tshift tau p < bound.
  Hypothesis elem_inv : forall tau t, tau < nlp -> wf t -> elem (tmap tau t) = elem t.
  Hypothesis elem_complete : forall t t', wf t -> wf t' -> elem t = elem t' -> exists tau, tau < nlp /\ tmap tau t = t'.

  (** Decidable facts about the order and the tables (instantiated by computation). *)
  Hypothesis perms_range : forall pi, In pi (all_perms n) -> Forall (fun s => s < n) pi.
  Hypothesis perms_inverse : forall pi, In pi (all_perms n) -> exists pi', In pi' (all_perms n) /\ permute pi' pi = seq 0 n.
  Hypothesis T0 : forall b g a, In b blocks -> In g (groups b) -> In a g -> length a = n /\ Forall (fun s => s < bk_k b) a.
  Hypothesis T1 : forall b g pi a, In b blocks -> In g (groups b) -> In pi (all_perms n) -> In a g -> In (permute pi a) g.
  Hypothesis T2 : forall b g a a', In b blocks -> In g (groups b) -> In a g -> In a' g ->
                  exists pi, In pi (all_perms n) /\ a' = permute pi a.

  (** Combinations: for every block an arbitrary list of in-range combinations of the right width
      (for C01 nothing more is needed: which combinations are listed only matters for completeness). *)
  Hypothesis combos_wf : forall b cs c, In (b, cs) bc -> In c cs -> length c = bk_k b /\ Forall (fun p => p < bound) c.

  Definition row_elems (c : list nat) (g : list (list nat)) : list positive := map (fun a => elem (apply_arr c a)) g.

  (** A row = one combination with one arrangement group of its block. *)
  Definition is_row (c : list nat) (g : list (list nat)) : Prop :=
    exists b cs, In (b, cs) bc /\ In c cs /\ In g (groups b).

  Lemma in_blocks b cs : In (b, cs) bc -> In b blocks.
  Proof. intros H. unfold blocks. apply in_map_iff. exists (b, cs). auto. Qed.

  Lemma apply_arr_wf b cs c g a : In (b, cs) bc -> In c cs -> In g (groups b) -> In a g -> wf (apply_arr c a).
  Proof.
    intros Hbc Hc Hg Ha. pose proof (in_blocks b cs Hbc) as Hb.
    destruct (T0 b g a Hb Hg Ha) as [Hl Hr]. destruct (combos_wf b cs c Hbc Hc) as [Hcl Hcr].
    split.
    - unfold apply_arr. rewrite map_length. exact Hl.
    - unfold apply_arr. apply Forall_forall. intros p Hp. apply in_map_iff in Hp. destruct Hp as [s [<- Hs]].
      rewrite Forall_forall in Hr, Hcr. apply Hcr. apply nth_In. rewrite Hcl. apply Hr. exact Hs.
  Qed.

  Lemma tmap_wf tau t : tau < nlp -> wf t -> wf (tmap tau t).
  Proof.
    intros Ht [Hl Hr]. split.
    - unfold tmap. rewrite map_length. exact Hl.
    - unfold tmap. apply Forall_forall. intros p Hp. apply in_map_iff in Hp. destruct Hp as [q [<- Hq]].
      rewrite Forall_forall in Hr. apply tshift_lt; auto.
  Qed.

  Lemma permute_wf pi t : In pi (all_perms n) -> wf t -> wf (permute pi t).
  Proof.
    intros Hpi [Hl Hr]. pose proof (perms_range pi Hpi) as Hpr. split.
    - rewrite permute_length. apply all_perms_length. exact Hpi.
    - unfold permute. apply Forall_forall. intros p Hp. apply in_map_iff in Hp. destruct Hp as [s [<- Hs]].
      rewrite Forall_forall in Hr, Hpr. apply Hr. apply nth_In. rewrite Hl. apply Hpr. exact Hs.
  Qed.

  Lemma permute_tmap pi tau t : In pi (all_perms n) -> wf t -> permute pi (tmap tau t) = tmap tau (permute pi t).
  Proof.
    intros Hpi [Hl _]. unfold tmap. apply permute_map. right.
    rewrite Hl. apply perms_range. exact Hpi.
  Qed.

  Lemma permute_arr pi c a b g : In b blocks -> In g (groups b) -> In a g -> In pi (all_perms n) ->
    permute pi (apply_arr c a) = apply_arr c (permute pi a).
  Proof.
    intros Hb Hg Ha Hpi. apply permute_apply_arr. destruct (T0 b g a Hb Hg Ha) as [Hl _]. rewrite Hl.
    apply perms_range. exact Hpi.
  Qed.

  (** L1: a row is closed under position permutations. *)
  Lemma row_closed c g a pi : is_row c g -> In a g -> In pi (all_perms n) ->
    In (elem (permute pi (apply_arr c a))) (row_elems c g).
  Proof.
    intros [b [cs [Hbc [Hc Hg]]]] Ha Hpi. pose proof (in_blocks b cs Hbc) as Hb. rewrite (permute_arr pi c a b g Hb Hg Ha Hpi).
    unfold row_elems. apply in_map with (f := fun a0 => elem (apply_arr c a0)). apply (T1 b g pi a Hb Hg Hpi Ha).
  Qed.

  (** L2: two rows that share an element have the same elements. *)
  Lemma rows_coherent_incl c g c' g' e : is_row c g -> is_row c' g' ->
    In e (row_elems c g) -> In e (row_elems c' g') ->
    forall x, In x (row_elems c g) -> In x (row_elems c' g').
  Proof.
    intros Hr Hr' He He' x Hx.
    pose proof Hr as [b [cs [Hbc [Hc Hg]]]]. pose proof Hr' as [b' [cs' [Hbc' [Hc' Hg']]]].
    pose proof (in_blocks b cs Hbc) as Hb. pose proof (in_blocks b' cs' Hbc') as Hb'.
    unfold row_elems in He, He', Hx.
    apply in_map_iff in He. destruct He as [a [Ea Ha]].
    apply in_map_iff in He'. destruct He' as [a' [Ea' Ha']].
    apply in_map_iff in Hx. destruct Hx as [a2 [<- Ha2]].
    assert (Hw : wf (apply_arr c a)) by (apply (apply_arr_wf b cs c g a Hbc Hc Hg Ha)).
    assert (Hw' : wf (apply_arr c' a')) by (apply (apply_arr_wf b' cs' c' g' a' Hbc' Hc' Hg' Ha')).
    destruct (elem_complete _ _ Hw Hw' ltac:(congruence)) as [tau [Htau Et]].
    destruct (T2 b g a a2 Hb Hg Ha Ha2) as [pi [Hpi ->]].
    rewrite <- (permute_arr pi c a b g Hb Hg Ha Hpi).
    rewrite <- (elem_inv tau _ Htau (permute_wf pi _ Hpi Hw)).
    rewrite <- (permute_tmap pi tau _ Hpi Hw). rewrite Et.
    apply row_closed; assumption.
  Qed.

  Lemma row_elems_nonempty c g x : In x (row_elems c g) -> row_elems c g <> [].
  Proof. intros H E. rewrite E in H. destruct H. Qed.

  (** L3: the row minimum is a function of the element. *)
  Lemma rowmin_welldefined c g c' g' e : is_row c g -> is_row c' g' ->
    In e (row_elems c g) -> In e (row_elems c' g') -> minl (row_elems c g) = minl (row_elems c' g').
  Proof.
    intros Hr Hr' He He'. apply minl_ext; try (eapply row_elems_nonempty; eassumption).
    intros x. split; [apply (rows_coherent_incl c g c' g' e) | apply (rows_coherent_incl c' g' c g e)]; assumption.
  Qed.

  (** Any write list whose writes are "element of a row := minimum of that row" and that writes every
      element of every row.  The executable generator below (exact numpy order, any batching) is one. *)
  Definition writes_ok (W : writes) : Prop :=
    (forall e v, In (e, v) W -> exists c g, is_row c g /\ In e (row_elems c g) /\ v = minl (row_elems c g)) /\
    (forall c g e, is_row c g -> In e (row_elems c g) -> exists v, In (e, v) W).

  Definition in_some_row (e : positive) : Prop := exists c g, is_row c g /\ In e (row_elems c g).

  Lemma writes_ok_functional W : writes_ok W -> exists m : positive -> positive, forall e v, In (e, v) W -> v = m e.
  Proof.
    intros [Hw1 _].
    exists (fun e0 => match find (fun w => Pos.eqb (fst w) e0) W with Some w => snd w | None => 1%positive end).
    intros e0 v Hin.
    destruct (find (fun w => Pos.eqb (fst w) e0) W) as [[e1 v1]|] eqn:F.
    - apply find_some in F. destruct F as [Hin1 E1]. simpl in E1. apply Pos.eqb_eq in E1. subst e1. simpl.
      destruct (Hw1 _ _ Hin) as [c [g [Hr [He ->]]]]. destruct (Hw1 _ _ Hin1) as [c1 [g1 [Hr1 [He1 ->]]]].
      apply (rowmin_welldefined c g c1 g1 e0); assumption.
    - exfalso. apply (find_none _ _ F) in Hin. simpl in Hin. rewrite Pos.eqb_refl in Hin. discriminate.
  Qed.

  (** Specification of the final pointer, for every order of the writes. *)
  Theorem update_min_spec W e : writes_ok W ->
    forall r, PositiveMap.find e (ptr_of W) = Some r <->
              exists c g, is_row c g /\ In e (row_elems c g) /\ r = minl (row_elems c g).
  Proof.
    intros Hok r. destruct (writes_ok_functional W Hok) as [m Hm]. destruct Hok as [Hw1 Hw2].
    rewrite (ptr_of_spec m W Hm e). split.
    - destruct (existsb (fun w => Pos.eqb (fst w) e) W) eqn:Hex; [|discriminate].
      intros H. inversion H; subst r. apply existsb_key_iff in Hex. destruct Hex as [v Hin].
      destruct (Hw1 _ _ Hin) as [c [g [Hr [He Hv]]]]. exists c, g. rewrite <- (Hm e v Hin). auto.
    - intros [c [g [Hr [He ->]]]]. destruct (Hw2 c g e Hr He) as [v Hin].
      assert (Hex : existsb (fun w => Pos.eqb (fst w) e) W = true) by (apply existsb_key_iff; eauto).
      rewrite Hex. f_equal. rewrite <- (Hm e v Hin).
      destruct (Hw1 _ _ Hin) as [c1 [g1 [Hr1 [He1 ->]]]].
      apply (rowmin_welldefined c1 g1 c g e); assumption.
  Qed.

  Corollary update_min_none W e : writes_ok W ->
    PositiveMap.find e (ptr_of W) = None <-> ~ in_some_row e.
  Proof.
    intros Hok. split.
    - intros H [c [g [Hr He]]].
      assert (PositiveMap.find e (ptr_of W) = Some (minl (row_elems c g))) by (apply update_min_spec; eauto).
      congruence.
    - intros Hno. destruct (PositiveMap.find e (ptr_of W)) as [r|] eqn:F; [|reflexivity].
      apply update_min_spec in F; [|exact Hok]. destruct F as [c [g [Hr [He _]]]]. exfalso. apply Hno. exists c, g. auto.
  Qed.

  (** The pointer is idempotent: representatives point to themselves, so the weakly connected
      components of the pointer graph are exactly the fibres of the pointer. *)
  Theorem ptr_idempotent W e r : writes_ok W ->
    PositiveMap.find e (ptr_of W) = Some r -> PositiveMap.find r (ptr_of W) = Some r.
  Proof.
    intros Hok H. apply update_min_spec in H; [|exact Hok]. destruct H as [c [g [Hr [He ->]]]].
    apply update_min_spec; [exact Hok|]. exists c, g. split; [exact Hr|]. split; [|reflexivity].
    apply minl_in. eapply row_elems_nonempty. exact He.
  Qed.

  (** C01 core: the label (pointer) of an element is invariant under every position permutation of the
      tuple, including the "eliminated" case [None]. *)
  Lemma in_row_permute t pi c g : wf t -> In pi (all_perms n) -> is_row c g ->
    In (elem t) (row_elems c g) -> In (elem (permute pi t)) (row_elems c g).
  Proof.
    intros Hw Hpi Hr He. pose proof Hr as [b [cs [Hbc [Hc Hg]]]]. pose proof (in_blocks b cs Hbc) as Hb.
    unfold row_elems in He. apply in_map_iff in He. destruct He as [a [Ea Ha]].
    assert (Hwa : wf (apply_arr c a)) by (apply (apply_arr_wf b cs c g a Hbc Hc Hg Ha)).
    destruct (elem_complete _ _ Hw Hwa ltac:(congruence)) as [tau [Htau Et]].
    rewrite <- (elem_inv tau _ Htau (permute_wf pi _ Hpi Hw)).
    rewrite <- (permute_tmap pi tau _ Hpi Hw). rewrite Et. apply row_closed; assumption.
  Qed.

  Theorem label_perm_invariant W t pi : writes_ok W -> wf t -> is_perm n pi ->
    PositiveMap.find (elem (permute pi t)) (ptr_of W) = PositiveMap.find (elem t) (ptr_of W).
  Proof.
    intros Hok Hw Hp. apply all_perms_complete in Hp.
    destruct (PositiveMap.find (elem t) (ptr_of W)) as [r|] eqn:F.
    - apply update_min_spec in F; [|exact Hok]. destruct F as [c [g [Hr [He ->]]]].
      apply update_min_spec; [exact Hok|]. exists c, g. split; [exact Hr|]. split; [|reflexivity].
      apply in_row_permute; assumption.
    - apply update_min_none; [exact Hok|]. apply update_min_none in F; [|exact Hok].
      intros [c [g [Hr He]]]. apply F. exists c, g. split; [exact Hr|].
      destruct (perms_inverse pi Hp) as [pi' [Hp' Einv]].
      pose proof (in_row_permute (permute pi t) pi' c g (permute_wf pi t Hp Hw) Hp' Hr He) as H.
      rewrite permute_permute in H by (rewrite (all_perms_length n pi Hp); apply perms_range; exact Hp').
      rewrite Einv in H. destruct Hw as [Hl _]. rewrite <- Hl in H at 1. rewrite permute_id in H. exact H.
  Qed.

  (** No two orbits are merged: equal labels imply the tuples are related by a translation and a
      position permutation. *)
  Theorem label_equal_same_orbit W t t' r : writes_ok W -> wf t -> wf t' ->
    PositiveMap.find (elem t) (ptr_of W) = Some r -> PositiveMap.find (elem t') (ptr_of W) = Some r ->
    exists pi, In pi (all_perms n) /\ elem t' = elem (permute pi t).
  Proof.
    intros Hok Hw Hw' F F'.
    apply update_min_spec in F; [|exact Hok]. destruct F as [c [g [Hr [He Er]]]].
    apply update_min_spec in F'; [|exact Hok]. destruct F' as [c' [g' [Hr' [He' Er']]]].
    assert (Hm : In r (row_elems c g)) by (rewrite Er; apply minl_in; eapply row_elems_nonempty; exact He).
    assert (Hm' : In r (row_elems c' g')) by (rewrite Er'; apply minl_in; eapply row_elems_nonempty; exact He').
    pose proof (rows_coherent_incl c' g' c g r Hr' Hr Hm' Hm _ He') as He2.
    pose proof Hr as [b [cs [Hbc [Hc Hg]]]]. pose proof (in_blocks b cs Hbc) as Hb.
    unfold row_elems in He, He2. apply in_map_iff in He. destruct He as [a [Ea Ha]].
    apply in_map_iff in He2. destruct He2 as [a2 [Ea2 Ha2]].
    destruct (T2 b g a a2 Hb Hg Ha Ha2) as [pi [Hpi ->]].
    assert (Hwa : wf (apply_arr c a)) by (apply (apply_arr_wf b cs c g a Hbc Hc Hg Ha)).
    destruct (elem_complete _ _ Hw Hwa ltac:(congruence)) as [tau [Htau Et]].
    exists pi. split; [exact Hpi|].
    rewrite <- Ea2. rewrite <- (permute_arr pi c a b g Hb Hg Ha Hpi). rewrite <- Et.
    rewrite (permute_tmap pi tau t Hpi Hw). apply elem_inv; [exact Htau | apply permute_wf; assumption].
  Qed.
End Perm.
