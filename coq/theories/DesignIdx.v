(** Which compact row the design block of atom (begin_i + i') reads: with the index table of AtomIdx.v
    (aidx(flat(i, j, k)) = class code of (i, j, k)), the gathered row r = ((i' N + j) N + k) 27 + abc of the order-3 design
    is compact row  cls_code(begin_i + i', j, k) * 27 + abc:  the element of the canonical translate (C08) with the same
    Cartesian components.  Likewise for order 2 (9) and order 4 (81). *)
From Coq Require Import ZArith Lia List.
Import ListNotations.
From SymfcG Require Import DesignGen.
From SymfcV Require Import Reshape.
Open Scope Z_scope.

Section Idx.
  Variable N : Z.
  Hypothesis HN : 0 < N.
  Variable code3 : Z -> Z -> Z -> Z.           (* class code of an atom triple, as a number *)
  Variable aidx : Z -> Z.
  Hypothesis aidx_is_code : forall i j k, 0 <= i -> 0 <= j < N -> 0 <= k < N -> aidx ((i * N + j) * N + k) = code3 i j k.

  Theorem gather_row_O3 begin_i i' j k abc :
    0 <= begin_i -> 0 <= i' -> 0 <= j < N -> 0 <= k < N -> 0 <= abc < 27 ->
    gather_row 27 (N * N) aidx begin_i (((i' * N + j) * N + k) * 27 + abc) = code3 (begin_i + i') j k * 27 + abc.
  Proof.
    intros Hb Hi Hj Hk Habc. unfold gather_row.
    destruct (digit 27 ((i' * N + j) * N + k) abc Habc) as [E1 E2]. rewrite E1, E2.
    replace (begin_i * (N * N) + ((i' * N + j) * N + k)) with (((begin_i + i') * N + j) * N + k) by ring.
    rewrite aidx_is_code by lia. reflexivity.
  Qed.
End Idx.

Section Idx2.
  Variable N : Z.
  Hypothesis HN : 0 < N.
  Variable code2 : Z -> Z -> Z.
  Variable aidx : Z -> Z.
  Hypothesis aidx_is_code : forall i j, 0 <= i -> 0 <= j < N -> aidx (i * N + j) = code2 i j.

  Theorem gather_row_O2 begin_i i' j ab :
    0 <= begin_i -> 0 <= i' -> 0 <= j < N -> 0 <= ab < 9 ->
    gather_row 9 N aidx begin_i ((i' * N + j) * 9 + ab) = code2 (begin_i + i') j * 9 + ab.
  Proof.
    intros Hb Hi Hj Hab. unfold gather_row.
    destruct (digit 9 (i' * N + j) ab Hab) as [E1 E2]. rewrite E1, E2.
    replace (begin_i * N + (i' * N + j)) with ((begin_i + i') * N + j) by ring.
    rewrite aidx_is_code by lia. reflexivity.
  Qed.
End Idx2.

Section Idx4.
  Variable N : Z.
  Hypothesis HN : 0 < N.
  Variable code4 : Z -> Z -> Z -> Z -> Z.
  Variable aidx : Z -> Z.
  Hypothesis aidx_is_code : forall i j k l, 0 <= i -> 0 <= j < N -> 0 <= k < N -> 0 <= l < N -> aidx (((i * N + j) * N + k) * N + l) = code4 i j k l.

  Theorem gather_row_O4 begin_i i' j k l abcd :
    0 <= begin_i -> 0 <= i' -> 0 <= j < N -> 0 <= k < N -> 0 <= l < N -> 0 <= abcd < 81 ->
    gather_row 81 (N * N * N) aidx begin_i ((((i' * N + j) * N + k) * N + l) * 81 + abcd) = code4 (begin_i + i') j k l * 81 + abcd.
  Proof.
    intros Hb Hi Hj Hk Hl Hq. unfold gather_row.
    destruct (digit 81 (((i' * N + j) * N + k) * N + l) abcd Hq) as [E1 E2]. rewrite E1, E2.
    replace (begin_i * (N * N * N) + (((i' * N + j) * N + k) * N + l)) with ((((begin_i + i') * N + j) * N + k) * N + l) by ring.
    rewrite aidx_is_code by lia. reflexivity.
  Qed.
End Idx4.
