(** Abstract real inner-product spaces and the linear-algebra facts the basis construction and the
    solvers rest on.  Operators are section variables with their algebraic laws as hypotheses; every
    exported statement is closed.  Axioms: those of the standard library [Reals]. *)
From Coq Require Import Reals Lra Psatz.
Open Scope R_scope.

Record IPS := {
  V :> Type;
  vadd : V -> V -> V;
  vscale : R -> V -> V;
  vzero : V;
  ip : V -> V -> R;
  vadd_comm : forall x y, vadd x y = vadd y x;
  vadd_assoc : forall x y z, vadd (vadd x y) z = vadd x (vadd y z);
  vadd_zero : forall x, vadd x vzero = x;
  vadd_neg : forall x, vadd x (vscale (-1) x) = vzero;
  vscale_one : forall x, vscale 1 x = x;
  vscale_add : forall a x y, vscale a (vadd x y) = vadd (vscale a x) (vscale a y);
  vscale_scale : forall a b x, vscale a (vscale b x) = vscale (a * b) x;
  ip_sym : forall x y, ip x y = ip y x;
  ip_add_l : forall x y z, ip (vadd x y) z = ip x z + ip y z;
  ip_scale_l : forall a x y, ip (vscale a x) y = a * ip x y;
  ip_pos : forall x, 0 <= ip x x;
  ip_def : forall x, ip x x = 0 -> x = vzero;
}.

Arguments vadd {_}. Arguments vscale {_}. Arguments vzero {_}. Arguments ip {_}.
Arguments vadd_comm {_}. Arguments vadd_assoc {_}. Arguments vadd_zero {_}. Arguments vadd_neg {_}.
Arguments vscale_one {_}. Arguments vscale_add {_}. Arguments vscale_scale {_}.
Arguments ip_sym {_}. Arguments ip_add_l {_}. Arguments ip_scale_l {_}. Arguments ip_pos {_}. Arguments ip_def {_}.

Section Basics.
  Variable S : IPS.
  Implicit Types x y z : S.
  Definition vsub x y : S := vadd x (vscale (-1) y).

  Lemma ip_add_r x y z : ip x (vadd y z) = ip x y + ip x z.
  Proof. rewrite ip_sym, ip_add_l, (ip_sym y), (ip_sym z). reflexivity. Qed.
  Lemma ip_scale_r (a : R) x y : ip x (vscale a y) = a * ip x y.
  Proof. rewrite ip_sym, ip_scale_l, ip_sym. reflexivity. Qed.
  Lemma ip_zero_l x : ip (@vzero S) x = 0.
  Proof.
    assert (H : ip (vadd (@vzero S) vzero) x = ip (@vzero S) x) by (rewrite vadd_zero; reflexivity).
    rewrite ip_add_l in H. lra.
  Qed.
  Lemma ip_zero_r x : ip x (@vzero S) = 0.
  Proof. rewrite ip_sym. apply ip_zero_l. Qed.
  Lemma ip_sub_l x y z : ip (vsub x y) z = ip x z - ip y z.
  Proof. unfold vsub. rewrite ip_add_l, ip_scale_l. lra. Qed.
  Lemma ip_sub_r x y z : ip x (vsub y z) = ip x y - ip x z.
  Proof. unfold vsub. rewrite ip_add_r, ip_scale_r. lra. Qed.

  Lemma vsub_zero_eq x y : vsub x y = vzero -> x = y.
  Proof.
    unfold vsub. intros H.
    assert (E : vadd (vadd x (vscale (-1) y)) y = vadd vzero y) by (rewrite H; reflexivity).
    rewrite vadd_assoc in E. rewrite (vadd_comm (vscale (-1) y) y) in E. rewrite vadd_neg in E.
    rewrite vadd_zero in E. rewrite (vadd_comm vzero y), vadd_zero in E. exact E.
  Qed.

  Lemma vadd_sub_cancel x y : vadd x (vsub y x) = y.
  Proof.
    unfold vsub. rewrite <- vadd_assoc. rewrite (vadd_comm x y). rewrite vadd_assoc. rewrite vadd_neg. apply vadd_zero.
  Qed.

  Lemma norm_sub_zero_eq x y : ip (vsub x y) (vsub x y) = 0 -> x = y.
  Proof. intros H. apply vsub_zero_eq. apply ip_def. exact H. Qed.

  (** two vectors with the same inner products against everything are equal *)
  Lemma ip_ext x y : (forall z, ip x z = ip y z) -> x = y.
  Proof.
    intros H. apply norm_sub_zero_eq. rewrite ip_sub_l. rewrite !H. lra.
  Qed.

  (** if  -2 s a + s^2 b >= 0 for all s, with b >= 0, then a = 0  (used twice below) *)
  Lemma quad_trick a b : 0 <= b -> (forall s, 0 <= - 2 * s * a + s * s * b) -> a = 0.
  Proof.
    intros Hb Hq.
    destruct (Rtotal_order a 0) as [Hneg|[Hz|Hpos]]; [exfalso | exact Hz | exfalso].
    - specialize (Hq (a / (b + 1))).
      assert (Hb1 : 0 < b + 1) by lra.
      assert (E : - 2 * (a / (b + 1)) * a + a / (b + 1) * (a / (b + 1)) * b = (a * a / (b + 1)) * (-2 + b / (b + 1))) by (field; lra).
      rewrite E in Hq.
      assert (0 < a * a / (b + 1)) by (apply Rdiv_lt_0_compat; nra).
      assert (b / (b + 1) < 1) by (apply (Rmult_lt_reg_r (b + 1)); [lra|]; unfold Rdiv; rewrite Rmult_assoc, Rinv_l; lra).
      nra.
    - specialize (Hq (a / (b + 1))).
      assert (Hb1 : 0 < b + 1) by lra.
      assert (E : - 2 * (a / (b + 1)) * a + a / (b + 1) * (a / (b + 1)) * b = (a * a / (b + 1)) * (-2 + b / (b + 1))) by (field; lra).
      rewrite E in Hq.
      assert (0 < a * a / (b + 1)) by (apply Rdiv_lt_0_compat; nra).
      assert (b / (b + 1) < 1) by (apply (Rmult_lt_reg_r (b + 1)); [lra|]; unfold Rdiv; rewrite Rmult_assoc, Rinv_l; lra).
      nra.
  Qed.
End Basics.

Arguments vsub {_}.

(** ** Positive semidefinite forms *)
Section PSD.
  Variable S : IPS.
  Variable A : S -> S.
  Hypothesis A_add : forall x y, A (vadd x y) = vadd (A x) (A y).
  Hypothesis A_scale : forall a x, A (vscale a x) = vscale a (A x).
  Hypothesis A_sym : forall x y, ip (A x) y = ip x (A y).
  Hypothesis A_psd : forall x, 0 <= ip x (A x).

  Lemma psd_zero_form v : ip v (A v) = 0 -> A v = vzero.
  Proof.
    intros Hv. apply ip_def. set (w := A v).
    apply (quad_trick (ip w w) (ip w (A w))); [apply A_psd|].
    intro s. pose proof (A_psd (vadd v (vscale (-s) w))) as H.
    rewrite A_add, A_scale in H.
    rewrite !ip_add_l, !ip_scale_l, !ip_add_r, !ip_scale_r in H.
    assert (E1 : ip v (A w) = ip w w) by (rewrite <- A_sym; reflexivity).
    assert (E2 : ip w (A v) = ip w w) by reflexivity.
    rewrite Hv, E1, E2 in H. lra.
  Qed.
End PSD.

(** ** Least squares: normal equations <-> minimiser *)
Section LeastSquares.
  Variables C O : IPS.            (* coefficients, observations *)
  Variable X : C -> O.
  Hypothesis X_add : forall c d, X (vadd c d) = vadd (X c) (X d).
  Hypothesis X_scale : forall a c, X (vscale a c) = vscale a (X c).
  Variable y : O.

  Definition resid (c : C) : O := vsub y (X c).
  Definition cost (c : C) : R := ip (resid c) (resid c).
  Definition normal_eq (c : C) : Prop := forall d, ip (X d) (resid c) = 0.
  Definition minimiser (c : C) : Prop := forall c', cost c <= cost c'.

  Lemma resid_shift c d : resid (vadd c d) = vsub (resid c) (X d).
  Proof.
    unfold resid, vsub. rewrite X_add, vscale_add, vadd_assoc. reflexivity.
  Qed.

  Lemma cost_expand c d : cost (vadd c d) = cost c - 2 * ip (X d) (resid c) + ip (X d) (X d).
  Proof.
    unfold cost. rewrite resid_shift. rewrite ip_sub_l, !ip_sub_r. rewrite (ip_sym (resid c) (X d)). lra.
  Qed.

  Theorem normal_eq_iff_minimiser c : normal_eq c <-> minimiser c.
  Proof.
    split.
    - intros Hn c'.
      rewrite <- (vadd_sub_cancel C c c'). rewrite cost_expand. rewrite Hn. pose proof (ip_pos (X (vsub c' c))). lra.
    - intros Hm d. apply (quad_trick (ip (X d) (resid c)) (ip (X d) (X d))); [apply ip_pos|].
      intro s. specialize (Hm (vadd c (vscale s d))). rewrite cost_expand in Hm.
      rewrite X_scale, !ip_scale_l, !ip_scale_r in Hm. lra.
  Qed.

  (** uniqueness when X is injective *)
  Theorem minimiser_unique c c' : (forall d, X d = vzero -> d = vzero) -> normal_eq c -> normal_eq c' -> c = c'.
  Proof.
    intros Hinj Hn Hn'.
    assert (Hd : X (vsub c c') = vzero).
    { apply ip_def.
      assert (E : resid c' = vadd (resid c) (X (vsub c c'))).
      { unfold resid, vsub. rewrite X_add, X_scale.
        rewrite vadd_assoc. f_equal. rewrite <- vadd_assoc. rewrite (vadd_comm (vscale (-1) (X c)) (X c)), vadd_neg.
        rewrite vadd_comm, vadd_zero. reflexivity. }
      pose proof (Hn' (vsub c c')) as H1. rewrite E in H1. rewrite ip_add_r in H1. rewrite (Hn (vsub c c')) in H1. lra. }
    apply vsub_zero_eq. apply Hinj. exact Hd.
  Qed.
End LeastSquares.

(** ** Unit eigenvectors of a compressed projector = intersection of subspaces *)
Section Compression.
  Variables U W : IPS.
  Variable Cm : U -> W.            (* compression matrix C, orthonormal columns *)
  Variable Ct : W -> U.            (* its transpose *)
  Variable P : W -> W.             (* orthogonal projector *)
  Hypothesis C_iso : forall x y, ip (Cm x) (Cm y) = ip x y.
  Hypothesis C_adj : forall x w, ip (Cm x) w = ip x (Ct w).
  Hypothesis P_sym : forall x y, ip (P x) y = ip x (P y).
  Hypothesis P_idem : forall x, P (P x) = P x.

  Lemma CtC y : Ct (Cm y) = y.
  Proof. apply ip_ext. intro z. rewrite ip_sym, <- C_adj, C_iso, ip_sym. reflexivity. Qed.

  Theorem unit_eig_of_compression y : Ct (P (Cm y)) = y <-> P (Cm y) = Cm y.
  Proof.
    split.
    - intros H. symmetry. apply norm_sub_zero_eq.
      rewrite ip_sub_l, !ip_sub_r.
      assert (E1 : ip (Cm y) (P (Cm y)) = ip y y) by (rewrite C_adj, H; reflexivity).
      assert (E2 : ip (P (Cm y)) (P (Cm y)) = ip y y) by (rewrite P_sym, P_idem; exact E1).
      rewrite (ip_sym (P (Cm y)) (Cm y)), E1, E2, C_iso. lra.
    - intros H. rewrite H. apply CtC.
  Qed.
End Compression.

(** ** Unit eigenvectors of I - B^T B / c = null space of the constraints *)
Section Constraints.
  Variables U W : IPS.
  Variable B : U -> W.
  Variable Bt : W -> U.
  Hypothesis B_adj : forall x w, ip (B x) w = ip x (Bt w).
  Variable c : R.
  Hypothesis c_pos : 0 < c.

  Definition sumrule_op (z : U) : U := vsub z (vscale (/ c) (Bt (B z))).

  Theorem unit_eig_of_constraints z : sumrule_op z = z <-> B z = vzero.
  Proof.
    unfold sumrule_op. split.
    - intros H. apply ip_def. rewrite B_adj.
      assert (E : ip z z = ip z (vsub z (vscale (/ c) (Bt (B z))))) by (rewrite H; reflexivity).
      rewrite ip_sub_r, ip_scale_r in E.
      assert (Hc : / c <> 0) by (apply Rinv_neq_0_compat; lra).
      assert (/ c * ip z (Bt (B z)) = 0) by lra.
      destruct (Rmult_integral _ _ H0); [contradiction | assumption].
    - intros H. rewrite H.
      assert (E : Bt vzero = vzero).
      { apply ip_ext. intro x. rewrite ip_sym, <- B_adj, ip_zero_r, ip_zero_l. reflexivity. }
      rewrite E. unfold vsub. rewrite !vscale_scale.
      assert (Z : forall a, vscale a (@vzero U) = vzero).
      { intro a. apply ip_ext. intro x. rewrite ip_scale_l, !ip_zero_l. lra. }
      rewrite Z. apply vadd_zero.
  Qed.
End Constraints.

(** ** Unit eigenvectors of a principal sub-block lift to unit eigenvectors of the whole matrix *)
Section SubBlock.
  Variables S W : IPS.             (* sub-block coordinates, all coordinates *)
  Variable J : S -> W.             (* coordinate embedding *)
  Variable Jt : W -> S.
  Variable M : W -> W.
  Hypothesis J_iso : forall x y, ip (J x) (J y) = ip x y.
  Hypothesis J_adj : forall x w, ip (J x) w = ip x (Jt w).
  Hypothesis M_add : forall x y, M (vadd x y) = vadd (M x) (M y).
  Hypothesis M_scale : forall a x, M (vscale a x) = vscale a (M x).
  Hypothesis M_sym : forall x y, ip (M x) y = ip x (M y).
  Hypothesis M_le_I : forall x, ip x (M x) <= ip x x.

  Theorem subblock_unit_vectors_lift w : Jt (M (J w)) = w -> M (J w) = J w.
  Proof.
    intros H.
    pose (A := fun x : W => vsub x (M x)).
    assert (HA : A (J w) = vzero).
    { apply (psd_zero_form W A).
      - intros x y. unfold A, vsub. rewrite M_add, vscale_add.
        rewrite !vadd_assoc. f_equal. rewrite <- !vadd_assoc. f_equal. apply vadd_comm.
      - intros a x. unfold A, vsub. rewrite M_scale, vscale_add, !vscale_scale. f_equal. f_equal. lra.
      - intros x y. unfold A. rewrite ip_sub_l, ip_sub_r, M_sym. reflexivity.
      - intros x. unfold A. rewrite ip_sub_r. pose proof (M_le_I x). lra.
      - unfold A. rewrite ip_sub_r. rewrite (J_adj w (M (J w))), H, J_iso. lra. }
    unfold A in HA. symmetry. apply vsub_zero_eq. exact HA.
  Qed.
End SubBlock.

(** ** Isometries compose; linear constraints pass to linear images (fact L) *)
Section Iso.
  Variables A B C : IPS.
  Variable f : A -> B.
  Variable g : B -> C.
  Hypothesis f_iso : forall x y, ip (f x) (f y) = ip x y.
  Hypothesis g_iso : forall x y, ip (g x) (g y) = ip x y.
  Theorem isometry_comp x y : ip (g (f x)) (g (f y)) = ip x y.
  Proof. rewrite g_iso, f_iso. reflexivity. Qed.
End Iso.

Section LinearImage.
  Variables A B : IPS.
  Variable K : A -> B.             (* a linear constraint functional / operator *)
  Hypothesis K_add : forall x y, K (vadd x y) = vadd (K x) (K y).
  Hypothesis K_scale : forall a x, K (vscale a x) = vscale a (K x).
  Lemma K_zero_closed_add x y : K x = vzero -> K y = vzero -> K (vadd x y) = vzero.
  Proof. intros Hx Hy. rewrite K_add, Hx, Hy. apply vadd_zero. Qed.
  Lemma K_zero_closed_scale a x : K x = vzero -> K (vscale a x) = vzero.
  Proof.
    intros Hx. rewrite K_scale, Hx. apply ip_ext. intro z. rewrite ip_scale_l, !ip_zero_l. lra.
  Qed.
End LinearImage.
