(** Executable model of the write sequence of [_update_perm_decompr_indices] in the exact numpy order
    (batches of combinations in order; inside a batch column j = 0,1,.. of the reshaped index matrix,
    rows in order; fancy assignment = sequential, last wins), for both representative choices, and
    the proof that with the row minimum as representative the sequence satisfies [writes_ok] for every
    batch count. *)
From Coq Require Import List Arith Lia Bool PArith ZArith FMapPositive.
Import ListNotations.
From SymfcV Require Import PyPrelude Tuples Batch PermModel.
From SymfcG Require Import BatchGen.
Local Open Scope nat_scope.

Section Exec.
  Variable elem : tuple -> positive.

  Definition row_of (c : list nat) (g : list (list nat)) : list positive := map (fun a => elem (apply_arr c a)) g.
  Definition rep_of (r : rep) (row : list positive) : positive :=
    match r with RepFirst => hd 1%positive row | RepRowMin => minl row end.
  Definition rows_of (b : block) (cs : list (list nat)) : list (list positive) :=
    flat_map (fun c => map (row_of c) (groups b)) cs.
  Definition batch_writes (r : rep) (w : nat) (rows : list (list positive)) : writes :=
    flat_map (fun j => map (fun row => (nth j row 1%positive, rep_of r row)) rows) (seq 0 w).

  (** One call of _update_perm_decompr_indices: combinations [cs], [nbatch] batches. *)
  Definition block_writes (r : rep) (b : block) (cs : list (list nat)) (nbatch : Z) : result writes :=
    match get_batch_slice (Z.of_nat (length cs)) (Z.of_nat (length cs) / nbatch) with
    | Ok (bs, es) => Ok (flat_map (fun cb => batch_writes r (group_width b) (rows_of b cb)) (batches cs bs es))
    | Err e => Err e
    end.

  Fixpoint all_writes (r : rep) (inp : list (block * list (list nat) * Z)) : result writes :=
    match inp with
    | [] => Ok []
    | (b, cs, nb) :: inp' =>
        match block_writes r b cs nb, all_writes r inp' with
        | Ok w1, Ok w2 => Ok (w1 ++ w2)
        | Err e, _ => Err e
        | _, Err e => Err e
        end
    end.

  (** Membership in a batch's writes. *)
  Lemma in_batch_writes r w rows e v :
    In (e, v) (batch_writes r w rows) <-> exists j row, j < w /\ In row rows /\ e = nth j row 1%positive /\ v = rep_of r row.
  Proof.
    unfold batch_writes. rewrite in_flat_map. split.
    - intros [j [Hj H]]. apply in_seq in Hj. apply in_map_iff in H. destruct H as [row [E Hrow]].
      inversion E; subst. exists j, row. repeat split; auto; lia.
    - intros [j [row [Hj [Hrow [-> ->]]]]]. exists j. split; [apply in_seq; lia|].
      apply in_map_iff. exists row. auto.
  Qed.

  Lemma in_rows_of b cs row : In row (rows_of b cs) <-> exists c g, In c cs /\ In g (groups b) /\ row = row_of c g.
  Proof.
    unfold rows_of. rewrite in_flat_map. split.
    - intros [c [Hc H]]. apply in_map_iff in H. destruct H as [g [<- Hg]]. eauto.
    - intros [c [g [Hc [Hg ->]]]]. exists c. split; [exact Hc|]. apply in_map. exact Hg.
  Qed.

  Lemma nth_in_iff (row : list positive) w e : length row = w -> (In e row <-> exists j, j < w /\ e = nth j row 1%positive).
  Proof.
    intros Hl. split.
    - intros H. apply (In_nth _ _ 1%positive) in H. destruct H as [j [Hj E]]. exists j. split; [lia | auto].
    - intros [j [Hj ->]]. apply nth_In. lia.
  Qed.

  (** Batches cover the combinations exactly. *)
  Lemma in_batches_iff {A} (cs : list A) (bsz : Z) bs es : (0 < bsz)%Z ->
    get_batch_slice (Z.of_nat (length cs)) bsz = Ok (bs, es) ->
    forall c, In c cs <-> exists cb, In cb (batches cs bs es) /\ In c cb.
  Proof.
    intros Hb Hg c. destruct (batches_concat cs bsz Hb) as [bs' [es' [Hg' Hc]]].
    rewrite Hg in Hg'. inversion Hg'; subst bs' es'.
    rewrite <- Hc at 1. rewrite in_concat. split; intros [cb H]; exists cb; tauto.
  Qed.
End Exec.

(** The generated sequence satisfies [writes_ok] (PermModel) when the representative is the row
    minimum, for every batch count for which the source does not raise. *)
Section ExecOk.
  Variable n bound nlp : nat.
  Variable tshift : nat -> nat -> nat.
  Variable elem : tuple -> positive.
  Variable inp : list (block * list (list nat) * Z).
  Let bc : list (block * list (list nat)) := map fst inp.

  (** every arrangement group has the declared width (decidable table fact) *)
  Hypothesis widths : forall b cs nb g, In (b, cs, nb) inp -> In g (groups b) -> length g = group_width b.
  Hypothesis batch_pos : forall b cs nb, In (b, cs, nb) inp -> (0 < Z.of_nat (length cs) / nb)%Z.

  Lemma block_writes_spec b cs nb W : In (b, cs, nb) inp -> block_writes elem RepRowMin b cs nb = Ok W ->
    forall e v, In (e, v) W <-> exists c g, In c cs /\ In g (groups b) /\ In e (row_of elem c g) /\ v = minl (row_of elem c g).
  Proof.
    intros Hin Hbw e v. unfold block_writes in Hbw.
    destruct (get_batch_slice (Z.of_nat (length cs)) (Z.of_nat (length cs) / nb)) as [[bs es]|] eqn:Hg; [|discriminate].
    inversion Hbw; subst W; clear Hbw.
    pose proof (in_batches_iff cs _ bs es (batch_pos b cs nb Hin) Hg) as Hcov.
    rewrite in_flat_map. split.
    - intros [cb [Hcb H]]. apply in_batch_writes in H. destruct H as [j [row [Hj [Hrow [-> ->]]]]].
      apply in_rows_of in Hrow. destruct Hrow as [c [g [Hc [Hgg ->]]]].
      exists c, g. split; [apply Hcov; eauto|]. split; [exact Hgg|]. split; [|reflexivity].
      apply nth_In. unfold row_of. rewrite map_length. rewrite (widths b cs nb g Hin Hgg). exact Hj.
    - intros [c [g [Hc [Hgg [He ->]]]]]. apply Hcov in Hc. destruct Hc as [cb [Hcb Hc]].
      exists cb. split; [exact Hcb|]. apply in_batch_writes.
      assert (Hl : length (row_of elem c g) = group_width b) by (unfold row_of; rewrite map_length; apply (widths b cs nb g Hin Hgg)).
      apply (nth_in_iff (row_of elem c g) _ e Hl) in He. destruct He as [j [Hj ->]].
      exists j, (row_of elem c g). repeat split; auto. apply in_rows_of. eauto.
  Qed.

  Lemma all_writes_spec : forall (inp0 : list (block * list (list nat) * Z)) W,
    (forall x, In x inp0 -> In x inp) ->
    all_writes elem RepRowMin inp0 = Ok W ->
    forall e v, In (e, v) W <-> exists b cs nb c g, In (b, cs, nb) inp0 /\ In c cs /\ In g (groups b) /\
                                 In e (row_of elem c g) /\ v = minl (row_of elem c g).
  Proof.
    induction inp0 as [|[[b cs] nb] inp0 IH]; intros W Hsub H e v.
    - simpl in H. inversion H; subst. split; [intros [] | intros [? [? [? [? [? [[] _]]]]]]].
    - simpl in H. destruct (block_writes elem RepRowMin b cs nb) as [w1|] eqn:E1; [|discriminate].
      destruct (all_writes elem RepRowMin inp0) as [w2|] eqn:E2; [|discriminate].
      inversion H; subst W; clear H. rewrite in_app_iff.
      rewrite (block_writes_spec b cs nb w1 (Hsub _ (or_introl eq_refl)) E1 e v).
      rewrite (IH w2 (fun x Hx => Hsub x (or_intror Hx)) eq_refl e v). split.
      + intros [[c [g H]]|[b' [cs' [nb' [c [g [Hin H]]]]]]].
        * exists b, cs, nb, c, g. split; [left; reflexivity | exact H].
        * exists b', cs', nb', c, g. split; [right; exact Hin | exact H].
      + intros [b' [cs' [nb' [c [g [[Heq|Hin] H]]]]]].
        * inversion Heq; subst. left. eauto.
        * right. exists b', cs', nb', c, g. auto.
  Qed.

  Theorem exec_writes_ok W : all_writes elem RepRowMin inp = Ok W -> writes_ok elem bc W.
  Proof.
    intros H. pose proof (all_writes_spec inp W (fun x Hx => Hx) H) as Hs. split.
    - intros e v Hin. apply Hs in Hin. destruct Hin as [b [cs [nb [c [g [Hi [Hc [Hg [He Hv]]]]]]]]].
      exists c, g. split; [|split; [exact He | exact Hv]].
      exists b, cs. split; [|auto]. unfold bc. apply in_map_iff. exists (b, cs, nb). auto.
    - intros c g e [b [cs [Hbc [Hc Hg]]]] He. unfold bc in Hbc. apply in_map_iff in Hbc.
      destruct Hbc as [[[b' cs'] nb] [Heq Hi]]. simpl in Heq. inversion Heq; subst b' cs'.
      exists (minl (row_of elem c g)). apply Hs. exists b, cs, nb, c, g. auto.
  Qed.
End ExecOk.
