(** What the three eigen stages of a basis-set computation span, as one statement.

    c_pt = C1 (orthonormal columns), c_rpt = C2 = a complete set of unit eigenvectors of C1^T P C1 (P the coset
    projector), Z = a complete set of unit eigenvectors of I - B^T B / c with B = A C1 C2 (A the sum-rule rows):
    the columns of F = C1 C2 Z span exactly  range(C1) /\ Fix(P) /\ ker(A).  "Complete set" is what C15 states of
    the eigen-solvers; range(C1) is what C01/C04/C07 state of the orbit labels. *)
From Coq Require Import Reals Lra.
From SymfcV Require Import IPS.
Open Scope R_scope.

Section StageProjector.
  Variables U1 U2 W : IPS.
  Variable C1 : U1 -> W.  Variable C1t : W -> U1.  Variable C2 : U2 -> U1.  Variable P : W -> W.
  Hypothesis C1_iso : forall x y, ip (C1 x) (C1 y) = ip x y.
  Hypothesis C1_adj : forall x w, ip (C1 x) w = ip x (C1t w).
  Hypothesis P_sym : forall x y, ip (P x) y = ip x (P y).
  Hypothesis P_idem : forall x, P (P x) = P x.
  (** the columns of C2 span the unit eigenspace of C1^T P C1 *)
  Hypothesis C2_complete : forall y, (exists z, C2 z = y) <-> C1t (P (C1 y)) = y.

  Theorem stage_projector w : (exists z, C1 (C2 z) = w) <-> (exists y, C1 y = w) /\ P w = w.
  Proof.
    split.
    - intros [z Hz]. split; [exists (C2 z); exact Hz|].
      assert (H : C1t (P (C1 (C2 z))) = C2 z) by (apply C2_complete; exists z; reflexivity).
      apply (unit_eig_of_compression U1 W C1 C1t P C1_iso C1_adj P_sym P_idem) in H. rewrite Hz in H. exact H.
    - intros [[y Hy] HP]. subst w.
      apply (unit_eig_of_compression U1 W C1 C1t P C1_iso C1_adj P_sym P_idem) in HP.
      apply C2_complete in HP. destruct HP as [z Hz]. exists z. rewrite Hz. reflexivity.
  Qed.
End StageProjector.

Section StageConstraints.
  Variables U3 U W V : IPS.
  Variable C : U -> W.  Variable A : W -> V.  Variable Bt : V -> U.  Variable Z : U3 -> U.
  Hypothesis B_adj : forall x v, ip (A (C x)) v = ip x (Bt v).
  Variable c : R.
  Hypothesis c_pos : 0 < c.
  (** the columns of Z span the unit eigenspace of I - B^T B / c *)
  Hypothesis Z_complete : forall y, (exists z, Z z = y) <-> sumrule_op U V (fun x => A (C x)) Bt c y = y.

  Theorem stage_constraints w : (exists z, C (Z z) = w) <-> (exists y, C y = w) /\ A w = vzero.
  Proof.
    split.
    - intros [z Hz]. split; [exists (Z z); exact Hz|].
      assert (H : sumrule_op U V (fun x => A (C x)) Bt c (Z z) = Z z) by (apply Z_complete; exists z; reflexivity).
      apply (unit_eig_of_constraints U V (fun x => A (C x)) Bt B_adj c c_pos) in H. rewrite Hz in H. exact H.
    - intros [[y Hy] HA]. subst w.
      apply (unit_eig_of_constraints U V (fun x => A (C x)) Bt B_adj c c_pos) in HA.
      apply Z_complete in HA. destruct HA as [z Hz]. exists z. rewrite Hz. reflexivity.
  Qed.
End StageConstraints.

Section Pipeline.
  Variables U1 U2 U3 W V : IPS.
  Variable C1 : U1 -> W.  Variable C1t : W -> U1.  Variable C2 : U2 -> U1.  Variable Z : U3 -> U2.
  Variable P : W -> W.  Variable A : W -> V.  Variable Bt : V -> U2.
  Hypothesis C1_iso : forall x y, ip (C1 x) (C1 y) = ip x y.
  Hypothesis C1_adj : forall x w, ip (C1 x) w = ip x (C1t w).
  Hypothesis P_sym : forall x y, ip (P x) y = ip x (P y).
  Hypothesis P_idem : forall x, P (P x) = P x.
  Hypothesis C2_complete : forall y, (exists z, C2 z = y) <-> C1t (P (C1 y)) = y.
  Hypothesis B_adj : forall x v, ip (A (C1 (C2 x))) v = ip x (Bt v).
  Variable c : R.
  Hypothesis c_pos : 0 < c.
  Hypothesis Z_complete : forall y, (exists z, Z z = y) <-> sumrule_op U2 V (fun x => A (C1 (C2 x))) Bt c y = y.

  (** no admissible tensor is lost and nothing inadmissible is representable *)
  Theorem pipeline_span w :
    (exists z, C1 (C2 (Z z)) = w) <-> (exists y, C1 y = w) /\ P w = w /\ A w = vzero.
  Proof.
    rewrite (stage_constraints U3 U2 W V (fun x => C1 (C2 x)) A Bt Z B_adj c c_pos Z_complete w).
    rewrite (stage_projector U1 U2 W C1 C1t C2 P C1_iso C1_adj P_sym P_idem C2_complete w).
    tauto.
  Qed.
End Pipeline.
