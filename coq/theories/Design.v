(** The design matrix of the solvers, entry by entry: what  X_n = D_n(u) @ reshape(compact[decompr_idx])  holds.

    A sparse matrix in COO form is a list of entries (row, column, value); a dense row vector times a COO matrix
    is a sum over the entries.  The reshape maps are the ones regenerated from the source (gen/ReshapeGen.v), the
    Kronecker products of displacements and the row gather are regenerated too (gen/DesignGen.v).  For every
    N, nx, every entry list, every displacement vector u:

      X_n[(3 i + a) nx + x] = sum over the entries (r, x, v) of the gathered matrix whose row r decodes to first
      atom i, first Cartesian index a:   u(3 j + b) [u(3 k + c) [u(3 l + d)]] * v

    i.e. the contraction of column x (read as a tensor with the first index compact) with n-1 copies of u: up to
    the Taylor constant (gen/SolverStruct.v) the force on (i, a) of the n-th order term.  *)
From Coq Require Import ZArith List Reals Lra Lia Bool.
Import ListNotations.
From SymfcV Require Import DesignPre Reshape.
From SymfcG Require Import ReshapeGen DesignGen.
Open Scope Z_scope.

Definition entry := ((Z * Z) * R)%type.
Definition erow (e : entry) : Z := fst (fst e).
Definition ecol (e : entry) : Z := snd (fst e).
Definition eval (e : entry) : R := snd e.

Fixpoint rsumf {A : Type} (f : A -> R) (l : list A) : R :=
  match l with [] => 0%R | x :: l' => (f x + rsumf f l')%R end.

Lemma rsumf_ext {A : Type} (f g : A -> R) l : (forall x, In x l -> f x = g x) -> rsumf f l = rsumf g l.
Proof.
  induction l as [|x l IH]; intros H; cbn [rsumf]; [reflexivity|].
  rewrite (H x (or_introl eq_refl)), IH; [reflexivity|]. intros y Hy. apply H. right. exact Hy.
Qed.

Lemma rsumf_map {A B : Type} (h : A -> B) (f : B -> R) l : rsumf f (map h l) = rsumf (fun x => f (h x)) l.
Proof. induction l as [|x l IH]; cbn [rsumf map]; [reflexivity | rewrite IH; reflexivity]. Qed.

Lemma rsumf_app {A : Type} (f : A -> R) l1 l2 : rsumf f (l1 ++ l2) = (rsumf f l1 + rsumf f l2)%R.
Proof. induction l1 as [|x l IH]; cbn [rsumf app]; [lra | rewrite IH; lra]. Qed.

Lemma rsumf_filter {A : Type} (f : A -> R) (p : A -> bool) l :
  rsumf f (filter p l) = rsumf (fun x => if p x then f x else 0%R) l.
Proof. induction l as [|x l IH]; cbn [rsumf filter]; [reflexivity|]. destruct (p x); cbn [rsumf]; rewrite IH; lra. Qed.

Lemma rsumf_scale {A : Type} (f : A -> R) (c : R) l : rsumf (fun x => (c * f x)%R) l = (c * rsumf f l)%R.
Proof. induction l as [|x l IH]; cbn [rsumf]; [lra | rewrite IH; lra]. Qed.

(** entry [c'] of (dense row vector D) @ (COO matrix M) *)
Definition dense_times_coo (D : Z -> R) (M : list entry) (c' : Z) : R :=
  rsumf (fun e => if ecol e =? c' then (D (erow e) * eval e)%R else 0%R) M.

(** the in-place index rewriting of the reshape functions, entry by entry *)
Definition reshape_entries (f : Z -> Z -> Z * Z) (M : list entry) : list entry :=
  map (fun e => (f (erow e) (ecol e), eval e)) M.

(** * Digits *)
Lemma zdigit2 B p q : 0 <= p < B -> 0 <= q < B -> zdigit B 2 0 (p * B + q) = p /\ zdigit B 2 1 (p * B + q) = q.
Proof.
  intros Hp Hq. unfold zdigit. cbn [Nat.sub Z.of_nat Pos.of_succ_nat]. rewrite Z.pow_1_r, Z.pow_0_r, Z.div_1_r.
  destruct (digit B p q Hq) as [E1 E2]. rewrite E1, E2. split; [apply Z.mod_small; exact Hp | reflexivity].
Qed.

Lemma zdigit3 B p q s : 0 <= p < B -> 0 <= q < B -> 0 <= s < B ->
  zdigit B 3 0 ((p * B + q) * B + s) = p /\ zdigit B 3 1 ((p * B + q) * B + s) = q /\ zdigit B 3 2 ((p * B + q) * B + s) = s.
Proof.
  intros Hp Hq Hs. unfold zdigit. cbn [Nat.sub Z.of_nat Pos.of_succ_nat Pos.succ].
  rewrite Z.pow_2_r, Z.pow_1_r, Z.pow_0_r, Z.div_1_r.
  destruct (digit B (p * B + q) s Hs) as [E1 E2].
  destruct (digit B p q Hq) as [E3 E4].
  rewrite <- Z.div_div by lia. rewrite E1, E2, E3, E4.
  repeat split. apply Z.mod_small. exact Hp.
Qed.

(** the two ways of forming the third-order products agree (for every index) *)
Lemma disps_3rd_from_2nd_eq N3 u r : 0 < N3 -> disps_3rd_from_2nd N3 (disps_2nd N3 u) u r = disps_3rd N3 u r.
Proof.
  intros H. unfold disps_3rd_from_2nd, disps_2nd, disps_3rd, zdigit. cbn [Nat.sub Z.of_nat Pos.of_succ_nat Pos.succ].
  rewrite Z.pow_2_r, !Z.pow_1_r, !Z.pow_0_r, !Z.div_1_r.
  rewrite Z.div_div by lia. reflexivity.
Qed.

(** column index (3 i + a) nx + x determines i, a, x *)
Lemma col_eqb nx i a x i' a' x' :
  0 <= x < nx -> 0 <= x' < nx -> 0 <= a < 3 -> 0 <= a' < 3 ->
  ((3 * i' + a') * nx + x' =? (3 * i + a) * nx + x) = ((x' =? x) && (i' =? i) && (a' =? a)).
Proof.
  intros Hx Hx' Ha Ha'.
  destruct (Z.eqb_spec ((3 * i' + a') * nx + x') ((3 * i + a) * nx + x)) as [E|E].
  - destruct (digit nx (3 * i' + a') x' Hx') as [D1 D2]. destruct (digit nx (3 * i + a) x Hx) as [D3 D4].
    rewrite E in D1, D2. rewrite D3 in D1. rewrite D4 in D2. subst x'.
    assert (i' = i) by lia. assert (a' = a) by lia. subst. rewrite !Z.eqb_refl. reflexivity.
  - destruct (Z.eqb_spec x' x) as [->|]; [|reflexivity].
    destruct (Z.eqb_spec i' i) as [->|]; [|reflexivity].
    destruct (Z.eqb_spec a' a) as [->|]; [|reflexivity]. exfalso. apply E. reflexivity.
Qed.

(** * Decoding a flat row index of the gathered matrix: ((..(i N + j) N + ..) 3^n + Cartesian digits) *)
Section Decode.
  Variable N : Z.
  Hypothesis HN : 0 < N.

  (* order 2: r = (i N + j) 9 + (3 a + b) *)
  Definition d2_i r := (r / 9) / N.
  Definition d2_j r := (r / 9) mod N.
  Definition d2_a r := (r mod 9) / 3.
  Definition d2_b r := (r mod 9) mod 3.
  Lemma decode2 r : 0 <= r ->
    r = (d2_i r * N + d2_j r) * 9 + (d2_a r * 3 + d2_b r) /\ 0 <= d2_i r /\ 0 <= d2_j r < N /\ 0 <= d2_a r < 3 /\ 0 <= d2_b r < 3.
  Proof.
    intros Hr. unfold d2_i, d2_j, d2_a, d2_b.
    pose proof (Z.div_mod r 9 ltac:(lia)) as E1. pose proof (Z.mod_pos_bound r 9 ltac:(lia)) as B1.
    assert (Q1 : 0 <= r / 9) by (apply Z.div_pos; lia).
    pose proof (Z.div_mod (r / 9) N ltac:(lia)) as E2. pose proof (Z.mod_pos_bound (r / 9) N HN) as B2.
    assert (Q2 : 0 <= r / 9 / N) by (apply Z.div_pos; lia).
    pose proof (Z.div_mod (r mod 9) 3 ltac:(lia)) as E3. pose proof (Z.mod_pos_bound (r mod 9) 3 ltac:(lia)) as B3.
    assert (Q3 : 0 <= r mod 9 / 3 < 3) by (split; [apply Z.div_pos; lia | apply Z.div_lt_upper_bound; lia]).
    repeat split; try lia.
    all: rewrite E1 at 1; rewrite E2 at 1; rewrite E3 at 1; ring.
  Qed.

  (* order 3: r = ((i N + j) N + k) 27 + (9 a + 3 b + c) *)
  Definition d3_i r := ((r / 27) / N) / N.
  Definition d3_j r := ((r / 27) / N) mod N.
  Definition d3_k r := (r / 27) mod N.
  Definition d3_a r := (r mod 27) / 9.
  Definition d3_b r := ((r mod 27) mod 9) / 3.
  Definition d3_c r := ((r mod 27) mod 9) mod 3.
  Lemma decode3 r : 0 <= r ->
    r = ((d3_i r * N + d3_j r) * N + d3_k r) * 27 + (d3_a r * 9 + d3_b r * 3 + d3_c r)
    /\ 0 <= d3_i r /\ 0 <= d3_j r < N /\ 0 <= d3_k r < N /\ 0 <= d3_a r < 3 /\ 0 <= d3_b r < 3 /\ 0 <= d3_c r < 3.
  Proof.
    intros Hr. unfold d3_i, d3_j, d3_k, d3_a, d3_b, d3_c.
    pose proof (Z.div_mod r 27 ltac:(lia)) as E1. pose proof (Z.mod_pos_bound r 27 ltac:(lia)) as B1.
    assert (Q1 : 0 <= r / 27) by (apply Z.div_pos; lia).
    pose proof (Z.div_mod (r / 27) N ltac:(lia)) as E2. pose proof (Z.mod_pos_bound (r / 27) N HN) as B2.
    assert (Q2 : 0 <= r / 27 / N) by (apply Z.div_pos; lia).
    pose proof (Z.div_mod (r / 27 / N) N ltac:(lia)) as E3. pose proof (Z.mod_pos_bound (r / 27 / N) N HN) as B3.
    assert (Q3 : 0 <= r / 27 / N / N) by (apply Z.div_pos; lia).
    pose proof (Z.div_mod (r mod 27) 9 ltac:(lia)) as E4. pose proof (Z.mod_pos_bound (r mod 27) 9 ltac:(lia)) as B4.
    assert (Q4 : 0 <= r mod 27 / 9 < 3) by (split; [apply Z.div_pos; lia | apply Z.div_lt_upper_bound; lia]).
    pose proof (Z.div_mod ((r mod 27) mod 9) 3 ltac:(lia)) as E5. pose proof (Z.mod_pos_bound ((r mod 27) mod 9) 3 ltac:(lia)) as B5.
    assert (Q5 : 0 <= (r mod 27) mod 9 / 3 < 3) by (split; [apply Z.div_pos; lia | apply Z.div_lt_upper_bound; lia]).
    repeat split; try lia.
    all: rewrite E1 at 1; rewrite E2 at 1; rewrite E3 at 1; rewrite E4 at 1; rewrite E5 at 1; ring.
  Qed.

  (* order 4: r = (((i N + j) N + k) N + l) 81 + (27 a + 9 b + 3 c + d) *)
  Definition d4_i r := (((r / 81) / N) / N) / N.
  Definition d4_j r := (((r / 81) / N) / N) mod N.
  Definition d4_k r := ((r / 81) / N) mod N.
  Definition d4_l r := (r / 81) mod N.
  Definition d4_a r := (r mod 81) / 27.
  Definition d4_b r := ((r mod 81) mod 27) / 9.
  Definition d4_c r := (((r mod 81) mod 27) mod 9) / 3.
  Definition d4_d r := (((r mod 81) mod 27) mod 9) mod 3.
  Lemma decode4 r : 0 <= r ->
    r = (((d4_i r * N + d4_j r) * N + d4_k r) * N + d4_l r) * 81 + (d4_a r * 27 + d4_b r * 9 + d4_c r * 3 + d4_d r)
    /\ 0 <= d4_i r /\ 0 <= d4_j r < N /\ 0 <= d4_k r < N /\ 0 <= d4_l r < N
    /\ 0 <= d4_a r < 3 /\ 0 <= d4_b r < 3 /\ 0 <= d4_c r < 3 /\ 0 <= d4_d r < 3.
  Proof.
    intros Hr. unfold d4_i, d4_j, d4_k, d4_l, d4_a, d4_b, d4_c, d4_d.
    pose proof (Z.div_mod r 81 ltac:(lia)) as E1. pose proof (Z.mod_pos_bound r 81 ltac:(lia)) as B1.
    assert (Q1 : 0 <= r / 81) by (apply Z.div_pos; lia).
    pose proof (Z.div_mod (r / 81) N ltac:(lia)) as E2. pose proof (Z.mod_pos_bound (r / 81) N HN) as B2.
    assert (Q2 : 0 <= r / 81 / N) by (apply Z.div_pos; lia).
    pose proof (Z.div_mod (r / 81 / N) N ltac:(lia)) as E3. pose proof (Z.mod_pos_bound (r / 81 / N) N HN) as B3.
    assert (Q3 : 0 <= r / 81 / N / N) by (apply Z.div_pos; lia).
    pose proof (Z.div_mod (r / 81 / N / N) N ltac:(lia)) as E3'. pose proof (Z.mod_pos_bound (r / 81 / N / N) N HN) as B3'.
    assert (Q3' : 0 <= r / 81 / N / N / N) by (apply Z.div_pos; lia).
    pose proof (Z.div_mod (r mod 81) 27 ltac:(lia)) as E4. pose proof (Z.mod_pos_bound (r mod 81) 27 ltac:(lia)) as B4.
    assert (Q4 : 0 <= r mod 81 / 27 < 3) by (split; [apply Z.div_pos; lia | apply Z.div_lt_upper_bound; lia]).
    pose proof (Z.div_mod ((r mod 81) mod 27) 9 ltac:(lia)) as E5. pose proof (Z.mod_pos_bound ((r mod 81) mod 27) 9 ltac:(lia)) as B5.
    assert (Q5 : 0 <= (r mod 81) mod 27 / 9 < 3) by (split; [apply Z.div_pos; lia | apply Z.div_lt_upper_bound; lia]).
    pose proof (Z.div_mod (((r mod 81) mod 27) mod 9) 3 ltac:(lia)) as E6. pose proof (Z.mod_pos_bound (((r mod 81) mod 27) mod 9) 3 ltac:(lia)) as B6.
    assert (Q6 : 0 <= ((r mod 81) mod 27) mod 9 / 3 < 3) by (split; [apply Z.div_pos; lia | apply Z.div_lt_upper_bound; lia]).
    repeat split; try lia.
    all: rewrite E1 at 1; rewrite E2 at 1; rewrite E3 at 1; rewrite E3' at 1; rewrite E4 at 1; rewrite E5 at 1; rewrite E6 at 1; ring.
  Qed.
End Decode.

(** * The design blocks *)
Section Design.
  Variables (N nx : Z) (u : Z -> R).
  Hypothesis HN : 0 < N.
  Hypothesis Hnx : 0 < nx.

  Definition entries_ok (M : list entry) : Prop := Forall (fun e => 0 <= erow e /\ 0 <= ecol e < nx) M.

  Lemma reshape_O2_row r c : 0 <= r ->
    reshape_O2 N nx r c = (3 * d2_j N r + d2_b r, (3 * d2_i N r + d2_a r) * nx + c).
  Proof.
    intros Hr. destruct (decode2 N HN r Hr) as (E & Hi & Hj & Ha' & Hb).
    transitivity (reshape_O2 N nx ((d2_i N r * N + d2_j N r) * 9 + (d2_a r * 3 + d2_b r)) c); [f_equal; exact E|].
    apply reshape_O2_spec; assumption.
  Qed.
  Lemma reshape_O3_row r c : 0 <= r ->
    reshape_O3 N nx r c = ((3 * d3_j N r + d3_b r) * (3 * N) + (3 * d3_k N r + d3_c r), (3 * d3_i N r + d3_a r) * nx + c).
  Proof.
    intros Hr. destruct (decode3 N HN r Hr) as (E & Hi & Hj & Hk & Ha' & Hb & Hc').
    transitivity (reshape_O3 N nx (((d3_i N r * N + d3_j N r) * N + d3_k N r) * 27 + (d3_a r * 9 + d3_b r * 3 + d3_c r)) c); [f_equal; exact E|].
    apply reshape_O3_spec; assumption.
  Qed.
  Lemma reshape_O4_row r c : 0 <= r ->
    reshape_O4 N nx r c = (((3 * d4_j N r + d4_b r) * (3 * N) + (3 * d4_k N r + d4_c r)) * (3 * N) + (3 * d4_l N r + d4_d r),
                           (3 * d4_i N r + d4_a r) * nx + c).
  Proof.
    intros Hr. destruct (decode4 N HN r Hr) as (E & Hi & Hj & Hk & Hl & Ha' & Hb & Hc' & Hd).
    transitivity (reshape_O4 N nx ((((d4_i N r * N + d4_j N r) * N + d4_k N r) * N + d4_l N r) * 81 + (d4_a r * 27 + d4_b r * 9 + d4_c r * 3 + d4_d r)) c); [f_equal; exact E|].
    apply reshape_O4_spec; assumption.
  Qed.

  (** order 2: X2 = u @ reshape_O2(M) *)
  Theorem design_O2 M i a x : entries_ok M -> 0 <= x < nx -> 0 <= a < 3 ->
    dense_times_coo u (reshape_entries (reshape_O2 N nx) M) ((3 * i + a) * nx + x)
    = rsumf (fun e => if (ecol e =? x) && (d2_i N (erow e) =? i) && (d2_a (erow e) =? a)
                      then (u (3 * d2_j N (erow e) + d2_b (erow e)) * eval e)%R else 0%R) M.
  Proof.
    intros HM Hx Ha. unfold dense_times_coo, reshape_entries. rewrite rsumf_map.
    apply rsumf_ext. intros e He. unfold entries_ok in HM. rewrite Forall_forall in HM. destruct (HM e He) as [Hr Hc].
    destruct e as [[r c] v]. cbn [erow ecol eval fst snd] in *.
    destruct (decode2 N HN r Hr) as (E & Hi & Hj & Ha' & Hb).
    rewrite reshape_O2_row by exact Hr. cbn [erow ecol eval fst snd].
    rewrite col_eqb by assumption.
    reflexivity.
  Qed.

  (** order 3: X3 = (u (x) u) @ reshape_O3(M) *)
  Theorem design_O3 M i a x : entries_ok M -> 0 <= x < nx -> 0 <= a < 3 ->
    dense_times_coo (disps_2nd (3 * N) u) (reshape_entries (reshape_O3 N nx) M) ((3 * i + a) * nx + x)
    = rsumf (fun e => if (ecol e =? x) && (d3_i N (erow e) =? i) && (d3_a (erow e) =? a)
                      then (u (3 * d3_j N (erow e) + d3_b (erow e)) * u (3 * d3_k N (erow e) + d3_c (erow e)) * eval e)%R else 0%R) M.
  Proof.
    intros HM Hx Ha. unfold dense_times_coo, reshape_entries. rewrite rsumf_map.
    apply rsumf_ext. intros e He. unfold entries_ok in HM. rewrite Forall_forall in HM. destruct (HM e He) as [Hr Hc].
    destruct e as [[r c] v]. cbn [erow ecol eval fst snd] in *.
    destruct (decode3 N HN r Hr) as (E & Hi & Hj & Hk & Ha' & Hb & Hc').
    rewrite reshape_O3_row by exact Hr. cbn [erow ecol eval fst snd].
    rewrite col_eqb by assumption.
    unfold disps_2nd.
    destruct (zdigit2 (3 * N) (3 * d3_j N r + d3_b r) (3 * d3_k N r + d3_c r)) as [D1 D2]; [lia | lia |].
    rewrite D1, D2. reflexivity.
  Qed.

  (** order 4: X4 = (u (x) u (x) u) @ reshape_O4(M) *)
  Theorem design_O4 M i a x : entries_ok M -> 0 <= x < nx -> 0 <= a < 3 ->
    dense_times_coo (disps_3rd (3 * N) u) (reshape_entries (reshape_O4 N nx) M) ((3 * i + a) * nx + x)
    = rsumf (fun e => if (ecol e =? x) && (d4_i N (erow e) =? i) && (d4_a (erow e) =? a)
                      then (u (3 * d4_j N (erow e) + d4_b (erow e)) * u (3 * d4_k N (erow e) + d4_c (erow e))
                            * u (3 * d4_l N (erow e) + d4_d (erow e)) * eval e)%R else 0%R) M.
  Proof.
    intros HM Hx Ha. unfold dense_times_coo, reshape_entries. rewrite rsumf_map.
    apply rsumf_ext. intros e He. unfold entries_ok in HM. rewrite Forall_forall in HM. destruct (HM e He) as [Hr Hc].
    destruct e as [[r c] v]. cbn [erow ecol eval fst snd] in *.
    destruct (decode4 N HN r Hr) as (E & Hi & Hj & Hk & Hl & Ha' & Hb & Hc' & Hd).
    rewrite reshape_O4_row by exact Hr. cbn [erow ecol eval fst snd].
    rewrite col_eqb by assumption.
    unfold disps_3rd.
    destruct (zdigit3 (3 * N) (3 * d4_j N r + d4_b r) (3 * d4_k N r + d4_c r) (3 * d4_l N r + d4_d r)) as (D1 & D2 & D3); [lia | lia | lia |].
    rewrite D1, D2, D3. reflexivity.
  Qed.

  (** the variant of the (3,4) and (2,3,4) solvers, which reuse the second-order products *)
  Corollary design_O4_from_2nd M i a x : entries_ok M -> 0 <= x < nx -> 0 <= a < 3 ->
    dense_times_coo (disps_3rd_from_2nd (3 * N) (disps_2nd (3 * N) u) u) (reshape_entries (reshape_O4 N nx) M) ((3 * i + a) * nx + x)
    = dense_times_coo (disps_3rd (3 * N) u) (reshape_entries (reshape_O4 N nx) M) ((3 * i + a) * nx + x).
  Proof.
    intros _ _ _. unfold dense_times_coo. apply rsumf_ext. intros e _.
    rewrite disps_3rd_from_2nd_eq by lia. reflexivity.
  Qed.
End Design.

(** * Row gather  compact[decompr_idx]  in entry form *)
Definition zrange (n : nat) : list Z := map Z.of_nat (seq 0 n).

Definition gather (n : nat) (idx : Z -> Z) (M : list entry) : list entry :=
  flat_map (fun r' => map (fun e => ((r', ecol e), eval e)) (filter (fun e => erow e =? idx r') M)) (zrange n).

Lemma rsumf_flat_map {A B : Type} (h : A -> list B) (f : B -> R) l :
  rsumf f (flat_map h l) = rsumf (fun x => rsumf f (h x)) l.
Proof. induction l as [|x l IH]; cbn [rsumf flat_map]; [reflexivity | rewrite rsumf_app, IH; reflexivity]. Qed.

Lemma rsumf_gather n idx M (f : entry -> R) :
  rsumf f (gather n idx M)
  = rsumf (fun r' => rsumf (fun e => if erow e =? idx r' then f ((r', ecol e), eval e) else 0%R) M) (zrange n).
Proof.
  unfold gather. rewrite rsumf_flat_map. apply rsumf_ext. intros r' _.
  rewrite rsumf_map, rsumf_filter. reflexivity.
Qed.

Lemma gather_entries_ok nx n idx M : Forall (fun e => 0 <= ecol e < nx) M -> entries_ok nx (gather n idx M).
Proof.
  intros H. unfold entries_ok, gather. rewrite Forall_forall. intros e He.
  apply in_flat_map in He. destruct He as (r' & Hr' & He). apply in_map_iff in He. destruct He as (e0 & <- & He0).
  apply filter_In in He0. destruct He0 as [He0 _]. rewrite Forall_forall in H. specialize (H e0 He0).
  unfold zrange in Hr'. apply in_map_iff in Hr'. destruct Hr' as (k & <- & _).
  unfold erow, ecol. cbn [fst snd]. split; [lia | exact H].
Qed.

(** * The glue, order by order: the design entry of force component (begin_i + i, a) and compressed column x is the
    contraction of column x of the compact matrix (rows addressed through atomic_decompr_idx) with u. *)
Section Glue.
  Variables (N nx : Z) (u : Z -> R) (aidx : Z -> Z) (begin_i : Z) (Mc : list entry).
  Hypothesis HN : 0 < N.
  Hypothesis Hnx : 0 < nx.
  Hypothesis Hcols : Forall (fun e => 0 <= ecol e < nx) Mc.

  Theorem taylor_row_O2 (nrows : nat) i a x : 0 <= x < nx -> 0 <= a < 3 ->
    dense_times_coo u (reshape_entries (reshape_O2 N nx) (gather nrows (gather_row 9 N aidx begin_i) Mc)) ((3 * i + a) * nx + x)
    = rsumf (fun r => if (d2_i N r =? i) && (d2_a r =? a) then
               (u (3 * d2_j N r + d2_b r) *
                rsumf (fun e => if (erow e =? gather_row 9 N aidx begin_i r) && (ecol e =? x) then eval e else 0%R) Mc)%R
             else 0%R) (zrange nrows).
  Proof.
    intros Hx Ha. rewrite design_O2; [| first [assumption | apply gather_entries_ok; assumption] ..].
    rewrite rsumf_gather. apply rsumf_ext. intros r _.
    destruct ((d2_i N r =? i) && (d2_a r =? a)) eqn:Eb.
    - rewrite <- rsumf_scale. apply rsumf_ext. intros e _. unfold erow at 2 3 4 5, ecol at 1, eval at 1. cbn [fst snd].
      destruct (erow e =? _); cbn [andb]; [|lra]. destruct (ecol e =? x); cbn [andb]; [|lra]. rewrite Eb. reflexivity.
    - transitivity (rsumf (fun _ : entry => 0%R) Mc).
      + apply rsumf_ext. intros e _. unfold erow at 2 3 4 5, ecol at 1, eval at 1. cbn [fst snd].
        destruct (erow e =? _); [|reflexivity]. destruct (ecol e =? x); cbn [andb]; [|reflexivity]. rewrite Eb. reflexivity.
      + clear. induction Mc as [|e l IH]; cbn [rsumf]; [reflexivity | rewrite IH; lra].
  Qed.

  Theorem taylor_row_O3 (nrows : nat) i a x : 0 <= x < nx -> 0 <= a < 3 ->
    dense_times_coo (disps_2nd (3 * N) u) (reshape_entries (reshape_O3 N nx) (gather nrows (gather_row 27 (N * N) aidx begin_i) Mc)) ((3 * i + a) * nx + x)
    = rsumf (fun r => if (d3_i N r =? i) && (d3_a r =? a) then
               (u (3 * d3_j N r + d3_b r) * u (3 * d3_k N r + d3_c r) *
                rsumf (fun e => if (erow e =? gather_row 27 (N * N) aidx begin_i r) && (ecol e =? x) then eval e else 0%R) Mc)%R
             else 0%R) (zrange nrows).
  Proof.
    intros Hx Ha. rewrite design_O3; [| first [assumption | apply gather_entries_ok; assumption] ..].
    rewrite rsumf_gather. apply rsumf_ext. intros r _.
    destruct ((d3_i N r =? i) && (d3_a r =? a)) eqn:Eb.
    - rewrite <- rsumf_scale. apply rsumf_ext. intros e _. unfold erow at 2 3 4 5 6 7, ecol at 1, eval at 1. cbn [fst snd].
      destruct (erow e =? _); cbn [andb]; [|lra]. destruct (ecol e =? x); cbn [andb]; [|lra]. rewrite Eb. reflexivity.
    - transitivity (rsumf (fun _ : entry => 0%R) Mc).
      + apply rsumf_ext. intros e _. unfold erow at 2 3 4 5 6 7, ecol at 1, eval at 1. cbn [fst snd].
        destruct (erow e =? _); [|reflexivity]. destruct (ecol e =? x); cbn [andb]; [|reflexivity]. rewrite Eb. reflexivity.
      + clear. induction Mc as [|e l IH]; cbn [rsumf]; [reflexivity | rewrite IH; lra].
  Qed.

  Theorem taylor_row_O4 (nrows : nat) i a x : 0 <= x < nx -> 0 <= a < 3 ->
    dense_times_coo (disps_3rd (3 * N) u) (reshape_entries (reshape_O4 N nx) (gather nrows (gather_row 81 (N * N * N) aidx begin_i) Mc)) ((3 * i + a) * nx + x)
    = rsumf (fun r => if (d4_i N r =? i) && (d4_a r =? a) then
               (u (3 * d4_j N r + d4_b r) * u (3 * d4_k N r + d4_c r) * u (3 * d4_l N r + d4_d r) *
                rsumf (fun e => if (erow e =? gather_row 81 (N * N * N) aidx begin_i r) && (ecol e =? x) then eval e else 0%R) Mc)%R
             else 0%R) (zrange nrows).
  Proof.
    intros Hx Ha. rewrite design_O4; [| first [assumption | apply gather_entries_ok; assumption] ..].
    rewrite rsumf_gather. apply rsumf_ext. intros r _.
    destruct ((d4_i N r =? i) && (d4_a r =? a)) eqn:Eb.
    - rewrite <- rsumf_scale. apply rsumf_ext. intros e _. unfold erow at 2 3 4 5 6 7 8 9, ecol at 1, eval at 1. cbn [fst snd].
      destruct (erow e =? _); cbn [andb]; [|lra]. destruct (ecol e =? x); cbn [andb]; [|lra]. rewrite Eb. reflexivity.
    - transitivity (rsumf (fun _ : entry => 0%R) Mc).
      + apply rsumf_ext. intros e _. unfold erow at 2 3 4 5 6 7 8 9, ecol at 1, eval at 1. cbn [fst snd].
        destruct (erow e =? _); [|reflexivity]. destruct (ecol e =? x); cbn [andb]; [|reflexivity]. rewrite Eb. reflexivity.
      + clear. induction Mc as [|e l IH]; cbn [rsumf]; [reflexivity | rewrite IH; lra].
  Qed.
End Glue.
