(** Theorems about the *translated* [get_batch_slice] (gen/BatchGen.v): for every data size and every
    positive batch size the slices partition [0, n) into consecutive non-empty intervals, and cutting a
    list along them and concatenating the pieces gives the list back.  Batch size 0 is the ValueError
    case of Python's range(). *)
From Coq Require Import ZArith List Bool Lia ZifyBool.
Import ListNotations.
From SymfcV Require Import PyPrelude.
From SymfcG Require Import BatchGen.
Open Scope Z_scope.
Ltac Zify.zify_post_hook ::= Z.to_euclidean_division_equations.

(** Number of batches: ceil(n / b). *)
Definition n_batches (n b : Z) : Z := if n >? 0 then (n + b - 1) / b else 0.

Definition slices_spec (n b : Z) (bs es : list Z) : Prop :=
  Z.of_nat (length bs) = n_batches n b /\
  (length bs <= length es)%nat /\
  forall k, (k < length bs)%nat ->
    nth k bs 0 = b * Z.of_nat k /\ nth k es 0 = Z.min (b * (Z.of_nat k + 1)) n.

Lemma py_range_len_0 n b : 0 < b -> py_range_len 0 n b = n_batches n b.
Proof.
  intros Hb. unfold py_range_len, n_batches.
  destruct (b >? 0) eqn:E; [|lia].
  destruct (n >? 0) eqn:E2; [|reflexivity]. f_equal. lia.
Qed.

Lemma n_batches_nonneg n b : 0 < b -> 0 <= n_batches n b.
Proof.
  intros Hb. unfold n_batches. destruct (n >? 0) eqn:E; [|lia]. apply Z.div_pos; lia.
Qed.

Lemma n_batches_bounds n b : 0 < b -> 0 < n ->
  b * (n_batches n b - 1) < n /\ n <= b * n_batches n b.
Proof.
  intros Hb Hn. unfold n_batches. destruct (n >? 0) eqn:E; [|lia]. lia.
Qed.

Theorem get_batch_slice_zero n : get_batch_slice n 0 = Err ValueError.
Proof. reflexivity. Qed.

Theorem get_batch_slice_spec n b :
  0 <= n -> 0 < b ->
  exists bs es, get_batch_slice n b = Ok (bs, es) /\ slices_spec n b bs es.
Proof.
  intros Hn Hb. unfold get_batch_slice.
  destruct (b =? 0) eqn:Eb; [lia|].
  set (bs := py_range 0 n b).
  assert (Hlen : Z.of_nat (length bs) = n_batches n b).
  { unfold bs. rewrite py_range_length, py_range_len_0 by exact Hb.
    rewrite Z2Nat.id by (apply n_batches_nonneg; exact Hb). reflexivity. }
  assert (Hnth : forall k, (k < length bs)%nat -> nth k bs 0 = b * Z.of_nat k).
  { intros k Hk. unfold bs in *. rewrite py_range_nth by exact Hk. lia. }
  unfold py_len. destruct (Z.of_nat (length bs) >? 1) eqn:E.
  - exists bs, (py_slice_from bs 1 ++ [n]). split; [reflexivity|].
    assert (Hpos : 0 < n) by (unfold n_batches in Hlen; destruct (n >? 0) eqn:E3; lia).
    destruct (n_batches_bounds n b Hb Hpos) as [Hlo Hhi].
    unfold py_slice_from. change (Z.to_nat 1) with 1%nat.
    assert (Hsk : length (skipn 1 bs) = (length bs - 1)%nat) by apply skipn_length.
    split; [exact Hlen|]. split.
    + rewrite app_length, Hsk. simpl. lia.
    + intros k Hk. split; [apply Hnth; exact Hk|].
      destruct (Nat.lt_ge_cases k (length bs - 1)) as [Hlt|Hge].
      * rewrite app_nth1 by (rewrite Hsk; exact Hlt).
        rewrite nth_skipn_add. rewrite Hnth by lia.
        assert (b * (Z.of_nat k + 1) <= b * (n_batches n b - 1)) by (apply Z.mul_le_mono_nonneg_l; lia).
        replace (Z.of_nat (1 + k)) with (Z.of_nat k + 1) by lia. lia.
      * rewrite app_nth2 by (rewrite Hsk; lia).
        rewrite Hsk. replace (k - (length bs - 1))%nat with 0%nat by lia. simpl.
        assert (Z.of_nat k + 1 = n_batches n b) by lia.
        replace (Z.of_nat k + 1) with (n_batches n b) by lia. lia.
  - exists bs, [n]. split; [reflexivity|]. split; [exact Hlen|]. split.
    + simpl. lia.
    + intros k Hk. split; [apply Hnth; exact Hk|].
      assert (k = 0)%nat by lia. subst k. simpl.
      assert (Hpos : 0 < n) by (unfold n_batches in Hlen; destruct (n >? 0) eqn:E3; lia).
      destruct (n_batches_bounds n b Hb Hpos) as [Hlo Hhi].
      assert (n_batches n b = 1) by lia.
      replace (n_batches n b) with 1 in *. lia.
Qed.

(** Consequences of the specification. *)
Lemma slices_nonempty n b bs es k :
  0 < b -> slices_spec n b bs es -> (k < length bs)%nat -> nth k bs 0 < nth k es 0.
Proof.
  intros Hb [Hlen [_ H]] Hk. destruct (H k Hk) as [H1 H2]. rewrite H1, H2.
  assert (Hpos : 0 < n) by (unfold n_batches in Hlen; destruct (n >? 0) eqn:E3; lia).
  destruct (n_batches_bounds n b Hb Hpos) as [Hlo Hhi].
  assert (b * Z.of_nat k <= b * (n_batches n b - 1)) by (apply Z.mul_le_mono_nonneg_l; lia).
  lia.
Qed.

Lemma slices_consecutive n b bs es k :
  0 < b -> slices_spec n b bs es -> (S k < length bs)%nat -> nth k es 0 = nth (S k) bs 0.
Proof.
  intros Hb [Hlen [_ H]] Hk.
  destruct (H k ltac:(lia)) as [_ H2]. destruct (H (S k) Hk) as [H3 _]. rewrite H2, H3.
  assert (Hpos : 0 < n) by (unfold n_batches in Hlen; destruct (n >? 0) eqn:E3; lia).
  destruct (n_batches_bounds n b Hb Hpos) as [Hlo Hhi].
  assert (b * Z.of_nat (S k) <= b * (n_batches n b - 1)) by (apply Z.mul_le_mono_nonneg_l; lia).
  lia.
Qed.

Lemma slices_first n b bs es : slices_spec n b bs es -> (0 < length bs)%nat -> nth 0 bs 0 = 0.
Proof. intros [_ [_ H]] Hk. destruct (H 0%nat Hk) as [H1 _]. rewrite H1. lia. Qed.

Lemma slices_last n b bs es :
  0 < b -> slices_spec n b bs es -> (0 < length bs)%nat -> nth (length bs - 1) es 0 = n.
Proof.
  intros Hb [Hlen [_ H]] Hk. destruct (H (length bs - 1)%nat ltac:(lia)) as [_ H2]. rewrite H2.
  assert (Hpos : 0 < n) by (unfold n_batches in Hlen; destruct (n >? 0) eqn:E3; lia).
  destruct (n_batches_bounds n b Hb Hpos) as [Hlo Hhi].
  replace (Z.of_nat (length bs - 1) + 1) with (n_batches n b) by lia. lia.
Qed.

Lemma slices_empty_data b bs es : 0 < b -> slices_spec 0 b bs es -> bs = [].
Proof.
  intros Hb [Hlen _]. unfold n_batches in Hlen. simpl in Hlen. destruct bs; [reflexivity|simpl in Hlen; lia].
Qed.

(** Cutting a list along the slices and concatenating gives the list back: nothing is dropped,
    duplicated or reordered by any batch loop of the form
    [for begin, end in zip( *get_batch_slice(n, b)): use(data[begin:end])]. *)
Definition segment {A} (l : list A) (b e : Z) : list A := firstn (Z.to_nat (e - b)) (skipn (Z.to_nat b) l).

Fixpoint zip {A B} (l1 : list A) (l2 : list B) : list (A * B) :=
  match l1, l2 with
  | x :: l1', y :: l2' => (x, y) :: zip l1' l2'
  | _, _ => []
  end.

Definition batches {A} (l : list A) (bs es : list Z) : list (list A) :=
  map (fun be => segment l (fst be) (snd be)) (zip bs es).

(** Generic statement over begin/end lists that chain from [a] to the end of the list. *)
Lemma concat_segments {A} (l : list A) : forall (bs es : list Z) (a : Z),
  0 <= a ->
  (length bs <= length es)%nat ->
  (forall k, (k < length bs)%nat -> nth k bs 0 <= nth k es 0) ->
  (forall k, (S k < length bs)%nat -> nth k es 0 = nth (S k) bs 0) ->
  (0 < length bs)%nat -> nth 0 bs 0 = a ->
  concat (batches l bs es) = segment l a (nth (length bs - 1) es 0).
Proof.
  induction bs as [|b0 bs IH]; intros es a Ha Hle Hne Hcons Hpos H0; [simpl in Hpos; lia|].
  destruct es as [|e0 es]; [simpl in Hle; lia|].
  simpl in H0. subst b0.
  destruct bs as [|b1 bs].
  - simpl. rewrite app_nil_r. reflexivity.
  - assert (He0 : e0 = b1) by (apply (Hcons 0%nat); simpl; lia).
    assert (Hae : a <= e0) by (apply (Hne 0%nat); simpl; lia).
    unfold batches in *. cbn [zip map concat fst snd].
    specialize (IH es e0 ltac:(lia)).
    rewrite He0 in IH at 1.
    cbn [zip map concat fst snd] in IH.
    subst b1.
    rewrite IH; clear IH.
    + replace (length (a :: e0 :: bs) - 1)%nat with (S (length (e0 :: bs) - 1)) by (simpl; lia).
      cbn [nth].
      set (e := nth (length (e0 :: bs) - 1) es 0).
      assert (He : e0 <= e).
      { unfold e. clear - Hne Hcons Hle.
        (* monotone chain *)
        assert (forall k, (k < length (e0 :: bs))%nat -> e0 <= nth k es 0).
        { induction k as [|k IHk]; intros Hk.
          - specialize (Hne 1%nat ltac:(simpl; lia)). simpl in Hne. exact Hne.
          - specialize (IHk ltac:(lia)).
            pose proof (Hcons (S k) ltac:(simpl in *; lia)) as Hc. cbn [nth] in Hc.
            pose proof (Hne (S (S k)) ltac:(simpl in *; lia)) as Hn. cbn [nth] in Hn. lia. }
        apply H. simpl. lia. }
      unfold segment.
      replace (Z.to_nat (e - a)) with (Z.to_nat (e0 - a) + Z.to_nat (e - e0))%nat by lia.
      replace (Z.to_nat e0) with (Z.to_nat a + Z.to_nat (e0 - a))%nat by lia.
      rewrite <- skipn_skipn'.
      set (l' := skipn (Z.to_nat a) l).
      rewrite <- (firstn_skipn (Z.to_nat (e0 - a)) l') at 3.
      rewrite firstn_app.
      rewrite firstn_firstn.
      replace (Init.Nat.min (Z.to_nat (e0 - a) + Z.to_nat (e - e0)) (Z.to_nat (e0 - a))) with (Z.to_nat (e0 - a)) by lia.
      f_equal.
      rewrite firstn_length.
      destruct (Nat.le_gt_cases (Z.to_nat (e0 - a)) (length l')) as [Hl|Hl].
      * replace (Z.to_nat (e0 - a) + Z.to_nat (e - e0) - Init.Nat.min (Z.to_nat (e0 - a)) (length l'))%nat
          with (Z.to_nat (e - e0)) by lia. reflexivity.
      * rewrite (skipn_all2 l') by lia. rewrite !firstn_nil. reflexivity.
    + simpl in Hle |- *. lia.
    + intros k Hk. apply (Hne (S k)). simpl in *. lia.
    + intros k Hk. apply (Hcons (S k)). simpl in *. lia.
    + simpl. lia.
    + reflexivity.
Qed.

Theorem batches_concat {A} (l : list A) b :
  0 < b ->
  exists bs es, get_batch_slice (Z.of_nat (length l)) b = Ok (bs, es) /\ concat (batches l bs es) = l.
Proof.
  intros Hb.
  destruct (get_batch_slice_spec (Z.of_nat (length l)) b ltac:(lia) Hb) as [bs [es [Heq Hspec]]].
  exists bs, es. split; [exact Heq|].
  destruct bs as [|b0 bs'] eqn:Ebs.
  - (* no batches: n = 0 *)
    destruct Hspec as [Hlen _]. simpl in Hlen. unfold n_batches in Hlen.
    destruct (Z.of_nat (length l) >? 0) eqn:E.
    + assert (0 < Z.of_nat (length l)) by lia.
      pose proof (n_batches_bounds (Z.of_nat (length l)) b Hb H) as [_ Hhi].
      unfold n_batches in Hhi. rewrite E in Hhi. lia.
    + destruct l as [|a0 l0]; [reflexivity | exfalso; cbn [length] in E; rewrite Nat2Z.inj_succ in E; lia].
  - rewrite <- Ebs in *.
    assert (Hpos : (0 < length bs)%nat) by (rewrite Ebs; simpl; lia).
    rewrite (concat_segments l bs es 0).
    + rewrite (slices_last _ _ _ _ Hb Hspec Hpos). unfold segment. simpl.
      rewrite Z.sub_0_r, Nat2Z.id. apply firstn_all.
    + lia.
    + destruct Hspec as [_ [Hle _]]. exact Hle.
    + intros k Hk. pose proof (slices_nonempty _ _ _ _ k Hb Hspec Hk). lia.
    + intros k Hk. apply (slices_consecutive _ _ _ _ k Hb Hspec Hk).
    + exact Hpos.
    + apply (slices_first _ _ _ _ Hspec Hpos).
Qed.

(** Non-vacuity: concrete instances, including n divisible by b and b > n. *)
Example batch_ex1 : get_batch_slice 10 3 = Ok ([0; 3; 6; 9], [3; 6; 9; 10]).
Proof. reflexivity. Qed.
Example batch_ex2 : get_batch_slice 9 3 = Ok ([0; 3; 6], [3; 6; 9]).
Proof. reflexivity. Qed.
Example batch_ex3 : get_batch_slice 2 5 = Ok ([0], [2]).
Proof. reflexivity. Qed.
Example batch_ex4 : get_batch_slice 0 5 = Ok ([], [0]).
Proof. reflexivity. Qed.
