(** The search box of the minimum-image oracle (harness/reference.py::min_image_distances) is complete.

    Lattice rows b1 b2 b3, dual vectors d1 d2 d3 (d_k . b_l = delta_kl).  If v = t1 b1 + t2 b2 + t3 b3 then
    t_k = v . d_k, hence t_k^2 <= |v|^2 |d_k|^2 (Cauchy-Schwarz): every lattice image at distance <= d0 has
    coefficients within d0 |d_k| of the reference point, for every lattice (sheared, needle-shaped, unreduced). *)
From Coq Require Import Reals Lra Psatz.
Open Scope R_scope.

Definition v3 := (R * R * R)%type.
Definition dot3 (a b : v3) : R := let '(a1, a2, a3) := a in let '(b1, b2, b3) := b in a1 * b1 + a2 * b2 + a3 * b3.
Definition comb3 (t1 t2 t3 : R) (b1 b2 b3 : v3) : v3 :=
  let '(x1, y1, z1) := b1 in let '(x2, y2, z2) := b2 in let '(x3, y3, z3) := b3 in
  (t1 * x1 + t2 * x2 + t3 * x3, t1 * y1 + t2 * y2 + t3 * y3, t1 * z1 + t2 * z2 + t3 * z3).

Lemma cauchy_schwarz3 a b : (dot3 a b) ^ 2 <= dot3 a a * dot3 b b.
Proof.
  destruct a as [[a1 a2] a3], b as [[b1 b2] b3]. unfold dot3.
  assert (E : (a1 * a1 + a2 * a2 + a3 * a3) * (b1 * b1 + b2 * b2 + b3 * b3) - (a1 * b1 + a2 * b2 + a3 * b3) ^ 2
              = (a1 * b2 - a2 * b1) ^ 2 + (a1 * b3 - a3 * b1) ^ 2 + (a2 * b3 - a3 * b2) ^ 2) by ring.
  pose proof (pow2_ge_0 (a1 * b2 - a2 * b1)). pose proof (pow2_ge_0 (a1 * b3 - a3 * b1)). pose proof (pow2_ge_0 (a2 * b3 - a3 * b2)).
  lra.
Qed.

Lemma dot3_comb t1 t2 t3 b1 b2 b3 d :
  dot3 (comb3 t1 t2 t3 b1 b2 b3) d = t1 * dot3 b1 d + t2 * dot3 b2 d + t3 * dot3 b3 d.
Proof. destruct b1 as [[x1 y1] z1], b2 as [[x2 y2] z2], b3 as [[x3 y3] z3], d as [[p q] r]. unfold dot3, comb3. ring. Qed.

Section Box.
  Variables b1 b2 b3 d1 d2 d3 : v3.
  Hypothesis D11 : dot3 b1 d1 = 1.  Hypothesis D21 : dot3 b2 d1 = 0.  Hypothesis D31 : dot3 b3 d1 = 0.
  Hypothesis D12 : dot3 b1 d2 = 0.  Hypothesis D22 : dot3 b2 d2 = 1.  Hypothesis D32 : dot3 b3 d2 = 0.
  Hypothesis D13 : dot3 b1 d3 = 0.  Hypothesis D23 : dot3 b2 d3 = 0.  Hypothesis D33 : dot3 b3 d3 = 1.

  Theorem coefficient_bound t1 t2 t3 (r : R) :
    let v := comb3 t1 t2 t3 b1 b2 b3 in
    dot3 v v <= r ^ 2 ->
    t1 ^ 2 <= r ^ 2 * dot3 d1 d1 /\ t2 ^ 2 <= r ^ 2 * dot3 d2 d2 /\ t3 ^ 2 <= r ^ 2 * dot3 d3 d3.
  Proof.
    intros v Hv.
    assert (E1 : dot3 v d1 = t1) by (unfold v; rewrite dot3_comb, D11, D21, D31; ring).
    assert (E2 : dot3 v d2 = t2) by (unfold v; rewrite dot3_comb, D12, D22, D32; ring).
    assert (E3 : dot3 v d3 = t3) by (unfold v; rewrite dot3_comb, D13, D23, D33; ring).
    pose proof (cauchy_schwarz3 v d1) as C1. pose proof (cauchy_schwarz3 v d2) as C2. pose proof (cauchy_schwarz3 v d3) as C3.
    rewrite E1 in C1. rewrite E2 in C2. rewrite E3 in C3.
    assert (P1 : 0 <= dot3 d1 d1) by (destruct d1 as [[p q] s]; unfold dot3; nra).
    assert (P2 : 0 <= dot3 d2 d2) by (destruct d2 as [[p q] s]; unfold dot3; nra).
    assert (P3 : 0 <= dot3 d3 d3) by (destruct d3 as [[p q] s]; unfold dot3; nra).
    repeat split; nra.
  Qed.

  (** the form used by the oracle: a candidate s - t (s the wrapped fractional difference, t integers) that is at
      least as short as the reference distance r has  |s_k - t_k| <= r |d_k|  in every component *)
  Corollary search_box_complete s1 s2 s3 t1 t2 t3 (r : R) : 0 <= r ->
    let v := comb3 (s1 - t1) (s2 - t2) (s3 - t3) b1 b2 b3 in
    dot3 v v <= r ^ 2 ->
    Rabs (s1 - t1) <= r * sqrt (dot3 d1 d1) /\ Rabs (s2 - t2) <= r * sqrt (dot3 d2 d2) /\ Rabs (s3 - t3) <= r * sqrt (dot3 d3 d3).
  Proof.
    intros Hr v Hv. destruct (coefficient_bound _ _ _ r Hv) as (H1 & H2 & H3).
    assert (P1 : 0 <= dot3 d1 d1) by (destruct d1 as [[p q] s]; unfold dot3; nra).
    assert (P2 : 0 <= dot3 d2 d2) by (destruct d2 as [[p q] s]; unfold dot3; nra).
    assert (P3 : 0 <= dot3 d3 d3) by (destruct d3 as [[p q] s]; unfold dot3; nra).
    assert (G : forall x n, 0 <= n -> x ^ 2 <= r ^ 2 * n -> Rabs x <= r * sqrt n).
    { intros x n Hn Hx. rewrite <- sqrt_Rsqr_abs.
      replace (r * sqrt n) with (sqrt (r ^ 2 * n)) by (rewrite sqrt_mult by nra; rewrite sqrt_pow2 by exact Hr; reflexivity).
      apply sqrt_le_1_alt. unfold Rsqr. nra. }
    repeat split; apply G; assumption.
  Qed.
End Box.
