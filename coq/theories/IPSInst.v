(** The axioms of [IPS] are satisfiable: R, products, hence R^n (nested pairs: no functional extensionality
    needed), and a concrete compression / projector pair meeting the hypotheses of the eigen-space theorems.
    (Non-vacuity of the abstract linear-algebra theorems of IPS.v, GroupAvg.v, EigModel.v.) *)
From Coq Require Import Reals Lra Psatz.
From SymfcV Require Import IPS.
Open Scope R_scope.

Definition R_IPS : IPS.
Proof.
  refine {| V := R; vadd := Rplus; vscale := Rmult; vzero := 0; ip := Rmult |}; intros; try ring.
  - nra.
  - nra.
Defined.

Definition prod_IPS (A B : IPS) : IPS.
Proof.
  refine {| V := (A * B)%type;
            vadd := fun x y => (vadd (fst x) (fst y), vadd (snd x) (snd y));
            vscale := fun a x => (vscale a (fst x), vscale a (snd x));
            vzero := (vzero, vzero);
            ip := fun x y => ip (fst x) (fst y) + ip (snd x) (snd y) |}.
  - intros [x1 x2] [y1 y2]; cbn [fst snd]. rewrite (vadd_comm x1), (vadd_comm x2). reflexivity.
  - intros [x1 x2] [y1 y2] [z1 z2]; cbn [fst snd]. rewrite !vadd_assoc. reflexivity.
  - intros [x1 x2]; cbn [fst snd]. rewrite !vadd_zero. reflexivity.
  - intros [x1 x2]; cbn [fst snd]. rewrite !vadd_neg. reflexivity.
  - intros [x1 x2]; cbn [fst snd]. rewrite !vscale_one. reflexivity.
  - intros a [x1 x2] [y1 y2]; cbn [fst snd]. rewrite !vscale_add. reflexivity.
  - intros a b [x1 x2]; cbn [fst snd]. rewrite !vscale_scale. reflexivity.
  - intros [x1 x2] [y1 y2]; cbn [fst snd]. rewrite (ip_sym x1), (ip_sym x2). reflexivity.
  - intros [x1 x2] [y1 y2] [z1 z2]; cbn [fst snd]. rewrite !ip_add_l. lra.
  - intros a [x1 x2] [y1 y2]; cbn [fst snd]. rewrite !ip_scale_l. lra.
  - intros [x1 x2]; cbn [fst snd]. pose proof (ip_pos x1). pose proof (ip_pos x2). lra.
  - intros [x1 x2]; cbn [fst snd]. intros H. pose proof (ip_pos x1) as P1. pose proof (ip_pos x2) as P2.
    assert (E1 : ip x1 x1 = 0) by lra. assert (E2 : ip x2 x2 = 0) by lra.
    rewrite (ip_def x1 E1), (ip_def x2 E2). reflexivity.
Defined.

Fixpoint pow_IPS (n : nat) : IPS := match n with O => R_IPS | S n' => prod_IPS R_IPS (pow_IPS n') end.

(** a compression with orthonormal column: y |-> (y/sqrt 2, y/sqrt 2), its transpose, and the projector onto the
    first coordinate axis and onto the diagonal *)
Definition s2 : R := / sqrt 2.
Lemma s2_sq : s2 * s2 = / 2.
Proof. unfold s2. rewrite <- Rinv_mult. rewrite sqrt_sqrt by lra. reflexivity. Qed.

Definition Cm_ex (y : R_IPS) : prod_IPS R_IPS R_IPS := (s2 * y, s2 * y).
Definition Ct_ex (w : prod_IPS R_IPS R_IPS) : R_IPS := s2 * fst w + s2 * snd w.
Definition Pdiag_ex (w : prod_IPS R_IPS R_IPS) : prod_IPS R_IPS R_IPS := ((fst w + snd w) / 2, (fst w + snd w) / 2).
Definition Paxis_ex (w : prod_IPS R_IPS R_IPS) : prod_IPS R_IPS R_IPS := (fst w, 0).

Example compression_hypotheses_hold :
  (forall x y, ip (Cm_ex x) (Cm_ex y) = ip x y) /\ (forall x w, ip (Cm_ex x) w = ip x (Ct_ex w)) /\
  (forall x y, ip (Pdiag_ex x) y = ip x (Pdiag_ex y)) /\ (forall x, Pdiag_ex (Pdiag_ex x) = Pdiag_ex x) /\
  (forall x y, ip (Paxis_ex x) y = ip x (Paxis_ex y)) /\ (forall x, Paxis_ex (Paxis_ex x) = Paxis_ex x).
Proof.
  pose proof s2_sq as S.
  repeat split.
  - intros x y. unfold Cm_ex. cbn in *. replace (s2 * x * (s2 * y) + s2 * x * (s2 * y)) with (2 * (s2 * s2) * (x * y)) by ring. rewrite S. field.
  - intros x [w1 w2]. unfold Ct_ex, Cm_ex. cbn in *. ring.
  - intros [x1 x2] [y1 y2]. unfold Pdiag_ex. cbn in *. field.
  - intros [x1 x2]. cbn in *. unfold Pdiag_ex. cbn [fst snd]. f_equal; field.
  - intros [x1 x2] [y1 y2]. unfold Paxis_ex. cbn in *. ring.
Qed.

(** the two sides of [unit_eig_of_compression] on the examples: the diagonal projector fixes the compressed vector
    (eigenvalue 1 of C^T P C), the axis projector does not (eigenvalue 1/2) *)
Example unit_eig_example_diag : Ct_ex (Pdiag_ex (Cm_ex 1)) = 1 /\ Pdiag_ex (Cm_ex 1) = Cm_ex 1.
Proof.
  pose proof s2_sq as S. split.
  - unfold Ct_ex, Pdiag_ex, Cm_ex. cbn. replace (s2 * ((s2 * 1 + s2 * 1) / 2) + s2 * ((s2 * 1 + s2 * 1) / 2)) with (2 * (s2 * s2)) by field. rewrite S. field.
  - unfold Pdiag_ex, Cm_ex. cbn. f_equal; field.
Qed.
Example unit_eig_example_axis : Ct_ex (Paxis_ex (Cm_ex 1)) = / 2 /\ Paxis_ex (Cm_ex 1) <> Cm_ex 1.
Proof.
  pose proof s2_sq as S. split.
  - unfold Ct_ex, Paxis_ex, Cm_ex. cbn. replace (s2 * (s2 * 1) + s2 * 0) with (s2 * s2) by ring. exact S.
  - unfold Paxis_ex, Cm_ex. cbn. intros H. injection H as H.
    assert (E : s2 = 0) by lra. rewrite E in S. lra.
Qed.
