(** Space-group operations acting on atoms.

    Positions are given exactly with a common denominator D: atom i sits at p_i / D (p_i an integer
    vector), an operation is (r, s): x |-> r x + s / D with r an integer 3x3 matrix.  "Modulo the
    lattice" is "modulo D" componentwise.  The atom permutation of an operation is specified by
    matching:  sigma(i) = j  iff  r p_i + s = p_j (mod D) and the species agree. *)
From Coq Require Import List Arith ZArith Lia Bool.
Import ListNotations.
Open Scope Z_scope.

Definition vec := (Z * Z * Z)%type.
Definition mat := (vec * vec * vec)%type.        (* rows *)

Definition dotv (a b : vec) : Z := let '(a1, a2, a3) := a in let '(b1, b2, b3) := b in a1 * b1 + a2 * b2 + a3 * b3.
Definition mulmv (r : mat) (p : vec) : vec := let '(r1, r2, r3) := r in (dotv r1 p, dotv r2 p, dotv r3 p).
Definition addv (a b : vec) : vec := let '(a1, a2, a3) := a in let '(b1, b2, b3) := b in (a1 + b1, a2 + b2, a3 + b3).
Definition modv (D : Z) (a : vec) : vec := let '(a1, a2, a3) := a in (a1 mod D, a2 mod D, a3 mod D).
Definition vec_eqb (a b : vec) : bool := let '(a1, a2, a3) := a in let '(b1, b2, b3) := b in (a1 =? b1) && (a2 =? b2) && (a3 =? b3).
Definition col (r : mat) (k : nat) : vec :=
  let '((a, b, c), (d, e, f), (g, h, i)) := r in
  match k with 0%nat => (a, d, g) | 1%nat => (b, e, h) | _ => (c, f, i) end.
Definition mulmm (r q : mat) : mat :=
  let '(r1, r2, r3) := r in
  ((dotv r1 (col q 0), dotv r1 (col q 1), dotv r1 (col q 2)),
   (dotv r2 (col q 0), dotv r2 (col q 1), dotv r2 (col q 2)),
   (dotv r3 (col q 0), dotv r3 (col q 1), dotv r3 (col q 2))).

Definition ident : mat := ((1, 0, 0), (0, 1, 0), (0, 0, 1)).
Definition op := (mat * vec)%type.
Definition image (D : Z) (g : op) (p : vec) : vec := modv D (addv (mulmv (fst g) p) (snd g)).
(** (r1,s1) after (r2,s2) *)
Definition compose (g h : op) : op := (mulmm (fst g) (fst h), addv (mulmv (fst g) (snd h)) (snd g)).

Lemma mulmm_ident_r r : mulmm r ident = r.
Proof. destruct r as [[[[a b] c] [[d e] f]] [[g h] i]]. unfold mulmm, ident, col, dotv. repeat (f_equal; try ring). Qed.
Lemma mulmm_ident_l r : mulmm ident r = r.
Proof. destruct r as [[[[a b] c] [[d e] f]] [[g h] i]]. unfold mulmm, ident, col, dotv. repeat (f_equal; try ring). Qed.
Lemma mulmv_ident p : mulmv ident p = p.
Proof. destruct p as [[a b] c]. unfold mulmv, ident, dotv. repeat (f_equal; try ring). Qed.
Lemma addv_comm a b : addv a b = addv b a.
Proof. destruct a as [[a1 a2] a3], b as [[b1 b2] b3]. unfold addv. repeat (f_equal; try ring). Qed.

Lemma vec_eqb_eq a b : vec_eqb a b = true <-> a = b.
Proof.
  destruct a as [[a1 a2] a3], b as [[b1 b2] b3]. unfold vec_eqb. rewrite !andb_true_iff, !Z.eqb_eq.
  split; [intros [[-> ->] ->]; reflexivity | intros H; inversion H; auto].
Qed.

Section Matching.
  Variable D : Z.
  Hypothesis D_pos : 0 < D.
  Variable pos : nat -> vec.            (* numerators of the fractional coordinates *)
  Variable num : nat -> nat.            (* species *)
  Variable N : nat.

  Definition matches (g : op) (i j : nat) : Prop := image D g (pos i) = modv D (pos j) /\ num i = num j.
  (** sigma represents g on the atoms *)
  Definition represents (g : op) (sigma : nat -> nat) : Prop :=
    forall i, (i < N)%nat -> (sigma i < N)%nat /\ matches g i (sigma i).

  Hypothesis distinct : forall i j, (i < N)%nat -> (j < N)%nat -> modv D (pos i) = modv D (pos j) -> i = j.

  (** C14: at most one permutation represents an operation *)
  Theorem represents_unique g s1 s2 i : represents g s1 -> represents g s2 -> (i < N)%nat -> s1 i = s2 i.
  Proof.
    intros H1 H2 Hi. destruct (H1 i Hi) as [L1 [M1 _]]. destruct (H2 i Hi) as [L2 [M2 _]].
    apply distinct; auto. congruence.
  Qed.

  (** modular arithmetic on vectors *)
  Lemma modv_idem a : modv D (modv D a) = modv D a.
  Proof. destruct a as [[a1 a2] a3]. simpl. rewrite !Z.mod_mod by lia. reflexivity. Qed.

  Lemma dotv_mod r p s : (dotv r (modv D p) + s) mod D = (dotv r p + s) mod D.
  Proof.
    destruct r as [[a b] c]. destruct p as [[p1 p2] p3]. simpl.
    rewrite <- (Zplus_mod_idemp_l (a * (p1 mod D) + b * (p2 mod D) + c * (p3 mod D))).
    rewrite <- (Zplus_mod_idemp_l (a * p1 + b * p2 + c * p3)). f_equal. f_equal.
    rewrite (Zplus_mod (a * (p1 mod D) + b * (p2 mod D))), (Zplus_mod (a * (p1 mod D))).
    rewrite (Zplus_mod (a * p1 + b * p2)), (Zplus_mod (a * p1)).
    rewrite (Zmult_mod a (p1 mod D)), (Zmult_mod b (p2 mod D)), (Zmult_mod c (p3 mod D)), !Z.mod_mod by lia.
    rewrite <- (Zmult_mod a p1), <- (Zmult_mod b p2), <- (Zmult_mod c p3). reflexivity.
  Qed.

  Lemma image_mod g p : image D g (modv D p) = image D g p.
  Proof.
    destruct g as [[[r1 r2] r3] [[s1 s2] s3]]. unfold image. cbn [fst snd mulmv addv modv].
    rewrite !dotv_mod. reflexivity.
  Qed.

  Lemma image_compose g h p : image D (compose g h) p = image D g (image D h p).
  Proof.
    change (image D h p) with (modv D (addv (mulmv (fst h) p) (snd h))). rewrite image_mod. unfold image, compose.
    destruct g as [[[[[a b] c] [[d e] f]] [[g0 h0] i]] [[s1 s2] s3]].
    destruct h as [[[[[a' b'] c'] [[d' e'] f']] [[g' h'] i']] [[t1 t2] t3]].
    destruct p as [[p1 p2] p3]. simpl. f_equal; [f_equal|]; f_equal; ring.
  Qed.

  (** C14: permutations compose like the operations *)
  Theorem represents_compose g h sg sh :
    represents g sg -> represents h sh -> represents (compose g h) (fun i => sg (sh i)).
  Proof.
    intros Hg Hh i Hi. destruct (Hh i Hi) as [Lh [Mh Nh]]. destruct (Hg (sh i) Lh) as [Lg [Mg Ng]].
    split; [exact Lg|]. split; [|congruence].
    rewrite image_compose. rewrite Mh. rewrite image_mod. exact Mg.
  Qed.

  (** C14: a pure translation that is not a lattice vector of the supercell moves every atom *)
  Lemma ident_image s p : image D (ident, s) p = modv D (addv p s).
  Proof.
    destruct s as [[s1 s2] s3]. destruct p as [[p1 p2] p3]. unfold image, ident, mulmv, addv, modv, dotv. cbn [fst snd].
    f_equal; [f_equal|]; f_equal; ring.
  Qed.

  Theorem translation_free s sigma i :
    represents (ident, s) sigma -> (i < N)%nat -> sigma i = i -> modv D s = (0, 0, 0).
  Proof.
    intros H Hi E. destruct (H i Hi) as [_ [M _]]. rewrite E in M. rewrite ident_image in M.
    destruct s as [[s1 s2] s3]. destruct (pos i) as [[p1 p2] p3].
    unfold addv, modv in M. injection M as M1 M2 M3.
    assert (Hm : forall p s0, (p + s0) mod D = p mod D -> s0 mod D = 0).
    { intros p s0 Hps.
      assert (Hd : ((p + s0) - p) mod D = 0).
      { rewrite Zminus_mod, Hps, Z.sub_diag. apply Z.mod_0_l. lia. }
      replace (p + s0 - p) with s0 in Hd by ring. exact Hd. }
    unfold modv. rewrite (Hm _ _ M1), (Hm _ _ M2), (Hm _ _ M3). reflexivity.
  Qed.

  (** C02: an operation conjugates translations into translations (the rotated translation), so the
      class of the image of an atom tuple depends only on the class of the tuple. *)
  Theorem normalises_translations g s sg st st' i :
    represents g sg -> represents (ident, s) st -> represents (ident, mulmv (fst g) s) st' ->
    (i < N)%nat -> sg (st i) = st' (sg i).
  Proof.
    intros Hg Ht Ht' Hi.
    destruct (Ht i Hi) as [Lt [Mt _]]. destruct (Hg (st i) Lt) as [L1 [M1 _]].
    destruct (Hg i Hi) as [Lg [Mg _]]. destruct (Ht' (sg i) Lg) as [L2 [M2 _]].
    apply distinct; auto. rewrite <- M1, <- M2.
    (* image g (pos (st i)) = image g (image (1,s) (pos i)) = image (1, r s) (image g (pos i)) *)
    rewrite <- (image_mod g (pos (st i))). rewrite <- Mt.
    rewrite <- (image_mod (ident, mulmv (fst g) s) (pos (sg i))). rewrite <- Mg.
    rewrite <- !image_compose.
    assert (Eop : compose g (ident, s) = compose (ident, mulmv (fst g) s) g).
    { unfold compose. cbn [fst snd]. rewrite mulmm_ident_r, mulmm_ident_l, mulmv_ident. f_equal. apply addv_comm. }
    rewrite Eop. reflexivity.
  Qed.
End Matching.

(** ** Executable matcher (the exact reference for compute_sg_permutations) *)
Definition find_match (D : Z) (pos : list vec) (nums : list nat) (g : op) (i : nat) : option nat :=
  let target := image D g (nth i pos (0, 0, 0)) in
  let ni := nth i nums 0%nat in
  find (fun j => vec_eqb target (modv D (nth j pos (0, 0, 0))) && Nat.eqb ni (nth j nums 0%nat)) (seq 0 (length pos)).

Definition perm_of_op (D : Z) (pos : list vec) (nums : list nat) (g : op) : list Z :=
  map (fun i => match find_match D pos nums g i with Some j => Z.of_nat j | None => -1 end) (seq 0 (length pos)).

(** ** C10: the matching relation does not depend on how the crystal is described *)
Section Descriptions.
  Variable D : Z.
  Hypothesis D_pos : 0 < D.
  Variable pos : nat -> vec.
  Variable num : nat -> nat.

  (** adding integers to fractional coordinates (numerators change by multiples of D) *)
  Lemma modv_add_mult p k : modv D (addv p (let '(k1, k2, k3) := k in (D * k1, D * k2, D * k3))) = modv D p.
  Proof.
    destruct p as [[p1 p2] p3], k as [[k1 k2] k3]. unfold modv, addv.
    rewrite !(Z.mul_comm D), !Z_mod_plus_full. reflexivity.
  Qed.

  Theorem matches_invariant_under_wraps (wrap : nat -> vec) g i j :
    matches D (fun a => addv (pos a) (let '(k1, k2, k3) := wrap a in (D * k1, D * k2, D * k3))) num g i j <-> matches D pos num g i j.
  Proof.
    unfold matches. rewrite <- (image_mod D D_pos g (addv (pos i) _)). rewrite !modv_add_mult.
    rewrite (image_mod D D_pos). reflexivity.
  Qed.

  (** shifting the origin by c: the operation (r, s) becomes (r, s + c - r c), the permutation is unchanged *)
  Definition shift_op (c : vec) (g : op) : op :=
    (fst g, addv (addv (snd g) c) (let '(x, y, z) := mulmv (fst g) c in (- x, - y, - z))).

  Lemma image_shift c g p : image D (shift_op c g) (addv p c) = modv D (addv (addv (mulmv (fst g) p) (snd g)) c).
  Proof.
    destruct g as [[[[[a b] c0] [[d e] f]] [[g0 h0] i0]] [[s1 s2] s3]]. destruct c as [[c1 c2] c3]. destruct p as [[p1 p2] p3].
    unfold image, shift_op, mulmv, addv, modv, dotv. cbn [fst snd]. f_equal; [f_equal|]; f_equal; ring.
  Qed.

  Lemma modv_addv_congr a b c : modv D a = modv D b -> modv D (addv a c) = modv D (addv b c).
  Proof.
    destruct a as [[a1 a2] a3], b as [[b1 b2] b3], c as [[c1 c2] c3]. unfold modv, addv. intros H. injection H as H1 H2 H3.
    rewrite (Zplus_mod a1), (Zplus_mod a2), (Zplus_mod a3), H1, H2, H3, <- !Zplus_mod. reflexivity.
  Qed.

  Lemma modv_addv_cancel a b c : modv D (addv a c) = modv D (addv b c) -> modv D a = modv D b.
  Proof.
    intros H. apply (modv_addv_congr _ _ (let '(x, y, z) := c in (- x, - y, - z))) in H.
    destruct a as [[a1 a2] a3], b as [[b1 b2] b3], c as [[c1 c2] c3]. unfold modv, addv in *.
    replace (a1 + c1 + - c1) with a1 in H by ring. replace (a2 + c2 + - c2) with a2 in H by ring. replace (a3 + c3 + - c3) with a3 in H by ring.
    replace (b1 + c1 + - c1) with b1 in H by ring. replace (b2 + c2 + - c2) with b2 in H by ring. replace (b3 + c3 + - c3) with b3 in H by ring.
    exact H.
  Qed.

  Theorem matches_invariant_under_origin_shift c g i j :
    matches D (fun a => addv (pos a) c) num (shift_op c g) i j <-> matches D pos num g i j.
  Proof.
    unfold matches. rewrite image_shift. unfold image. split; intros [H Hn]; split; try exact Hn.
    - apply (modv_addv_cancel _ _ c). exact H.
    - apply modv_addv_congr. exact H.
  Qed.

  (** relabelling the atoms by a bijection phi conjugates the permutation *)
  Theorem matches_under_relabelling (phi psi : nat -> nat) g i j :
    (forall a, psi (phi a) = a) ->
    matches D (fun a => pos (psi a)) (fun a => num (psi a)) g (phi i) (phi j) <-> matches D pos num g i j.
  Proof. intros Hinv. unfold matches. rewrite !Hinv. reflexivity. Qed.
  (** re-describing the lattice by a unimodular basis change: numerators p -> A p, operation (r, s) -> (A r B, A s),
      B the integer inverse of A; the permutation is unchanged *)
  Definition conj_op (A B : mat) (g : op) : op := (mulmm (mulmm A (fst g)) B, mulmv A (snd g)).

  Lemma mulmv_mulmm A B p : mulmv (mulmm A B) p = mulmv A (mulmv B p).
  Proof.
    destruct A as [[[[a b] c] [[d e] f]] [[g0 h0] i0]]. destruct B as [[[[a' b'] c'] [[d' e'] f']] [[g' h'] i']].
    destruct p as [[p1 p2] p3]. unfold mulmv, mulmm, dotv, col. f_equal; [f_equal|]; ring.
  Qed.

  Lemma mulmv_addv A p q : mulmv A (addv p q) = addv (mulmv A p) (mulmv A q).
  Proof.
    destruct A as [[[[a b] c] [[d e] f]] [[g0 h0] i0]]. destruct p as [[p1 p2] p3], q as [[q1 q2] q3].
    unfold mulmv, addv, dotv. f_equal; [f_equal|]; ring.
  Qed.

  Lemma modv_mulmv A p : modv D (mulmv A (modv D p)) = modv D (mulmv A p).
  Proof.
    destruct A as [[r1 r2] r3]. unfold mulmv.
    change (modv D (dotv r1 (modv D p), dotv r2 (modv D p), dotv r3 (modv D p)))
      with (dotv r1 (modv D p) mod D, dotv r2 (modv D p) mod D, dotv r3 (modv D p) mod D).
    change (modv D (dotv r1 p, dotv r2 p, dotv r3 p)) with (dotv r1 p mod D, dotv r2 p mod D, dotv r3 p mod D).
    pose proof (dotv_mod D D_pos r1 p 0) as H1. pose proof (dotv_mod D D_pos r2 p 0) as H2. pose proof (dotv_mod D D_pos r3 p 0) as H3.
    rewrite !Z.add_0_r in H1, H2, H3. rewrite H1, H2, H3. reflexivity.
  Qed.

  Lemma modv_mulmv_congr A a b : modv D a = modv D b -> modv D (mulmv A a) = modv D (mulmv A b).
  Proof. intros H. rewrite <- (modv_mulmv A a), H, modv_mulmv. reflexivity. Qed.

  Lemma image_conj A B g p : mulmm B A = ident ->
    image D (conj_op A B g) (mulmv A p) = modv D (mulmv A (addv (mulmv (fst g) p) (snd g))).
  Proof.
    intros HBA. unfold image, conj_op. cbn [fst snd].
    rewrite !mulmv_mulmm. rewrite <- (mulmv_mulmm B A), HBA, mulmv_ident. rewrite mulmv_addv. reflexivity.
  Qed.

  Theorem matches_invariant_under_unimodular A B g i j : mulmm B A = ident ->
    matches D (fun a => mulmv A (pos a)) num (conj_op A B g) i j <-> matches D pos num g i j.
  Proof.
    intros HBA. unfold matches. rewrite (image_conj A B g (pos i) HBA). unfold image.
    split; intros [H Hn]; split; try exact Hn.
    - apply (modv_mulmv_congr B) in H. rewrite <- !mulmv_mulmm, HBA, !mulmv_ident in H. exact H.
    - apply modv_mulmv_congr. exact H.
  Qed.
End Descriptions.
