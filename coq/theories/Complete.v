(** Completeness of the rows (C04): every index tuple whose atoms are mutually inside the cutoff and
    whose index-equality pattern occurs in the arrangement tables has its element in some row of the
    orbit routine -- so it is NOT eliminated.  The argument: translate the tuple so that its smallest
    atom is the smallest atom over all translates; that atom is an orbit minimum, hence translationally
    independent, so the sorted distinct indices of the translated tuple form a listed combination. *)
From Coq Require Import List Arith Lia Bool Sorted NArith PArith ZArith.
Import ListNotations.
From SymfcV Require Import PyPrelude Tuples Group Concrete Cutoff CutoffThm TableFacts PermModel.
Local Open Scope nat_scope.

(** ** sorted list of the distinct values of a list *)
Fixpoint sinsert (x : nat) (l : list nat) : list nat :=
  match l with
  | [] => [x]
  | y :: l' => if x <? y then x :: l else if x =? y then l else y :: sinsert x l'
  end.
Definition sdistinct (l : list nat) : list nat := fold_right sinsert [] l.

Lemma sinsert_in x l y : In y (sinsert x l) <-> y = x \/ In y l.
Proof.
  induction l as [|z l IH]; simpl.
  - split; [intros [H|[]]; left; congruence | intros [H|[]]; left; congruence].
  - destruct (x <? z) eqn:E1.
    + simpl. split; [intros [H|H]; [left; congruence | right; exact H] | intros [H|H]; [left; congruence | right; exact H]].
    + destruct (x =? z) eqn:E2.
      * apply Nat.eqb_eq in E2. subst. simpl. split; [intros H; right; exact H | intros [H|H]; [left; congruence | exact H]].
      * simpl. rewrite IH. split; [intros [H|[H|H]]; auto | intros [H|[H|H]]; auto].
Qed.

Lemma sinsert_sorted x l : StronglySorted lt l -> StronglySorted lt (sinsert x l).
Proof.
  induction 1 as [|z l Hs IH Hall]; simpl; [repeat constructor|].
  destruct (x <? z) eqn:E1.
  - apply Nat.ltb_lt in E1. constructor; [constructor; assumption|].
    constructor; [exact E1|]. rewrite Forall_forall in *. intros y Hy. specialize (Hall y Hy). lia.
  - destruct (x =? z) eqn:E2; [constructor; assumption|].
    apply Nat.ltb_ge in E1. apply Nat.eqb_neq in E2.
    constructor; [exact IH|]. apply Forall_forall. intros y Hy. apply sinsert_in in Hy.
    destruct Hy as [->|Hy]; [lia|]. rewrite Forall_forall in Hall. apply Hall. exact Hy.
Qed.

Lemma sdistinct_in l y : In y (sdistinct l) <-> In y l.
Proof. induction l as [|x l IH]; simpl; [tauto|]. rewrite sinsert_in, IH. split; intros [H|H]; auto. Qed.

Lemma sdistinct_sorted l : StronglySorted lt (sdistinct l).
Proof. induction l as [|x l IH]; simpl; [constructor | apply sinsert_sorted; exact IH]. Qed.

(** position of a value in a list and reading it back *)
Lemma nth_index_of x l : In x l -> nth (index_of x l) l 0 = x.
Proof.
  induction l as [|y l IH]; intros H; [destruct H|]. simpl.
  destruct (x =? y) eqn:E; [apply Nat.eqb_eq in E; auto|].
  apply Nat.eqb_neq in E. destruct H as [H|H]; [congruence | apply IH; exact H].
Qed.

Lemma index_of_nth_sorted l j : StronglySorted lt l -> j < length l -> index_of (nth j l 0) l = j.
Proof.
  intros Hs. revert j. induction Hs as [|y l Hs IH Hall]; intros j Hj; [simpl in Hj; lia|].
  destruct j as [|j]; simpl; [rewrite Nat.eqb_refl; reflexivity|].
  simpl in Hj. assert (Hin : In (nth j l 0) l) by (apply nth_In; lia).
  rewrite Forall_forall in Hall. specialize (Hall _ Hin).
  destruct (nth j l 0 =? y) eqn:E; [apply Nat.eqb_eq in E; lia|]. f_equal. apply IH. lia.
Qed.

(** the arrangement of a tuple with respect to its sorted distinct values *)
Definition arr_of (t : tuple) : list nat := map (fun p => index_of p (sdistinct t)) t.

Lemma apply_arr_of t : apply_arr (sdistinct t) (arr_of t) = t.
Proof.
  unfold apply_arr, arr_of. rewrite map_map. rewrite <- (map_id t) at 2. apply map_ext_in.
  intros p Hp. apply nth_index_of. apply sdistinct_in. exact Hp.
Qed.

Lemma arr_of_range t : Forall (fun s => s < length (sdistinct t)) (arr_of t).
Proof.
  unfold arr_of. apply Forall_forall. intros s Hs. apply in_map_iff in Hs. destruct Hs as [p [<- Hp]].
  apply index_of_lt. apply sdistinct_in. exact Hp.
Qed.

Lemma arr_of_surj t : is_surj (length (sdistinct t)) (arr_of t) = true.
Proof.
  unfold is_surj. apply forallb_forall. intros v Hv. apply in_seq in Hv. apply existsb_exists.
  exists v. split; [|apply Nat.eqb_refl].
  unfold arr_of. apply in_map_iff. exists (nth v (sdistinct t) 0). split.
  - apply index_of_nth_sorted; [apply sdistinct_sorted | lia].
  - apply sdistinct_in. apply nth_In. lia.
Qed.

(** all_maps lists every list of the given length with entries below k *)
Lemma all_maps_complete n k a : length a = n -> Forall (fun s => s < k) a -> In a (all_maps n k).
Proof.
  revert a. induction n as [|n IH]; intros a Hl Hr.
  - destruct a; [left; reflexivity | discriminate].
  - destruct a as [|v a]; [discriminate|]. inversion Hr; subst. simpl.
    apply in_flat_map. exists a. split; [apply IH; [simpl in Hl; lia | assumption]|].
    apply in_map_iff. exists v. split; [reflexivity | apply in_seq; lia].
Qed.

(** chunks cover the list *)
Lemma chunks_fuel_cover {A} (w : nat) : 0 < w -> forall fuel (l : list A) x, length l <= fuel -> In x l ->
  exists g, In g (chunks_fuel fuel w l) /\ In x g.
Proof.
  intros Hw. induction fuel as [|f IH]; intros l x Hl Hx.
  - destruct l; [destruct Hx | simpl in Hl; lia].
  - destruct l as [|y l]; [destruct Hx|]. cbn [chunks_fuel].
    rewrite <- (firstn_skipn w (y :: l)) in Hx. apply in_app_iff in Hx. destruct Hx as [Hx|Hx].
    + exists (firstn w (y :: l)). split; [left; reflexivity | exact Hx].
    + destruct (IH (skipn w (y :: l)) x) as [g [Hg Hxg]].
      * rewrite skipn_length. cbn [length] in *. lia.
      * exact Hx.
      * exists g. split; [right; exact Hg | exact Hxg].
Qed.

Lemma groups_cover b a : 0 < group_width b -> In a (bk_arrs b) -> exists g, In g (groups b) /\ In a g.
Proof. intros Hw Ha. unfold groups, chunks. apply chunks_fuel_cover; [exact Hw | lia | exact Ha]. Qed.

Lemma nmin_le_in l d x : In x l -> fold_right Nat.min d l <= x.
Proof. induction l as [|a l IH]; simpl; [tauto|]. intros [->|H]; [apply Nat.le_min_l|]. specialize (IH H). eapply Nat.le_trans; [apply Nat.le_min_r | exact IH]. Qed.
Lemma nmin_in l d : fold_right Nat.min d l = d \/ In (fold_right Nat.min d l) l.
Proof.
  induction l as [|a l IH]; simpl; [auto|]. destruct IH as [E|H].
  - rewrite E. destruct (Nat.min_spec a d) as [[_ ->]|[_ ->]]; auto.
  - destruct (Nat.min_spec a (fold_right Nat.min d l)) as [[_ ->]|[_ ->]]; auto.
Qed.

(** ** every near-compatible tuple lies in some row *)
Section Rows.
  Variable n : nat.
  Variable blocks : list block.
  Hypothesis Hn : 0 < n.
  Hypothesis Hwidth : forall b, In b blocks -> 0 < group_width b.
  Variable N : nat.
  Variable tp : table.
  Hypothesis Hv : valid_tp N tp = true.
  Let nlp := length tp.
  Variable nr : option near.
  Hypothesis near_sym : forall r, nr = Some r -> forall i j, nearb r i j = nearb r j i.
  Hypothesis near_refl : forall r, nr = Some r -> forall i, i < N -> nearb r i i = true.
  Hypothesis near_inv : forall r, nr = Some r -> forall tau i j, tau < nlp -> i < N -> j < N ->
                        nearb r (act tp tau i) (act tp tau j) = nearb r i j.

  Definition tuple_near (t : tuple) : Prop :=
    match nr with None => True | Some r => mutually_near r t end.

  Definition block_combos_m (b : block) : list (list nat) :=
    let cs := if bk_k b =? 1 then map (fun i => [i]) (seq 0 (3 * N)) else combos nr N (bk_k b) in
    if bk_indep b then restrict_indep (indep_t N tp) cs else cs.

  Definition bc : list (block * list (list nat)) := map (fun b => (b, block_combos_m b)) blocks.

  (** smallest atom over all translates of an atom tuple *)
  Definition all_translate_atoms (A : list nat) : list nat := flat_map (fun s => shift (act tp) s A) (seq 0 nlp).
  Definition gmin (A : list nat) : nat := fold_right Nat.min (hd 0 A) (all_translate_atoms A).

  Lemma in_all_translates A x : In x (all_translate_atoms A) <-> exists s i, s < nlp /\ In i A /\ x = act tp s i.
  Proof.
    unfold all_translate_atoms. rewrite in_flat_map. split.
    - intros [s [Hs Hx]]. apply in_seq in Hs. unfold shift in Hx. apply in_map_iff in Hx. destruct Hx as [i [<- Hi]].
      exists s, i. repeat split; [lia | exact Hi].
    - intros [s [i [Hs [Hi ->]]]]. exists s. split; [apply in_seq; lia|]. unfold shift. apply in_map. exact Hi.
  Qed.

  Lemma gmin_spec A : A <> [] -> in_range N A ->
    (exists s i, s < nlp /\ In i A /\ gmin A = act tp s i) /\ (forall x, In x (all_translate_atoms A) -> gmin A <= x).
  Proof.
    intros Hne HA. split.
    - unfold gmin. destruct (nmin_in (all_translate_atoms A) (hd 0 A)) as [E|Hin].
      + rewrite E. destruct A as [|i A]; [congruence|]. exists 0, i. split; [exact (v_nlp_pos N tp Hv)|]. split; [left; reflexivity|].
        simpl. symmetry. apply (v_act_id N tp Hv). inversion HA; assumption.
      + apply in_all_translates in Hin. exact Hin.
    - intros x Hx. unfold gmin. apply nmin_le_in. exact Hx.
  Qed.

  Lemma gmin_is_indep A : A <> [] -> in_range N A -> In (gmin A) (indep_t N tp).
  Proof.
    intros Hne HA. destruct (gmin_spec A Hne HA) as [[s [i [Hs [Hi E]]]] Hle].
    assert (HiN : i < N) by (unfold in_range in HA; rewrite Forall_forall in HA; auto).
    assert (Hg : gmin A < N) by (rewrite E; apply (v_act_lt N tp Hv); assumption).
    assert (Eo : omin nlp (act tp) (gmin A) = gmin A).
    { apply Nat.le_antisymm.
      - apply (omin_le_self_t N tp Hv). exact Hg.
      - destruct (omin_in_orbit_t N tp Hv (gmin A) Hg) as [u [Hu Eu]].
        fold nlp in Eu. rewrite Eu. apply Hle. apply in_all_translates.
        destruct (v_closed N tp Hv u s Hu Hs) as [c [Hc Ec]]. exists c, i. split; [exact Hc|]. split; [exact Hi|].
        rewrite E. symmetry. apply Ec. exact HiN. }
    pose proof (omin_is_indep_t N tp Hv (gmin A) Hg) as H. fold nlp in H. rewrite Eo in H. exact H.
  Qed.

  (** the first entry of a sorted list is its minimum *)
  Lemma sorted_hd_min (l : list nat) x : StronglySorted lt l -> In x l -> hd 0 l <= x.
  Proof.
    intros Hs Hx. destruct l as [|y l]; [destruct Hx|]. simpl. inversion Hs as [|? ? _ Hall]; subst.
    destruct Hx as [<-|Hx]; [lia|]. rewrite Forall_forall in Hall. specialize (Hall x Hx). lia.
  Qed.

  (** Main lemma: a wf tuple whose atoms are mutually near, all of whose translates have an arrangement
      listed in the tables, has its element in some row. *)
  Theorem near_tuple_in_some_row t :
    wf_t N n t -> tuple_near t ->
    (forall tau, tau < nlp -> In (arr_of (map (tshift_tab tp tau) t))
                                 (arrangements_of (length (sdistinct (map (tshift_tab tp tau) t))) blocks)) ->
    in_some_row (elem_tab N tp) bc (elem_tab N tp t).
  Proof.
    intros Hw Hnear Harr.
    pose proof (atoms_range N tp n t Hw) as HA.
    assert (HneA : atoms_of t <> []) by (destruct Hw as [Hl _]; unfold atoms_of; destruct t; [simpl in Hl; lia | discriminate]).
    destruct (gmin_spec (atoms_of t) HneA HA) as [[s [i [Hs [Hi Eg]]]] Hle].
    pose proof (gmin_is_indep (atoms_of t) HneA HA) as Hindep.
    set (t' := map (tshift_tab tp s) t).
    assert (Hw' : wf_t N n t').
    { destruct Hw as [Hl Hr]. split; [unfold t'; rewrite map_length; exact Hl|].
      unfold t'. apply Forall_forall. intros p Hp. apply in_map_iff in Hp. destruct Hp as [q [<- Hq]].
      rewrite Forall_forall in Hr. apply (tshift_tab_lt N tp Hv); [exact Hs | apply Hr; exact Hq]. }
    assert (Eat : atoms_of t' = shift (act tp) s (atoms_of t)) by (unfold t'; apply atoms_tshift).
    set (c := sdistinct t').
    assert (Hcs : StronglySorted lt c) by apply sdistinct_sorted.
    assert (Hcin : forall p, In p c <-> In p t') by (intro p; apply sdistinct_in).
    assert (Hcne : c <> []).
    { destruct t' as [|p0 t0] eqn:Et; [destruct Hw' as [Hl _]; simpl in Hl; lia|].
      intros Ec. assert (In p0 c) by (apply Hcin; left; reflexivity). rewrite Ec in H. destruct H. }
    (* the first entry of c sits on the atom gmin, which is independent *)
    assert (Hhd : hd 0 c / 3 = gmin (atoms_of t)).
    { assert (Hg_in : exists p, In p t' /\ p / 3 = gmin (atoms_of t)).
      { assert (In (gmin (atoms_of t)) (atoms_of t')) by (rewrite Eat, Eg; unfold shift; apply in_map; exact Hi).
        unfold atoms_of in H. apply in_map_iff in H. destruct H as [p [Ep Hp]]. exists p. auto. }
      destruct Hg_in as [p [Hp Ep]].
      assert (Hhd_in : In (hd 0 c) t') by (apply Hcin; destruct c; [congruence | left; reflexivity]).
      apply Nat.le_antisymm.
      - rewrite <- Ep. apply (Nat.div_le_mono (hd 0 c) p 3); [lia|]. apply sorted_hd_min; [exact Hcs | apply Hcin; exact Hp].
      - apply Hle. apply in_all_translates. exists s.
        assert (In (hd 0 c / 3) (atoms_of t')) by (unfold atoms_of; apply (in_map (fun p0 => p0 / 3) t' (hd 0 c)); exact Hhd_in).
        rewrite Eat in H. unfold shift in H. apply in_map_iff in H. destruct H as [j [Ej Hj]]. exists j. auto. }
    (* entries of c are in range and mutually near *)
    assert (Hcr : in_range3 N c).
    { unfold in_range3. apply Forall_forall. intros p Hp. apply Hcin in Hp. destruct Hw' as [_ Hr]. rewrite Forall_forall in Hr. apply Hr. exact Hp. }
    set (k := length c).
    assert (Hk : 1 <= k) by (unfold k; destruct c; [congruence | simpl; lia]).
    (* the arrangement and its block *)
    specialize (Harr s Hs). fold t' in Harr. fold c in Harr. fold k in Harr.
    unfold arrangements_of in Harr. apply in_flat_map in Harr. destruct Harr as [b [Hb Hab]].
    destruct (bk_k b =? k) eqn:Ek; [|destruct Hab]. apply Nat.eqb_eq in Ek.
    destruct (groups_cover b (arr_of t') (Hwidth b Hb) Hab) as [g [Hg Hag]].
    exists c, g. split.
    - exists b, (block_combos_m b). split; [unfold bc; apply in_map_iff; exists b; auto|]. split; [|exact Hg].
      (* c is one of the block's combinations *)
      unfold block_combos_m.
      assert (Hcomb : In c (if bk_k b =? 1 then map (fun i0 => [i0]) (seq 0 (3 * N)) else combos nr N (bk_k b))).
      { rewrite Ek. destruct (k =? 1) eqn:E1.
        - apply Nat.eqb_eq in E1. unfold k in E1. destruct c as [|p [|q c0]]; try discriminate.
          apply in_map_iff. exists p. split; [reflexivity|]. apply in_seq. unfold in_range3 in Hcr. inversion Hcr; subst. lia.
        - unfold combos. destruct nr as [r|] eqn:Enr.
          + apply (cut_combos_spec r N (near_sym r eq_refl) (near_refl r eq_refl) k c Hk).
            split; [reflexivity|]. split; [exact Hcs|]. split; [exact Hcr|].
            intros x y Hx Hy. apply Hcin in Hx, Hy. unfold t' in Hx, Hy.
            apply in_map_iff in Hx, Hy. destruct Hx as [x0 [<- Hx0]]. destruct Hy as [y0 [<- Hy0]].
            unfold tuple_near in Hnear. rewrite Enr in Hnear.
            destruct Hw as [_ Hr]. rewrite Forall_forall in Hr.
            rewrite !(tshift_tab_div tp). rewrite (near_inv r eq_refl s); [apply Hnear; assumption | exact Hs | |];
              apply Nat.div_lt_upper_bound; try lia; [specialize (Hr x0 Hx0) | specialize (Hr y0 Hy0)]; lia.
          + apply entire_combos_spec. split; [reflexivity|]. split; [exact Hcs | exact Hcr]. }
      destruct (bk_indep b); [|exact Hcomb].
      unfold restrict_indep. apply filter_In. split; [exact Hcomb|].
      apply existsb_exists. exists (gmin (atoms_of t)). split; [exact Hindep|]. apply Nat.eqb_eq. exact Hhd.
    - (* elem t = elem t' = elem (apply_arr c (arr_of t')) *)
      unfold row_elems. apply in_map_iff. exists (arr_of t'). split; [|exact Hag].
      unfold c. rewrite apply_arr_of. unfold t'. apply (elem_tab_inv N tp Hv n s t Hn Hs Hw).
  Qed.

  (** when the tables cover every pattern of n indices (orders 2 and 3), every near-compatible tuple lies
      in some row: nothing inside the cutoff is eliminated *)
  Theorem covered_near_tuple_in_some_row t : covers n blocks = true ->
    wf_t N n t -> tuple_near t -> in_some_row (elem_tab N tp) bc (elem_tab N tp t).
  Proof.
    intros Hcov Hw Hnear. apply near_tuple_in_some_row; [exact Hw | exact Hnear|].
    intros tau Htau. set (t' := map (tshift_tab tp tau) t).
    assert (Hl : length t' = n) by (unfold t'; rewrite map_length; destruct Hw; assumption).
    set (k := length (sdistinct t')).
    assert (Hk1 : 1 <= k).
    { unfold k. destruct t' as [|p0 t0] eqn:Et; [simpl in Hl; lia|].
      assert (In p0 (sdistinct (p0 :: t0))) by (apply sdistinct_in; left; reflexivity).
      destruct (sdistinct (p0 :: t0)); [destruct H | simpl; lia]. }
    assert (Hkn : k <= n).
    { (* an increasing list of values of t' is no longer than t': arr_of is surjective onto [0,k) *)
      unfold k. rewrite <- Hl.
      assert (Hinj : forall l : list nat, NoDup (sdistinct l)).
      { intros l. pose proof (sdistinct_sorted l) as Hs. induction Hs as [|y l0 Hs IH Hall]; constructor; [|exact IH].
        intros Hin. rewrite Forall_forall in Hall. specialize (Hall y Hin). lia. }
      apply NoDup_incl_length; [apply Hinj|]. intros p Hp. apply sdistinct_in. exact Hp. }
    unfold covers in Hcov. rewrite forallb_forall in Hcov.
    specialize (Hcov k ltac:(apply in_seq; lia)). rewrite forallb_forall in Hcov.
    assert (Hsurj : In (arr_of t') (surjections n k)).
    { unfold surjections. apply filter_In. split; [|apply arr_of_surj].
      apply all_maps_complete; [unfold arr_of; rewrite map_length; exact Hl | apply arr_of_range]. }
    specialize (Hcov _ Hsurj). apply existsb_exists in Hcov. destruct Hcov as [a [Ha E]].
    apply nl_eqb_eq in E. subst a. exact Ha.
  Qed.
End Rows.
