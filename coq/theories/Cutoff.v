(** Cutoff model: the boolean relation "minimum-image distance < cutoff" between atoms ([near]),
    neighbour lists, the combination generators of FCCutoff and the element masks. *)
From Coq Require Import List Arith Lia Bool.
Import ListNotations.
Local Open Scope nat_scope.

Definition near := list (list bool).
Definition nearb (nr : near) (i j : nat) : bool := nth j (nth i nr []) false.

(** np.where(distances[j] < cutoff)[0] *)
Definition neighbors (nr : near) (N j : nat) : list nat := filter (fun i => nearb nr j i) (seq 0 N).

(** itertools.combinations(l, k): k-subsequences in lexicographic position order *)
Fixpoint subseqs {A} (k : nat) (l : list A) : list (list A) :=
  match k with
  | 0 => [[]]
  | S k' => match l with
            | [] => []
            | x :: l' => map (cons x) (subseqs k' l') ++ subseqs k l'
            end
  end.

(** get_entire_combinations(3N, k) *)
Definition entire_combos (N k : nat) : list (list nat) := subseqs k (seq 0 (3 * N)).

Definition neighbors_N3 (nr : near) (N top : nat) : list nat :=
  flat_map (fun j => flat_map (fun b => if 3 * j + b <? top then [3 * j + b] else []) (seq 0 3)) (neighbors nr N (top / 3)).

Definition all_pairs_near (nr : near) (c : list nat) : bool :=
  forallb (fun p => match p with [x; y] => nearb nr (x / 3) (y / 3) | _ => true end) (subseqs 2 c).

(** combinations2 / combinations3_all / combinations4_all *)
Definition cut_combos (nr : near) (N k : nat) : list (list nat) :=
  flat_map (fun top =>
    map (fun c => c ++ [top]) (filter (all_pairs_near nr) (subseqs (k - 1) (neighbors_N3 nr N top))))
    (seq 0 (3 * N)).

Definition combos (nr : option near) (N k : nat) : list (list nat) :=
  match nr with None => entire_combos N k | Some r => cut_combos r N k end.

(** get_combinations(..., indep_atoms=...) *)
Definition restrict_indep (indep : list nat) (cs : list (list nat)) : list (list nat) :=
  filter (fun c => existsb (Nat.eqb (hd 0 c / 3)) indep) cs.

(** nonzero_atomic_indices_fcK: all pairs of the atom tuple near *)
Definition atoms_mutually_near (nr : near) (a : list nat) : bool :=
  forallb (fun p => match p with [x; y] => nearb nr x y | _ => true end) (subseqs 2 a).
