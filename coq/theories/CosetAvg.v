(** The coset average (C02, C11).  `get_compr_coset_projector_On` does not average over the whole space group: it keeps ONE
    operation per distinct rotation (the first one met in the caller's / spglib's listing) and averages those on the space of
    translation-invariant tensors.  These theorems justify that reduction for every group, every listing and every choice:

    - [coset_avg_eq_full_avg]: on a vector fixed by every pure translation, the average over the products r o t
      (r in the representatives, t in the translations: the whole group, each element once) equals the average over the
      representatives alone;
    - [avg_choice_of_representative]: replacing each representative r_i by r_i o t_i (another operation with the same
      rotation) does not change the average of a translation-invariant vector;
    - [avg_order_irrelevant]: nor does any reordering of the list (operations supplied in any order);
    - [full_fixed_iff]: a vector is fixed by all products iff it is fixed by the representatives and by the translations
      (both lists containing an identity). *)
From Coq Require Import Reals Lra List Permutation.
Import ListNotations.
From SymfcV Require Import IPS SolverModel GroupAvg.
Open Scope R_scope.

Section CosetAvg.
  Variable W : IPS.
  Notation op := (W -> W).

  Definition products (reps trans : list op) : list op :=
    flat_map (fun r => map (fun t v => r (t v)) trans) reps.

  Lemma products_length reps trans : length (products reps trans) = (length reps * length trans)%nat.
  Proof.
    unfold products. induction reps as [|r reps IH]; simpl; [reflexivity|].
    rewrite app_length, map_length, IH. reflexivity.
  Qed.

  Lemma vsum_app (l1 l2 : list W) : vsum W (l1 ++ l2) = vadd (vsum W l1) (vsum W l2).
  Proof.
    apply ip_ext. intro z. rewrite ip_add_l, !ip_vsum, map_app, rsum_app. reflexivity.
  Qed.

  Lemma vsum_repeat (n : nat) (v : W) : vsum W (repeat v n) = vscale (INR n) v.
  Proof.
    apply ip_ext. intro z. rewrite ip_vsum, ip_scale_l.
    induction n as [|n IH]; [simpl; lra|].
    cbn [repeat map rsum]. rewrite IH, S_INR. lra.
  Qed.

  Lemma vscale_vadd (a : R) (x y : W) : vscale a (vadd x y) = vadd (vscale a x) (vscale a y).
  Proof. apply ip_ext. intro z. rewrite ?ip_add_l, ?ip_scale_l, ?ip_add_l. ring. Qed.

  Lemma vscale_vzero (a : R) : vscale a (@vzero W) = vzero.
  Proof. apply ip_ext. intro z. rewrite ip_scale_l, ip_zero_l. ring. Qed.

  (** applying the products to a translation-invariant vector: every representative appears |trans| times *)
  Lemma products_apply reps trans v :
    (forall t, In t trans -> t v = v) ->
    vsum W (map (fun g => g v) (products reps trans)) = vscale (INR (length trans)) (vsum W (map (fun r => r v) reps)).
  Proof.
    intros Hinv. unfold products. induction reps as [|r reps IH]; simpl.
    - symmetry. apply vscale_vzero.
    - rewrite map_app, vsum_app, IH, vscale_vadd. f_equal.
      rewrite map_map.
      assert (E : map (fun t : op => r (t v)) trans = repeat (r v) (length trans)).
      { clear - Hinv. induction trans as [|t l IHl]; simpl; [reflexivity|].
        rewrite (Hinv t (or_introl eq_refl)). f_equal. apply IHl. intros t' Ht'. apply Hinv. right. exact Ht'. }
      rewrite E. apply vsum_repeat.
  Qed.

  Theorem coset_avg_eq_full_avg reps trans v :
    reps <> [] -> trans <> [] -> (forall t, In t trans -> t v = v) ->
    avg W (products reps trans) v = avg W reps v.
  Proof.
    intros Hr Ht Hinv. unfold avg.
    rewrite (products_apply reps trans v Hinv), products_length, mult_INR, vscale_scale.
    f_equal.
    assert (H1 : INR (length reps) <> 0) by (apply not_0_INR; destruct reps; [congruence | simpl; discriminate]).
    assert (H2 : INR (length trans) <> 0) by (apply not_0_INR; destruct trans; [congruence | simpl; discriminate]).
    field. split; assumption.
  Qed.

  (** any other operation with the same rotation serves as representative *)
  Theorem avg_choice_of_representative (reps reps' trans : list op) v :
    (forall t, In t trans -> t v = v) ->
    Forall2 (fun r r' : op => exists t, In t trans /\ forall w, r' w = r (t w)) reps reps' ->
    avg W reps' v = avg W reps v.
  Proof.
    intros Hinv H. unfold avg.
    assert (E : map (fun g : op => g v) reps' = map (fun g : op => g v) reps).
    { induction H as [|r r' l l' [t [Ht Hrt]] H IH]; simpl; [reflexivity|].
      rewrite IH, Hrt, (Hinv t Ht). reflexivity. }
    assert (L : length reps' = length reps).
    { clear - H. induction H; simpl; [reflexivity | f_equal; assumption]. }
    rewrite E, L. reflexivity.
  Qed.

  (** the listing order is irrelevant *)
  Theorem avg_order_irrelevant (ops ops' : list op) v : Permutation ops ops' -> avg W ops v = avg W ops' v.
  Proof.
    intros H. unfold avg. rewrite (Permutation_length H). f_equal.
    apply vsum_perm. apply Permutation_map. exact H.
  Qed.

  (** fixed by the whole group  <->  fixed by the representatives and by the translations *)
  Theorem full_fixed_iff (reps trans : list op) v :
    (exists e, In e reps /\ forall w, e w = w) -> (exists e, In e trans /\ forall w, e w = w) ->
    ((forall g, In g (products reps trans) -> g v = v) <->
     (forall r, In r reps -> r v = v) /\ (forall t, In t trans -> t v = v)).
  Proof.
    intros [e1 [He1 Hid1]] [e2 [He2 Hid2]]. unfold products. split.
    - intros H. split.
      + intros r Hr. rewrite <- (Hid2 v) at 1.
        apply (H (fun w => r (e2 w))). apply in_flat_map. exists r. split; [exact Hr|].
        apply (in_map (fun (t : op) (w : W) => r (t w))). exact He2.
      + intros t Ht. rewrite <- (Hid1 (t v)).
        apply (H (fun w => e1 (t w))). apply in_flat_map. exists e1. split; [exact He1|].
        apply (in_map (fun (t0 : op) (w : W) => e1 (t0 w))). exact Ht.
    - intros [Hr Ht] g Hg. apply in_flat_map in Hg. destruct Hg as [r [Hr' Hg]].
      apply in_map_iff in Hg. destruct Hg as [t [<- Ht']].
      rewrite (Ht t Ht'). apply Hr. exact Hr'.
  Qed.
End CosetAvg.

(** Non-vacuity: on R x R x R with representatives {id, swap of the first two coordinates} and "translations"
    {id, id} (acting trivially, as pure translations do on translation-compressed coordinates) the hypotheses hold and
    the two averages are the same non-trivial vector. *)
From SymfcV Require Import IPSInst.
Definition W3 : IPS := prod_IPS R_IPS (prod_IPS R_IPS R_IPS).
Definition c_id (w : W3) : W3 := w.
Definition c_swap (w : W3) : W3 := (fst (snd w), (fst w, snd (snd w))).
Example coset_instance :
  let v : W3 := (1, (3, 5)) in
  (forall t, In t [c_id; c_id] -> t v = v) /\
  avg W3 (products W3 [c_id; c_swap] [c_id; c_id]) v = (2, (2, 5)) /\ avg W3 [c_id; c_swap] v = (2, (2, 5)).
Proof.
  cbv zeta. split; [intros t [<-|[<-|[]]]; reflexivity|].
  split; unfold avg, products, c_id, c_swap; cbn; f_equal; [field | f_equal; field | field | f_equal; field].
Qed.
