(** Projector eigen-solvers (eig_tools.py), over abstract inner-product spaces.

    The wrappers around numpy's eigh do three structural things; each is justified here for every
    symmetric M with 0 <= M <= I:
      (B) split the matrix into the connected components of its sparsity graph and solve each block:
          for a block-diagonal M the unit eigenvectors are exactly the vectors whose block components are
          unit eigenvectors of the blocks;
      (S) [_block_eigh_projector]: take unit eigenvectors of principal sub-blocks (they lift), then solve
          the rest inside the orthogonal complement spanned by the non-unit eigenvectors of the sub-blocks
          -- complete only if every sub-block contributes its coordinates to the complement;
      (1) 1x1 blocks [m]: a unit eigenvector iff m = 1.
    numpy.linalg.eigh itself is an oracle (assumed to return an orthonormal eigenbasis). *)
From Coq Require Import Reals Lra Bool.
From SymfcV Require Import IPS.
From SymfcG Require Import EigStruct.
Open Scope R_scope.

(** ** (B) block-diagonal matrices *)
Section BlockDiag.
  Variables W W1 W2 : IPS.
  Variable J1 : W1 -> W.  Variable J1t : W -> W1.
  Variable J2 : W2 -> W.  Variable J2t : W -> W2.
  Variable M : W -> W.  Variable M1 : W1 -> W1.  Variable M2 : W2 -> W2.
  Hypothesis J1_iso : forall x y, ip (J1 x) (J1 y) = ip x y.
  Hypothesis J2_iso : forall x y, ip (J2 x) (J2 y) = ip x y.
  Hypothesis J1_adj : forall x w, ip (J1 x) w = ip x (J1t w).
  Hypothesis J2_adj : forall x w, ip (J2 x) w = ip x (J2t w).
  Hypothesis J_orth : forall x y, ip (J1 x) (J2 y) = 0.
  Hypothesis J_complete : forall w, w = vadd (J1 (J1t w)) (J2 (J2t w)).
  Hypothesis M_block1 : forall x, M (J1 x) = J1 (M1 x).
  Hypothesis M_block2 : forall y, M (J2 y) = J2 (M2 y).
  Hypothesis M_add : forall x y, M (vadd x y) = vadd (M x) (M y).

  Lemma J1tJ1 x : J1t (J1 x) = x.
  Proof. apply ip_ext. intro z. rewrite ip_sym, <- J1_adj, J1_iso, ip_sym. reflexivity. Qed.
  Lemma J2tJ2 y : J2t (J2 y) = y.
  Proof. apply ip_ext. intro z. rewrite ip_sym, <- J2_adj, J2_iso, ip_sym. reflexivity. Qed.
  Lemma J1tJ2 y : J1t (J2 y) = vzero.
  Proof. apply ip_ext. intro z. rewrite ip_sym, <- J1_adj, J_orth, ip_zero_l. reflexivity. Qed.
  Lemma J2tJ1 x : J2t (J1 x) = vzero.
  Proof. apply ip_ext. intro z. rewrite ip_sym, <- J2_adj, ip_sym, J_orth, ip_zero_l. reflexivity. Qed.

  Lemma J1t_add a b : J1t (vadd a b) = vadd (J1t a) (J1t b).
  Proof. apply ip_ext. intro z. rewrite ip_add_l. rewrite !(ip_sym _ z), <- !J1_adj, ip_add_r. reflexivity. Qed.
  Lemma J2t_add a b : J2t (vadd a b) = vadd (J2t a) (J2t b).
  Proof. apply ip_ext. intro z. rewrite ip_add_l. rewrite !(ip_sym _ z), <- !J2_adj, ip_add_r. reflexivity. Qed.

  Lemma vzero_add_l (S : IPS) (x : S) : vadd vzero x = x.
  Proof. rewrite vadd_comm. apply vadd_zero. Qed.

  Theorem block_unit_eigenvectors v :
    M v = v <-> M1 (J1t v) = J1t v /\ M2 (J2t v) = J2t v.
  Proof.
    split.
    - intros H.
      assert (E : M v = vadd (J1 (M1 (J1t v))) (J2 (M2 (J2t v)))).
      { rewrite (J_complete v) at 1. rewrite M_add, M_block1, M_block2. reflexivity. }
      rewrite H in E. split.
      + assert (E1 : J1t v = J1t (vadd (J1 (M1 (J1t v))) (J2 (M2 (J2t v))))) by (rewrite <- E; reflexivity).
        rewrite J1t_add, J1tJ1, J1tJ2, vadd_zero in E1. symmetry. exact E1.
      + assert (E2 : J2t v = J2t (vadd (J1 (M1 (J1t v))) (J2 (M2 (J2t v))))) by (rewrite <- E; reflexivity).
        rewrite J2t_add, J2tJ2, J2tJ1, vzero_add_l in E2. symmetry. exact E2.
    - intros [H1 H2]. rewrite (J_complete v) at 1. rewrite M_add, M_block1, M_block2, H1, H2.
      symmetry. apply J_complete.
  Qed.
End BlockDiag.

(** ** (S) solving inside the complement of the unit vectors already found *)
Section Complement.
  Variables W F K : IPS.            (* all coordinates; coefficient spaces of found vectors and of the complement *)
  Variable Fm : F -> W.  Variable Fmt : W -> F.    (* found unit eigenvectors as columns *)
  Variable Km : K -> W.  Variable Kmt : W -> K.    (* complement columns *)
  Variable M : W -> W.
  Hypothesis K_iso : forall x y, ip (Km x) (Km y) = ip x y.
  Hypothesis K_adj : forall x w, ip (Km x) w = ip x (Kmt w).
  Hypothesis F_adj : forall x w, ip (Fm x) w = ip x (Fmt w).
  Hypothesis FK_orth : forall x y, ip (Fm x) (Km y) = 0.
  (** completeness of found + complement columns: the hypothesis that fails when a skipped sub-block
      does not contribute its coordinates *)
  Hypothesis FK_complete : forall w, w = vadd (Fm (Fmt w)) (Km (Kmt w)).
  Hypothesis M_add : forall x y, M (vadd x y) = vadd (M x) (M y).
  Hypothesis M_scale : forall a x, M (vscale a x) = vscale a (M x).
  Hypothesis M_sym : forall x y, ip (M x) y = ip x (M y).
  Hypothesis M_le_I : forall x, ip x (M x) <= ip x x.

  Lemma Fmt_K y : Fmt (Km y) = vzero.
  Proof. apply ip_ext. intro z. rewrite ip_sym, <- F_adj, FK_orth, ip_zero_l. reflexivity. Qed.

  (** The unit eigenvectors of M orthogonal to the found ones are exactly K z with (K^T M K) z = z:
      nothing with eigenvalue below one is added, no unit direction is dropped. *)
  Theorem complement_complete v :
    (M v = v /\ Fmt v = vzero) <-> exists z, v = Km z /\ Kmt (M (Km z)) = z.
  Proof.
    split.
    - intros [Hv Hf]. exists (Kmt v).
      assert (E : v = Km (Kmt v)).
      { rewrite (FK_complete v) at 1. rewrite Hf.
        assert (Z : Fm vzero = vzero).
        { apply ip_ext. intro z. rewrite F_adj, !ip_zero_l. reflexivity. }
        rewrite Z. rewrite vadd_comm. apply vadd_zero. }
      split; [exact E|]. rewrite <- E. rewrite Hv. reflexivity.
    - intros [z [-> Hz]]. split.
      + apply (subblock_unit_vectors_lift K W Km Kmt M K_iso K_adj M_add M_scale M_sym M_le_I z Hz).
      + apply Fmt_K.
  Qed.
End Complement.

(** ** (1) 1x1 blocks *)
Definition keep_1x1 (r : one_rule) (m : R) : Prop :=
  match r with KeepIfNonzero => m <> 0 | KeepIfOne => m = 1 end.

(** [m] has the unit eigenvector [1] iff m * 1 = 1 *)
Theorem one_by_one_rule_correct m : keep_1x1 KeepIfOne m <-> m * 1 = 1.
Proof. simpl. split; intros; lra. Qed.

Theorem one_by_one_nonzero_rule_refuted : exists m, 0 <= m <= 1 /\ keep_1x1 KeepIfNonzero m /\ m * 1 <> 1.
Proof. exists (1 / 2). simpl. repeat split; lra. Qed.
