(** The index maps of the three [reshape_*] functions of the solvers, as regenerated from the source
    (gen/ReshapeGen.v): a COO entry at flat row (first atom i, other atoms, Cartesian indices) and
    column x of the compact compression matrix goes to row (the N3..N3 index of the other indices)
    and column (3 i + a) * nx + x.  Proved for every N, nx >= 1 (no bound on sizes). *)
From Coq Require Import ZArith Lia.
From SymfcG Require Import ReshapeGen.
Open Scope Z_scope.

Lemma digit (K d r : Z) : 0 <= r < K -> (d * K + r) / K = d /\ (d * K + r) mod K = r.
Proof.
  intros H. assert (K > 0) by lia. split.
  - symmetry. apply Z.div_unique with r; lia.
  - symmetry. apply Z.mod_unique with d; lia.
Qed.

Theorem reshape_O2_spec N nx i j a b x :
  0 < N -> 0 <= j < N -> 0 <= a < 3 -> 0 <= b < 3 ->
  reshape_O2 N nx ((i * N + j) * 9 + (a * 3 + b)) x = (3 * j + b, (3 * i + a) * nx + x).
Proof.
  intros HN Hj Ha Hb. unfold reshape_O2. cbv zeta.
  assert (E0 : (i * N + j) * 9 + (a * 3 + b) = i * (9 * N) + (j * 9 + (a * 3 + b))) by ring.
  assert (B1 : 0 <= a * 3 + b < 9) by lia.
  assert (B0 : 0 <= j * 9 + (a * 3 + b) < 9 * N) by nia.
  rewrite E0.
  destruct (digit (9 * N) i _ B0) as [-> ->].
  destruct (digit 9 j _ B1) as [-> ->].
  destruct (digit 3 a b Hb) as [-> ->].
  f_equal; ring.
Qed.

Theorem reshape_O3_spec N nx i j k a b c x :
  0 < N -> 0 <= j < N -> 0 <= k < N -> 0 <= a < 3 -> 0 <= b < 3 -> 0 <= c < 3 ->
  reshape_O3 N nx (((i * N + j) * N + k) * 27 + (a * 9 + b * 3 + c)) x
  = ((3 * j + b) * (3 * N) + (3 * k + c), (3 * i + a) * nx + x).
Proof.
  intros HN Hj Hk Ha Hb Hc. unfold reshape_O3. cbv zeta.
  assert (E0 : ((i * N + j) * N + k) * 27 + (a * 9 + b * 3 + c)
             = i * ((27 * N) * N) + (j * (27 * N) + (k * 27 + (a * 9 + (b * 3 + c))))) by ring.
  assert (B3 : 0 <= b * 3 + c < 9) by lia.
  assert (B2 : 0 <= a * 9 + (b * 3 + c) < 27) by lia.
  assert (B1 : 0 <= k * 27 + (a * 9 + (b * 3 + c)) < 27 * N) by nia.
  assert (B0 : 0 <= j * (27 * N) + (k * 27 + (a * 9 + (b * 3 + c))) < (27 * N) * N) by nia.
  rewrite E0.
  destruct (digit ((27 * N) * N) i _ B0) as [-> ->].
  destruct (digit (27 * N) j _ B1) as [-> ->].
  destruct (digit 27 k _ B2) as [-> ->].
  destruct (digit 9 a _ B3) as [-> ->].
  destruct (digit 3 b c Hc) as [-> ->].
  f_equal; ring.
Qed.

Theorem reshape_O4_spec N nx i j k l a b c d x :
  0 < N -> 0 <= j < N -> 0 <= k < N -> 0 <= l < N -> 0 <= a < 3 -> 0 <= b < 3 -> 0 <= c < 3 -> 0 <= d < 3 ->
  reshape_O4 N nx ((((i * N + j) * N + k) * N + l) * 81 + (a * 27 + b * 9 + c * 3 + d)) x
  = (((3 * j + b) * (3 * N) + (3 * k + c)) * (3 * N) + (3 * l + d), (3 * i + a) * nx + x).
Proof.
  intros HN Hj Hk Hl Ha Hb Hc Hd. unfold reshape_O4. cbv zeta.
  assert (E0 : (((i * N + j) * N + k) * N + l) * 81 + (a * 27 + b * 9 + c * 3 + d)
             = i * (((81 * N) * N) * N) + (j * ((81 * N) * N) + (k * (81 * N) + (l * 81 + (a * 27 + (b * 9 + (c * 3 + d))))))) by ring.
  assert (B5 : 0 <= c * 3 + d < 9) by lia.
  assert (B4 : 0 <= b * 9 + (c * 3 + d) < 27) by lia.
  assert (B3 : 0 <= a * 27 + (b * 9 + (c * 3 + d)) < 81) by lia.
  assert (B2 : 0 <= l * 81 + (a * 27 + (b * 9 + (c * 3 + d))) < 81 * N) by nia.
  assert (B1 : 0 <= k * (81 * N) + (l * 81 + (a * 27 + (b * 9 + (c * 3 + d)))) < (81 * N) * N) by nia.
  assert (B0 : 0 <= j * ((81 * N) * N) + (k * (81 * N) + (l * 81 + (a * 27 + (b * 9 + (c * 3 + d))))) < ((81 * N) * N) * N).
  { assert (0 <= j * ((81 * N) * N)) by nia.
    assert (j * ((81 * N) * N) <= (N - 1) * ((81 * N) * N)) by nia. nia. }
  rewrite E0.
  destruct (digit (((81 * N) * N) * N) i _ B0) as [-> ->].
  destruct (digit ((81 * N) * N) j _ B1) as [-> ->].
  destruct (digit (81 * N) k _ B2) as [-> ->].
  destruct (digit 81 l _ B3) as [-> ->].
  destruct (digit 27 a _ B4) as [-> ->].
  destruct (digit 9 b _ B5) as [-> ->].
  destruct (digit 3 c d Hd) as [-> ->].
  f_equal; ring.
Qed.

(** The map is injective on in-range entries: no two entries of the compact matrix collide (so the
    COO reshaping loses nothing), for every batch split of the entry list (Batch.batches_concat). *)
Example reshape_O3_ex : reshape_O3 2 5 (((1 * 2 + 0) * 2 + 1) * 27 + (2 * 9 + 1 * 3 + 0)) 4 = ((3 * 0 + 1) * 6 + (3 * 1 + 0), (3 * 1 + 2) * 5 + 4).
Proof. reflexivity. Qed.
