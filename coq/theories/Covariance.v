(** Covariance of the fit and of the admissible space under a change of description that acts by isometries
    (C10: rotating crystal and data by an orthogonal matrix; relabelling atoms; both act on the tensor spaces and on the
    force space as signed permutations / Kronecker powers of an orthogonal matrix, i.e. as isometries).

    If the design of the second description is the first one transported (X' o qC = qO o X) and the observations are
    transported (y' = qO y), then costs agree, so the constrained least-squares minimisers of the second description are
    exactly the transported minimisers of the first; and the vectors fixed by the transported operators g' (with
    g' o q = q o g) are exactly the transported fixed vectors. *)
From Coq Require Import Reals Lra List.
Import ListNotations.
From SymfcV Require Import IPS IPSInst.
Open Scope R_scope.

Section FitCovariance.
  Variables C C' O O' : IPS.
  Variable X : C -> O.
  Variable X' : C' -> O'.
  Variable qC : C -> C'.
  Variable qO : O -> O'.
  Hypothesis qO_iso : forall a b, ip (qO a) (qO b) = ip a b.
  Hypothesis qO_sub : forall a b, qO (vsub a b) = vsub (qO a) (qO b).
  Hypothesis intertwine : forall c, X' (qC c) = qO (X c).
  Variable Adm : C -> Prop.
  Definition Adm' (c' : C') : Prop := exists c, Adm c /\ c' = qC c.
  Variable y : O.

  Theorem cost_covariant c : cost C' O' X' (qO y) (qC c) = cost C O X y c.
  Proof. unfold cost, resid. rewrite intertwine, <- qO_sub, qO_iso. reflexivity. Qed.

  Definition cmin (c : C) : Prop := Adm c /\ forall z, Adm z -> cost C O X y c <= cost C O X y z.
  Definition cmin' (c' : C') : Prop := Adm' c' /\ forall z', Adm' z' -> cost C' O' X' (qO y) c' <= cost C' O' X' (qO y) z'.

  Theorem minimiser_transported c : cmin c -> cmin' (qC c).
  Proof.
    intros [Ha Hm]. split; [exists c; split; [exact Ha | reflexivity]|].
    intros z' [z [Hz ->]]. rewrite !cost_covariant. apply Hm. exact Hz.
  Qed.

  Theorem minimiser_only_transported c' : cmin' c' -> exists c, cmin c /\ c' = qC c.
  Proof.
    intros [[c [Ha ->]] Hm]. exists c. split; [|reflexivity]. split; [exact Ha|].
    intros z Hz. rewrite <- !cost_covariant. apply Hm. exists z. split; [exact Hz | reflexivity].
  Qed.
End FitCovariance.

Section FixedCovariance.
  Variables W W' : IPS.
  Variable q : W -> W'.
  Variable qi : W' -> W.
  Hypothesis qi_q : forall v, qi (q v) = v.
  Variable ops : list ((W -> W) * (W' -> W')).      (* each operator with its transported form *)
  Hypothesis transported : forall g g', In (g, g') ops -> forall v, g' (q v) = q (g v).

  Theorem fixed_space_transported v :
    (forall g g', In (g, g') ops -> g v = v) <-> (forall g g', In (g, g') ops -> g' (q v) = q v).
  Proof.
    split; intros H g g' Hin.
    - rewrite (transported g g' Hin), (H g g' Hin). reflexivity.
    - rewrite <- (qi_q (g v)), <- (transported g g' Hin), (H g g' Hin). apply qi_q.
  Qed.
End FixedCovariance.

(** Non-vacuity on R: design c |-> 2c, inversion of both spaces (the 1-D orthogonal map), all coefficients admissible. *)
Definition X_ex (c : R) : R := 2 * c.
Definition neg_ex (c : R) : R := - c.
Example covariance_hypotheses_hold :
  (forall a b : R_IPS, @ip R_IPS (neg_ex a) (neg_ex b) = ip a b) /\
  (forall a b : R_IPS, neg_ex (@vsub R_IPS a b) = @vsub R_IPS (neg_ex a) (neg_ex b)) /\
  (forall c : R_IPS, X_ex (neg_ex c) = neg_ex (X_ex c)) /\
  cmin R_IPS R_IPS X_ex (fun _ => True) 6 3 /\ cmin' R_IPS R_IPS R_IPS R_IPS X_ex neg_ex neg_ex (fun _ => True) 6 (-3).
Proof.
  assert (H1 : forall a b : R_IPS, @ip R_IPS (neg_ex a) (neg_ex b) = ip a b) by (intros a b; unfold neg_ex; cbn; ring).
  assert (H2 : forall a b : R_IPS, neg_ex (@vsub R_IPS a b) = @vsub R_IPS (neg_ex a) (neg_ex b)) by (intros a b; unfold neg_ex, vsub; cbn; ring).
  assert (H3 : forall c : R_IPS, X_ex (neg_ex c) = neg_ex (X_ex c)) by (intros c; unfold X_ex, neg_ex; ring).
  assert (H4 : cmin R_IPS R_IPS X_ex (fun _ => True) 6 3).
  { split; [exact I|]. intros z _. unfold cost, resid, vsub, X_ex. cbn. match goal with |- ?l <= ?r => replace l with 0 by ring; set (t := (6 + -1 * (2 * z))); replace r with (t * t) by (unfold t; ring); nra end. }
  split; [exact H1|]. split; [exact H2|]. split; [exact H3|]. split; [exact H4|].
  replace (-3) with (neg_ex 3) by (unfold neg_ex; ring).
  exact (minimiser_transported R_IPS R_IPS R_IPS R_IPS X_ex X_ex neg_ex neg_ex H1 H2 H3 (fun _ => True) 6 3 H4).
Qed.
