(** Prelude of the generated file gen/DesignGen.v: digits of a flat row-major index. *)
From Coq Require Import ZArith.
Open Scope Z_scope.

(** digit [p] (0 = most significant) of [r] written with [m] digits in base [B] *)
Definition zdigit (B : Z) (m p : nat) (r : Z) : Z := (r / B ^ Z.of_nat (m - 1 - p)) mod B.
