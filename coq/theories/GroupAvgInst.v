(** Non-vacuity of the group-average theorems (GroupAvg.v): the two-element group {identity, swap} acting on R x R
    meets every hypothesis of [compressed_unit_eigs_are_invariants]; the diagonal compression gives an invariant
    (eigenvalue 1), the axis compression does not (eigenvalue 1/2). *)
From Coq Require Import Reals Lra List Permutation.
Import ListNotations.
From SymfcV Require Import IPS IPSInst SolverModel GroupAvg.
Open Scope R_scope.

Definition W2 : IPS := prod_IPS R_IPS R_IPS.
Definition op_id (w : W2) : W2 := w.
Definition op_swap (w : W2) : W2 := (snd w, fst w).
Definition ops_ex : list (W2 -> W2) := [op_id; op_swap].
Definition Caxis_ex (y : R_IPS) : W2 := (y, 0).
Definition Caxis_t (w : W2) : R_IPS := fst w.

Example group_hypotheses_hold :
  (forall g, In g ops_ex -> forall x y, g (vadd x y) = vadd (g x) (g y)) /\
  (forall g, In g ops_ex -> forall a x, g (vscale a x) = vscale a (g x)) /\
  ops_ex <> [] /\
  (forall h, In h ops_ex -> exists l', Permutation l' ops_ex /\
      Forall2 (fun a b => forall v : W2, a v = b v) (map (fun g v => h (g v)) ops_ex) l') /\
  (forall g, In g ops_ex -> forall x y, ip (g x) (g y) = ip x y) /\
  (exists l', Permutation l' ops_ex /\ Forall2 (fun a b => forall v : W2, a (b v) = v) ops_ex l').
Proof.
  unfold ops_ex. repeat split.
  - intros g [<-|[<-|[]]] [x1 x2] [y1 y2]; reflexivity.
  - intros g [<-|[<-|[]]] a [x1 x2]; reflexivity.
  - discriminate.
  - intros h [<-|[<-|[]]].
    + exists [op_id; op_swap]. split; [apply Permutation_refl|].
      repeat constructor; intros [v1 v2]; reflexivity.
    + exists [op_swap; op_id]. split; [apply perm_swap|].
      repeat constructor; intros [v1 v2]; reflexivity.
  - intros g [<-|[<-|[]]] [x1 x2] [y1 y2]; cbn; ring.
  - exists [op_id; op_swap]. split; [apply Permutation_refl|].
    repeat constructor; intros [v1 v2]; reflexivity.
Qed.

Example axis_compression_hypotheses_hold :
  (forall x y, ip (Caxis_ex x) (Caxis_ex y) = ip x y) /\ (forall x w, ip (Caxis_ex x) w = ip x (Caxis_t w)).
Proof. split; [intros x y | intros x [w1 w2]]; unfold Caxis_ex, Caxis_t; cbn; ring. Qed.

(** both sides of the theorem on the diagonal compression (true) ... *)
Example diag_is_invariant : (forall g, In g ops_ex -> g (Cm_ex 1) = Cm_ex 1) /\ Ct_ex (avg W2 ops_ex (Cm_ex 1)) = 1.
Proof.
  assert (H : forall g, In g ops_ex -> g (Cm_ex 1) = Cm_ex 1).
  { intros g [<-|[<-|[]]]; reflexivity. }
  split; [exact H|].
  destruct group_hypotheses_hold as [A [B [C [D [E F]]]]].
  destruct compression_hypotheses_hold as [Ci [Ca _]].
  apply (compressed_unit_eigs_are_invariants R_IPS W2 Cm_ex Ct_ex ops_ex Ci Ca A B C D E F). exact H.
Qed.

(** ... and on the axis compression (false): the swap moves (1,0), and the compressed average has eigenvalue 1/2 *)
Example axis_is_not_invariant : op_swap (Caxis_ex 1) <> Caxis_ex 1 /\ Caxis_t (avg W2 ops_ex (Caxis_ex 1)) = / 2.
Proof.
  split.
  - unfold op_swap, Caxis_ex. cbn. intros H. injection H as H1 H2. lra.
  - unfold avg, ops_ex, Caxis_t, Caxis_ex, op_id, op_swap. cbn. field.
Qed.
