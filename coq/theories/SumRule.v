(** Translational sum rule.

    [compressed_projector_sum_rules_On] builds, for every atom tuple J = (j, k, ..) of the n-1 trailing
    atoms whose first atom j is translationally independent and every Cartesian tuple c, the row
        s_(J,c) = sum over atoms i (with (i,J) mutually inside the cutoff) of  e_( elem (i :: J, c) ),
    stacks them into A and returns  I - (A C)^T (A C) / N.  Unit eigenvectors z of that matrix are
    exactly the solutions of A C z = 0 (IPS.unit_eig_of_constraints).  This file shows that the rows
    with independent j are enough: the first-index sum for any J equals the one for a translate of J
    whose first atom is independent; and that a permutation-symmetric tensor whose first-index sums
    vanish has vanishing sums over every index position. *)
From Coq Require Import List Arith Lia Bool Reals Lra Psatz Permutation NArith PArith ZArith FMapPositive.
Import ListNotations.
From SymfcV Require Import Tuples Group Concrete Cutoff SolverModel.
Local Open Scope nat_scope.

(** index tuple from atoms and carts *)
Definition join (atoms carts : list nat) : tuple := map (fun ac => 3 * fst ac + snd ac) (combine atoms carts).

Section Sum.
  Variable N : nat.
  Variable tp : table.
  Hypothesis Hv : valid_tp N tp = true.
  Let nlp := length tp.

  Lemma join_shift tau atoms carts : Forall (fun c => c < 3) carts ->
    map (tshift_tab tp tau) (join atoms carts) = join (shift (act tp) tau atoms) carts.
  Proof.
    intros Hc. unfold join, shift. revert carts Hc. induction atoms as [|a atoms IH]; intros carts Hc; [reflexivity|].
    destruct carts as [|c carts]; [reflexivity|]. inversion Hc; subst. cbn [combine map fst snd]. f_equal.
    - unfold tshift_tab.
      assert (E1 : (3 * a + c) / 3 = a).
      { rewrite (Nat.mul_comm 3 a), Nat.div_add_l by lia. rewrite (Nat.div_small c 3) by assumption. lia. }
      assert (E2 : (3 * a + c) mod 3 = c).
      { rewrite Nat.add_comm, (Nat.mul_comm 3 a), Nat.mod_add by lia. apply Nat.mod_small. assumption. }
      rewrite E1, E2. reflexivity.
    - apply IH. assumption.
  Qed.

  (** the translation tau permutes the atoms *)
  Lemma act_perm tau : tau < nlp -> Permutation (map (act tp tau) (seq 0 N)) (seq 0 N).
  Proof.
    intros Ht. apply NoDup_Permutation_bis.
    - apply map_nodup_in; [|apply seq_NoDup].
      intros a b Ha Hb E. apply in_seq in Ha, Hb.
      destruct (v_inverse N tp Hv tau Ht) as [u [Hu Hinv]].
      destruct (Hinv a ltac:(lia)) as [Ea _]. destruct (Hinv b ltac:(lia)) as [Eb _].
      rewrite <- Ea, <- Eb, E. reflexivity.
    - rewrite map_length. lia.
    - intros x Hx. apply in_map_iff in Hx. destruct Hx as [i [<- Hi]]. apply in_seq in Hi.
      apply in_seq. pose proof (v_act_lt N tp Hv tau i Ht ltac:(lia)). lia.
  Qed.

  (** first-index sum of the expanded tensor of a coefficient function x *)
  Definition sum_first (x : positive -> R) (J carts : list nat) : R :=
    rsum (map (fun i => x (elem_tab N tp (join (i :: J) carts))) (seq 0 N)).

  (** The sum for J equals the sum for any translate of J: so the rows built for J with a
      translationally independent first atom cover every J. *)
  Theorem sum_first_translate x J carts tau n :
    tau < nlp -> 0 < n -> length J + 1 = n -> length carts = n -> in_range N J -> Forall (fun c => c < 3) carts ->
    sum_first x (shift (act tp) tau J) carts = sum_first x J carts.
  Proof.
    intros Ht Hn HlJ Hlc HJ Hc. unfold sum_first.
    rewrite <- (rsum_perm _ _ (Permutation_map _ (act_perm tau Ht))).
    rewrite map_map. apply rsum_map_ext. intros i Hi. apply in_seq in Hi.
    change (act tp tau i :: shift (act tp) tau J) with (shift (act tp) tau (i :: J)).
    rewrite <- (join_shift tau (i :: J) carts Hc).
    apply f_equal. apply (elem_tab_inv N tp Hv n); [exact Hn | exact Ht |].
    split.
    - unfold join. rewrite map_length, combine_length. cbn [length]. rewrite Hlc. apply Nat.min_r. lia.
    - unfold join. apply Forall_forall. intros p Hp. apply in_map_iff in Hp. destruct Hp as [[a c] [<- Hac]].
      pose proof (in_combine_l _ _ _ _ Hac) as Ha. pose proof (in_combine_r _ _ _ _ Hac) as Hcc.
      assert (a < N) by (destruct Ha as [<-|Ha]; [lia | unfold in_range in HJ; rewrite Forall_forall in HJ; auto]).
      rewrite Forall_forall in Hc. specialize (Hc c Hcc). simpl. lia.
  Qed.

  (** every J has a translate whose first atom is independent *)
  Theorem J_has_indep_translate J : J <> [] -> in_range N J ->
    exists tau, tau < nlp /\ In (hd 0 (shift (act tp) tau J)) (indep_t N tp).
  Proof.
    intros Hne HJ. destruct (cls_canonical N tp Hv J Hne HJ) as [_ [Hin [t [Ht E]]]].
    exists t. split; [exact Ht|]. rewrite <- E. exact Hin.
  Qed.
End Sum.

(** A permutation-symmetric tensor whose first-index sums vanish has vanishing sums over every index
    position (positions are exchanged by a transposition). *)
Section AllPositions.
  Variable N : nat.
  Variable Phi : tuple -> R.      (* a tensor as a function of index tuples (p = 3 atom + cart) *)
  Definition set_pos (k : nat) (p : nat) (t : tuple) : tuple := firstn k t ++ p :: skipn (S k) t.
  Definition pos_sum (k a : nat) (t : tuple) : R := rsum (map (fun i => Phi (set_pos k (3 * i + a) t)) (seq 0 N)).

  (** transposition (0 k) as a position permutation of length n *)
  Definition transp (n k : nat) : list nat := map (fun s => if s =? 0 then k else if s =? k then 0 else s) (seq 0 n).

  Hypothesis Phi_sym : forall n t k, length t = n -> k < n -> Phi (permute (transp n k) t) = Phi t.

  Lemma nth_set_pos_same k p t : k < length t -> nth k (set_pos k p t) 0 = p.
  Proof.
    intros Hk. unfold set_pos. rewrite app_nth2 by (rewrite firstn_length; lia).
    rewrite firstn_length, Nat.min_l by lia. rewrite Nat.sub_diag. reflexivity.
  Qed.

  Lemma set_pos_length k p t : k < length t -> length (set_pos k p t) = length t.
  Proof. intros Hk. unfold set_pos. rewrite app_length, firstn_length. cbn [length]. rewrite skipn_length. lia. Qed.

  Lemma nth_set_pos_other k s p t : k < length t -> s <> k -> nth s (set_pos k p t) 0 = nth s t 0.
  Proof.
    intros Hk Hs.
    destruct (Nat.lt_ge_cases s (length t)) as [Hl|Hl].
    - unfold set_pos. destruct (Nat.lt_ge_cases s k) as [Hlt|Hge].
      + rewrite app_nth1 by (rewrite firstn_length; lia).
        rewrite <- (firstn_skipn k t) at 2. rewrite app_nth1 by (rewrite firstn_length; lia). reflexivity.
      + rewrite app_nth2 by (rewrite firstn_length; lia).
        rewrite firstn_length, Nat.min_l by lia.
        replace (s - k) with (S (s - S k)) by lia. cbn [nth].
        rewrite <- (firstn_skipn (S k) t) at 2. rewrite app_nth2 by (rewrite firstn_length; lia).
        rewrite firstn_length, Nat.min_l by lia. reflexivity.
    - rewrite (nth_overflow t) by lia. apply nth_overflow. rewrite set_pos_length by exact Hk. lia.
  Qed.

  Lemma nth_permute pi u s : s < length pi -> nth s (permute pi u) 0 = nth (nth s pi 0) u 0.
  Proof.
    intros Hs. unfold permute.
    rewrite nth_indep with (d' := nth 0 u 0) by (rewrite map_length; exact Hs).
    rewrite map_nth with (f := fun s0 => nth s0 u 0). reflexivity.
  Qed.

  Lemma transp_length n k : length (transp n k) = n.
  Proof. unfold transp. rewrite map_length, seq_length. reflexivity. Qed.

  Lemma nth_transp n k s : s < n -> nth s (transp n k) 0 = if s =? 0 then k else if s =? k then 0 else s.
  Proof.
    intros Hs. unfold transp.
    rewrite nth_indep with (d' := (fun s0 => if s0 =? 0 then k else if s0 =? k then 0 else s0) 0)
      by (rewrite map_length, seq_length; exact Hs).
    rewrite map_nth with (f := fun s0 => if s0 =? 0 then k else if s0 =? k then 0 else s0).
    rewrite seq_nth by exact Hs. reflexivity.
  Qed.

  Lemma permute_transp_set n k p t : length t = n -> 0 < k < n ->
    permute (transp n k) (set_pos k p t) = set_pos 0 p (permute (transp n k) t).
  Proof.
    intros Hl Hk.
    assert (Hlp : length (permute (transp n k) t) = n) by (rewrite permute_length; apply transp_length).
    apply nth_ext with (d := 0) (d' := 0).
    - rewrite permute_length, transp_length. rewrite set_pos_length by lia. lia.
    - intros s Hs. rewrite permute_length, transp_length in Hs.
      rewrite nth_permute by (rewrite transp_length; exact Hs). rewrite nth_transp by exact Hs.
      destruct (s =? 0) eqn:E0.
      + apply Nat.eqb_eq in E0. subst s. rewrite nth_set_pos_same by lia. rewrite nth_set_pos_same by lia. reflexivity.
      + apply Nat.eqb_neq in E0. rewrite (nth_set_pos_other 0 s) by lia.
        rewrite nth_permute by (rewrite transp_length; exact Hs). rewrite nth_transp by exact Hs.
        destruct (s =? 0) eqn:E0'; [apply Nat.eqb_eq in E0'; contradiction|].
        destruct (s =? k) eqn:Ek.
        * apply nth_set_pos_other; lia.
        * apply Nat.eqb_neq in Ek. apply nth_set_pos_other; lia.
  Qed.

  Theorem sum_rule_all_positions n :
    (forall a t, length t = n -> pos_sum 0 a t = 0%R) ->
    forall k a t, length t = n -> k < n -> pos_sum k a t = 0%R.
  Proof.
    intros H0 k a t Hl Hk. destruct k as [|k']; [apply H0; exact Hl|].
    unfold pos_sum.
    rewrite (rsum_map_ext _ (fun i => Phi (set_pos 0 (3 * i + a) (permute (transp n (S k')) t)))).
    - apply (H0 a (permute (transp n (S k')) t)).
      rewrite permute_length. unfold transp. rewrite map_length, seq_length. reflexivity.
    - intros i _. rewrite <- (Phi_sym n (set_pos (S k') (3 * i + a) t) (S k')).
      + rewrite permute_transp_set; [reflexivity | exact Hl | lia].
      + unfold set_pos. rewrite app_length, firstn_length. cbn [length]. rewrite skipn_length. lia.
      + exact Hk.
  Qed.
End AllPositions.

(** Executable rows of the sum-rule matrix A (for the correspondence with
    [compressed_projector_sum_rules_On] called with an identity compression matrix). *)
Fixpoint all_lists (n : nat) (vals : list nat) : list (list nat) :=
  match n with
  | 0 => [[]]
  | S n' => flat_map (fun v => map (cons v) (all_lists n' vals)) vals
  end.

Definition sumrule_rows (n N : nat) (tp : table) (nr : option near) : list (list Z) :=
  flat_map (fun J =>
    if existsb (Nat.eqb (hd 0 J)) (indep_t N tp) then
      map (fun carts =>
        flat_map (fun i =>
          let a := i :: J in
          if match nr with None => true | Some r => atoms_mutually_near r a end
          then [Z.of_N (Pos.pred_N (elem_tab N tp (join a carts)))] else []) (seq 0 N))
        (all_lists n [0; 1; 2])
    else []) (all_lists (n - 1) (seq 0 N)).

Lemma filter_len_le {A} (f : A -> bool) l : length (filter f l) <= length l.
Proof. induction l as [|x l IH]; simpl; [lia|]. destruct (f x); simpl; lia. Qed.

(** ** The sum-rule matrix lies between 0 and I.
    Rows (J, c) with translationally independent first atom of J have pairwise disjoint supports and at most N
    unit entries each, so  |A x|^2 <= N |x|^2 : the matrix I - A^T A / N is positive semidefinite and bounded
    by the identity (its eigenvalues are in [0,1]; the eigen-solver's window check cannot fire and the
    hypothesis 0 <= M <= I of the C15 theorems holds for it). *)
Section Spectrum.
  Variable N : nat.
  Variable tp : table.
  Hypothesis Hv : valid_tp N tp = true.
  Let nlp := length tp.
  Variable n : nat.
  Hypothesis Hn : 0 < n.

  Definition srow (keep : nat -> bool) (J carts : list nat) : list positive :=
    map (fun i => elem_tab N tp (join (i :: J) carts)) (filter keep (seq 0 N)).

  Lemma join_wf J carts i : i < N -> in_range N J -> length J + 1 = n -> length carts = n -> Forall (fun c => c < 3) carts ->
    wf_t N n (join (i :: J) carts).
  Proof.
    intros Hi HJ HlJ Hlc Hc. split.
    - unfold join. rewrite map_length, combine_length. cbn [length]. rewrite Hlc. apply Nat.min_r. lia.
    - unfold join. apply Forall_forall. intros p Hp. apply in_map_iff in Hp. destruct Hp as [[a c] [<- Hac]].
      pose proof (in_combine_l _ _ _ _ Hac) as Ha. pose proof (in_combine_r _ _ _ _ Hac) as Hcc.
      assert (a < N) by (destruct Ha as [<-|Ha]; [lia | unfold in_range in HJ; rewrite Forall_forall in HJ; auto]).
      rewrite Forall_forall in Hc. specialize (Hc c Hcc). simpl. lia.
  Qed.

  Lemma atoms_join atoms carts : length atoms = length carts -> Forall (fun c => c < 3) carts -> atoms_of (join atoms carts) = atoms.
  Proof.
    revert carts. induction atoms as [|a atoms IH]; intros carts Hl Hc; destruct carts as [|c carts]; try discriminate; [reflexivity|].
    inversion Hc; subst. unfold join, atoms_of in *. cbn [combine map fst snd]. f_equal.
    - rewrite (Nat.mul_comm 3 a), Nat.div_add_l by lia. rewrite Nat.div_small by assumption. lia.
    - apply IH; [simpl in Hl; lia | assumption].
  Qed.

  Lemma carts_join atoms carts : length atoms = length carts -> Forall (fun c => c < 3) carts -> carts_of (join atoms carts) = carts.
  Proof.
    revert carts. induction atoms as [|a atoms IH]; intros carts Hl Hc; destruct carts as [|c carts]; try discriminate; [reflexivity|].
    inversion Hc; subst. unfold join, carts_of in *. cbn [combine map fst snd]. f_equal.
    - rewrite Nat.add_comm, (Nat.mul_comm 3 a), Nat.mod_add by lia. apply Nat.mod_small. assumption.
    - apply IH; [simpl in Hl; lia | assumption].
  Qed.

  (** equal elements of two (i :: J) tuples whose J start on independent atoms: same i, J and carts *)
  Lemma elem_join_inj i J carts i' J' carts' :
    i < N -> i' < N -> in_range N J -> in_range N J' -> length J + 1 = n -> length J' + 1 = n ->
    length carts = n -> length carts' = n -> Forall (fun c => c < 3) carts -> Forall (fun c => c < 3) carts' ->
    J <> [] -> In (hd 0 J) (indep_t N tp) -> In (hd 0 J') (indep_t N tp) ->
    elem_tab N tp (join (i :: J) carts) = elem_tab N tp (join (i' :: J') carts') -> i = i' /\ J = J' /\ carts = carts'.
  Proof.
    intros Hi Hi' HJ HJ' HlJ HlJ' Hlc Hlc' Hc Hc' HneJ Hind Hind' E.
    pose proof (join_wf J carts i Hi HJ HlJ Hlc Hc) as Hw. pose proof (join_wf J' carts' i' Hi' HJ' HlJ' Hlc' Hc') as Hw'.
    destruct (elem_tab_complete N tp Hv n _ _ Hn Hw Hw' E) as [tau [Htau Et]].
    assert (Ea : shift (act tp) tau (i :: J) = i' :: J').
    { rewrite <- (atoms_join (i :: J) carts) at 1 by (cbn [length]; lia || assumption).
      rewrite <- atoms_tshift. rewrite Et. apply atoms_join; [cbn [length]; lia | assumption]. }
    assert (Ec : carts = carts').
    { rewrite <- (carts_join (i :: J) carts) by (cbn [length]; lia || assumption).
      rewrite <- (carts_tshift tp tau). rewrite Et. apply carts_join; [cbn [length]; lia | assumption]. }
    unfold shift in Ea. cbn [map] in Ea. injection Ea as Ei EJ.
    destruct J as [|j J0]; [congruence|]. destruct J' as [|j' J0']; [discriminate|].
    cbn [map] in EJ. injection EJ as Ej EJ0. cbn [hd] in Hind, Hind'.
    assert (Hj : j < N) by (inversion HJ; assumption).
    assert (Ejj : j = j') by (apply (indep_unique_t N tp Hv j j' tau Hj Hind Hind' Htau Ej)).
    assert (Etau : tau = 0).
    { apply (v_free N tp Hv tau 0 j Htau (v_nlp_pos N tp Hv) Hj). rewrite Ej, <- Ejj. symmetry. apply (v_act_id N tp Hv). exact Hj. }
    rewrite Etau in *. split; [rewrite <- Ei; symmetry; apply (v_act_id N tp Hv); exact Hi|]. split; [|exact Ec].
    rewrite <- Ejj. f_equal. rewrite <- EJ0. rewrite <- (map_id J0) at 1. apply map_ext_in. intros x Hx. symmetry. apply (v_act_id N tp Hv).
    inversion HJ as [|? ? _ HJ0]; subst. rewrite Forall_forall in HJ0. apply HJ0. exact Hx.
  Qed.

  (** D1: a row has no repeated element (so at most N unit entries) *)
  Theorem srow_nodup keep J carts :
    in_range N J -> length J + 1 = n -> length carts = n -> Forall (fun c => c < 3) carts -> J <> [] -> In (hd 0 J) (indep_t N tp) ->
    NoDup (srow keep J carts) /\ length (srow keep J carts) <= N.
  Proof.
    intros HJ HlJ Hlc Hc Hne Hind. split.
    - unfold srow. apply map_nodup_in.
      + intros a b Ha Hb E. apply filter_In in Ha, Hb. destruct Ha as [Ha _], Hb as [Hb _]. apply in_seq in Ha, Hb.
        destruct (elem_join_inj a J carts b J carts ltac:(lia) ltac:(lia) HJ HJ HlJ HlJ Hlc Hlc Hc Hc Hne Hind Hind E) as [H _]. exact H.
      + apply NoDup_filter. apply seq_NoDup.
    - unfold srow. rewrite map_length. pose proof (filter_len_le keep (seq 0 N)) as H. rewrite seq_length in H. exact H.
  Qed.

  (** D2: two different rows share no element *)
  Theorem srows_disjoint keep keep' J carts J' carts' e :
    in_range N J -> in_range N J' -> length J + 1 = n -> length J' + 1 = n -> length carts = n -> length carts' = n ->
    Forall (fun c => c < 3) carts -> Forall (fun c => c < 3) carts' -> J <> [] ->
    In (hd 0 J) (indep_t N tp) -> In (hd 0 J') (indep_t N tp) ->
    In e (srow keep J carts) -> In e (srow keep' J' carts') -> J = J' /\ carts = carts'.
  Proof.
    intros HJ HJ' HlJ HlJ' Hlc Hlc' Hc Hc' Hne Hind Hind' He He'.
    unfold srow in He, He'. apply in_map_iff in He, He'. destruct He as [i [Ei Hi]]. destruct He' as [i' [Ei' Hi']].
    apply filter_In in Hi, Hi'. destruct Hi as [Hi _], Hi' as [Hi' _]. apply in_seq in Hi, Hi'.
    destruct (elem_join_inj i J carts i' J' carts' ltac:(lia) ltac:(lia) HJ HJ' HlJ HlJ' Hlc Hlc' Hc Hc' Hne Hind Hind' ltac:(congruence)) as [_ H]. exact H.
  Qed.
End Spectrum.

(** analytic part: (sum of k numbers)^2 <= k * (sum of their squares) *)
Local Open Scope R_scope.
Lemma rsum_sq_le (l : list R) : (rsum l * rsum l <= INR (length l) * rsum (map (fun a => a * a) l))%R.
Proof.
  induction l as [|a l IH]; [simpl; lra|].
  cbn [rsum map length]. rewrite S_INR.
  set (S := rsum l) in *. set (T := rsum (map (fun a0 => a0 * a0) l)) in *. set (k := INR (length l)) in *.
  assert (Hk : (0 <= k)%R) by (unfold k; apply pos_INR).
  assert (HT : (0 <= T)%R).
  { unfold T. clear. induction l as [|b l IH]; simpl; [lra|]. pose proof (Rle_0_sqr b) as H. unfold Rsqr in H. lra. }
  (* 2 a S <= k a^2 + T  follows from  S^2 <= k T  (discriminant) ; treat k = 0 separately *)
  clearbody S T k.
  destruct (Req_dec k 0) as [Hk0|Hk0].
  - rewrite Hk0 in *. assert (S * S <= 0)%R by lra. assert (S = 0)%R by nra. rewrite H0. nra.
  - assert (Hkp : (0 < k)%R) by lra.
    assert (H2 : (2 * a * S <= k * (a * a) + T)%R).
    { (* (k a - S)^2 >= 0  ->  2 a S k <= k^2 a^2 + S^2 <= k^2 a^2 + k T *)
      pose proof (Rle_0_sqr (k * a - S)) as Hsq. unfold Rsqr in Hsq.
      assert (2 * a * S * k <= k * k * (a * a) + k * T)%R by nra.
      apply (Rmult_le_reg_r k); [exact Hkp|]. nra. }
    nra.
Qed.

Lemma rsum_sub (f : positive -> R) : (forall e, 0 <= f e) ->
  forall (l E : list positive), NoDup l -> incl l E -> rsum (map f l) <= rsum (map f E).
Proof.
  intros Hf. induction l as [|x l IH]; intros E Hnd Hinc.
  - simpl. clear Hinc. induction E as [|y E IHE]; simpl; [lra | specialize (Hf y); lra].
  - inversion Hnd as [|? ? Hx Hl]; subst.
    assert (Hin : In x E) by (apply Hinc; left; reflexivity).
    apply in_split in Hin. destruct Hin as [E1 [E2 ->]].
    assert (Hinc' : incl l (E1 ++ E2)).
    { intros y Hy. assert (In y (E1 ++ x :: E2)) by (apply Hinc; right; exact Hy).
      apply in_app_iff in H. apply in_app_iff. destruct H as [H|[H|H]]; [left; exact H | subst; contradiction | right; exact H]. }
    specialize (IH (E1 ++ E2) Hl Hinc'). simpl. rewrite !map_app, !rsum_app in *. simpl. lra.
Qed.

(** |A x|^2 <= N |x|^2 for rows that are pairwise disjoint, duplicate-free, of length <= N *)
Theorem sumrule_quadratic_bound (N : nat) (rows : list (list positive)) (E : list positive) (x : positive -> R) :
  NoDup (concat rows) -> incl (concat rows) E -> (forall r, In r rows -> (length r <= N)%nat) ->
  rsum (map (fun r => rsum (map x r) * rsum (map x r)) rows) <= INR N * rsum (map (fun e => x e * x e) E).
Proof.
  intros Hnd Hinc Hlen.
  apply Rle_trans with (INR N * rsum (map (fun e => x e * x e) (concat rows))).
  - clear Hnd Hinc. induction rows as [|r rows IH]; [simpl; lra|].
    cbn [map rsum concat]. rewrite map_app, rsum_app.
    assert (Hr : rsum (map x r) * rsum (map x r) <= INR N * rsum (map (fun e => x e * x e) r)).
    { pose proof (rsum_sq_le (map x r)) as H. rewrite map_length, map_map in H.
      assert (Hsq : 0 <= rsum (map (fun e => x e * x e) r)).
      { clear. induction r as [|e r IH]; simpl; [lra|]. pose proof (Rle_0_sqr (x e)) as H. unfold Rsqr in H. lra. }
      assert (HN : INR (length r) <= INR N) by (apply le_INR; apply Hlen; left; reflexivity).
      nra. }
    specialize (IH (fun r0 H0 => Hlen r0 (or_intror H0))). lra.
  - apply Rmult_le_compat_l; [apply pos_INR|]. apply rsum_sub; [|exact Hnd | exact Hinc].
    intro e. pose proof (Rle_0_sqr (x e)) as H. unfold Rsqr in H. exact H.
Qed.
