(** Averaging a finite group of linear operators: the fixed vectors of the average are exactly the
    common fixed vectors of all the operators (used for the coset projector of C02: the list holds one
    operation per distinct rotation; pure translations act trivially on translation-compressed
    coordinates, so left multiplication permutes the list as operators). *)
From Coq Require Import Reals Lra List Permutation.
Import ListNotations.
From SymfcV Require Import IPS SolverModel.
Open Scope R_scope.

Section GroupAvg.
  Variable W : IPS.
  Definition vsum (l : list W) : W := fold_right vadd vzero l.

  Lemma ip_vsum l z : ip (vsum l) z = rsum (map (fun x => ip x z) l).
  Proof. induction l as [|x l IH]; simpl; [apply ip_zero_l | rewrite ip_add_l, IH; reflexivity]. Qed.

  Lemma vsum_perm l l' : Permutation l l' -> vsum l = vsum l'.
  Proof. intros H. apply ip_ext. intro z. rewrite !ip_vsum. apply rsum_perm. apply Permutation_map. exact H. Qed.

  Variable ops : list (W -> W).
  Hypothesis ops_add : forall g, In g ops -> forall x y, g (vadd x y) = vadd (g x) (g y).
  Hypothesis ops_scale : forall g, In g ops -> forall a x, g (vscale a x) = vscale a (g x).
  Hypothesis ops_nonempty : ops <> [].
  (** closure under left multiplication, as operators: h o g_i = g'_i pointwise, with (g'_i) a rearrangement of the list *)
  Hypothesis closed : forall h, In h ops -> exists l', Permutation l' ops /\
                      Forall2 (fun a b => forall v : W, a v = b v) (map (fun g v => h (g v)) ops) l'.

  Definition avg (v : W) : W := vscale (/ INR (length ops)) (vsum (map (fun g => g v) ops)).

  Lemma g_zero g : In g ops -> g vzero = vzero.
  Proof.
    intros Hg. apply ip_ext. intro z.
    assert (H : g (vadd vzero vzero) = g vzero) by (rewrite vadd_zero; reflexivity).
    rewrite (ops_add g Hg) in H.
    assert (H2 : ip (vadd (g vzero) (g vzero)) z = ip (g vzero) z) by (rewrite H; reflexivity).
    rewrite ip_add_l in H2. rewrite ip_zero_l. lra.
  Qed.

  Lemma g_vsum g l : In g ops -> g (vsum l) = vsum (map g l).
  Proof.
    intros Hg. induction l as [|x l IH]; simpl; [apply g_zero; exact Hg | rewrite (ops_add g Hg), IH; reflexivity].
  Qed.

  Lemma forall2_apply (l1 l2 : list (W -> W)) v :
    Forall2 (fun a b => forall v0 : W, a v0 = b v0) l1 l2 -> map (fun g => g v) l1 = map (fun g => g v) l2.
  Proof. induction 1; simpl; [reflexivity | rewrite H, IHForall2; reflexivity]. Qed.

  Lemma h_avg h v : In h ops -> h (avg v) = avg v.
  Proof.
    intros Hh. unfold avg. rewrite (ops_scale h Hh). f_equal.
    rewrite (g_vsum h _ Hh). rewrite map_map.
    destruct (closed h Hh) as [l' [Hp Hf]].
    replace (map (fun x => h (x v)) ops) with (map (fun g => g v) (map (fun g v0 => h (g v0)) ops)) by (rewrite map_map; reflexivity).
    rewrite (forall2_apply _ _ v Hf).
    apply vsum_perm. apply Permutation_map. exact Hp.
  Qed.

  Lemma vsum_const (n : nat) (v : W) : vsum (repeat v n) = vscale (INR n) v.
  Proof.
    apply ip_ext. intro z. rewrite ip_vsum, ip_scale_l.
    induction n as [|n IH]; [simpl; lra|].
    cbn [repeat map rsum]. rewrite IH. rewrite S_INR. lra.
  Qed.

  Theorem avg_fixed_iff v : avg v = v <-> forall g, In g ops -> g v = v.
  Proof.
    split.
    - intros H g Hg. rewrite <- H at 1. rewrite (h_avg g v Hg). exact H.
    - intros H. unfold avg.
      assert (E : map (fun g => g v) ops = repeat v (length ops)).
      { clear - H. induction ops as [|g l IH]; simpl; [reflexivity|].
        rewrite (H g (or_introl eq_refl)). f_equal. apply IH. intros g' Hg'. apply H. right. exact Hg'. }
      rewrite E, vsum_const, vscale_scale.
      assert (Hn : INR (length ops) <> 0).
      { apply not_0_INR. destruct ops; [congruence | simpl; discriminate]. }
      rewrite Rinv_l by exact Hn. apply vscale_one.
  Qed.

  (** The average is idempotent ... *)
  Theorem avg_idem v : avg (avg v) = avg v.
  Proof. apply avg_fixed_iff. intros g Hg. apply h_avg. exact Hg. Qed.

  (** ... and, when the operators are isometries and the list is closed under inverses (as operators), self-adjoint:
      the average is the ORTHOGONAL projector onto the common fixed vectors. *)
  Hypothesis ops_iso : forall g, In g ops -> forall x y, ip (g x) (g y) = ip x y.
  Hypothesis inv_closed : exists l', Permutation l' ops /\ Forall2 (fun a b => forall v : W, a (b v) = v) ops l'.

  Lemma adj_sum (l l' : list (W -> W)) x y :
    (forall g, In g l -> forall a b, ip (g a) (g b) = ip a b) ->
    Forall2 (fun a b => forall v : W, a (b v) = v) l l' ->
    rsum (map (fun g => ip (g x) y) l) = rsum (map (fun g => ip x (g y)) l').
  Proof.
    intros Hiso H. induction H as [|a b l l' Hab H IH]; simpl; [reflexivity|].
    rewrite IH by (intros g Hg; apply Hiso; right; exact Hg).
    f_equal. rewrite <- (Hab y) at 1. apply Hiso. left. reflexivity.
  Qed.

  Theorem avg_sym x y : ip (avg x) y = ip x (avg y).
  Proof.
    unfold avg. rewrite ip_scale_l, ip_scale_r. f_equal.
    rewrite ip_vsum, (ip_sym x), ip_vsum, !map_map.
    destruct inv_closed as [l' [Hp Hf]].
    rewrite (adj_sum ops l' x y ops_iso Hf).
    rewrite (rsum_perm _ _ (Permutation_map (fun g => ip x (g y)) Hp)).
    apply rsum_map_ext. intros g _. apply ip_sym.
  Qed.
End GroupAvg.

(** The two steps of C02 together: the unit eigenvectors of C^T P C, with P the average of a list of isometries closed under
    products and inverses, are exactly the y whose expansion C y is fixed by every operator of the list. *)
Theorem compressed_unit_eigs_are_invariants (U W : IPS) (Cm : U -> W) (Ct : W -> U) (ops : list (W -> W)) :
  (forall x y, ip (Cm x) (Cm y) = ip x y) -> (forall x w, ip (Cm x) w = ip x (Ct w)) ->
  (forall g, In g ops -> forall x y, g (vadd x y) = vadd (g x) (g y)) ->
  (forall g, In g ops -> forall a x, g (vscale a x) = vscale a (g x)) ->
  ops <> [] ->
  (forall h, In h ops -> exists l', Permutation l' ops /\
      Forall2 (fun a b => forall v : W, a v = b v) (map (fun g v => h (g v)) ops) l') ->
  (forall g, In g ops -> forall x y, ip (g x) (g y) = ip x y) ->
  (exists l', Permutation l' ops /\ Forall2 (fun a b => forall v : W, a (b v) = v) ops l') ->
  forall y, Ct (avg W ops (Cm y)) = y <-> forall g, In g ops -> g (Cm y) = Cm y.
Proof.
  intros Ciso Cadj Hadd Hsc Hne Hcl Hiso Hinv y.
  rewrite (unit_eig_of_compression U W Cm Ct (avg W ops) Ciso Cadj
             (avg_sym W ops Hiso Hinv) (avg_idem W ops Hadd Hsc Hne Hcl)).
  apply (avg_fixed_iff W ops Hadd Hsc Hne Hcl).
Qed.
