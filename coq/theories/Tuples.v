(** Index tuples, position permutations, arrangement tables.

    An index is [p = 3*atom + cart]; an order-n tensor element is addressed by a tuple (list) of n
    indices.  A *position permutation* [pi] (a list that is a permutation of [seq 0 n]) acts by
    [permute pi t = [t_(pi 0); ...; t_(pi (n-1))]].  An *arrangement* [a] (list of n column numbers) turns a
    combination [c] (the k distinct index values, increasing) into the tuple [apply_arr c a]. *)
From Coq Require Import List Arith Lia Permutation Bool.
Import ListNotations.

Definition tuple := list nat.

Definition permute (pi : list nat) (t : tuple) : tuple := map (fun s => nth s t 0) pi.
Definition apply_arr (c : list nat) (a : list nat) : tuple := map (fun s => nth s c 0) a.

Record block := mkblock {
  bk_k : nat;                      (* number of distinct index values of the combinations *)
  bk_arrs : list (list nat);       (* the arrangement table ("perms" in the source) *)
  bk_ngroup : nat;                 (* n_perms_group *)
  bk_indep : bool }.               (* combinations restricted to an independent first atom *)

Inductive rep := RepFirst | RepRowMin.

(** reshape(-1, w): consecutive chunks of width w. *)
Fixpoint chunks_fuel {A} (fuel w : nat) (l : list A) : list (list A) :=
  match fuel with
  | 0 => []
  | S f => match l with
           | [] => []
           | _ => firstn w l :: chunks_fuel f w (skipn w l)
           end
  end.
Definition chunks {A} (w : nat) (l : list A) : list (list A) := chunks_fuel (length l) w l.

Definition group_width (b : block) : nat := length (bk_arrs b) / bk_ngroup b.
Definition groups (b : block) : list (list (list nat)) := chunks (group_width b) (bk_arrs b).

(** All permutations of a list (insertion everywhere). *)
Fixpoint insert_all {A} (x : A) (l : list A) : list (list A) :=
  match l with
  | [] => [[x]]
  | y :: l' => (x :: l) :: map (cons y) (insert_all x l')
  end.
Fixpoint perms {A} (l : list A) : list (list A) :=
  match l with
  | [] => [[]]
  | x :: l' => flat_map (insert_all x) (perms l')
  end.
Definition all_perms (n : nat) : list (list nat) := perms (seq 0 n).

Lemma insert_all_in {A} (x : A) l1 l2 : In (l1 ++ x :: l2) (insert_all x (l1 ++ l2)).
Proof.
  induction l1 as [|y l1 IH]; simpl.
  - destruct l2; simpl; auto.
  - right. apply in_map. exact IH.
Qed.

Lemma perms_complete {A} (l l' : list A) : Permutation l l' -> In l' (perms l).
Proof.
  revert l'. induction l as [|x l IH]; intros l' H.
  - apply Permutation_nil in H. subst. simpl. auto.
  - assert (Hin : In x l') by (eapply Permutation_in; [exact H | left; reflexivity]).
    apply in_split in Hin. destruct Hin as [l1 [l2 ->]].
    apply Permutation_cons_app_inv in H.
    simpl. apply in_flat_map. exists (l1 ++ l2). split; [apply IH; exact H | apply insert_all_in].
Qed.

Lemma insert_all_length {A} (x : A) : forall l1 l2, In l2 (insert_all x l1) -> length l2 = S (length l1).
Proof.
  induction l1 as [|y l1 IH1]; intros l2 H2; simpl in H2.
  - destruct H2 as [<-|[]]. reflexivity.
  - destruct H2 as [<-|H2]; [reflexivity|]. apply in_map_iff in H2. destruct H2 as [l3 [<- H3]].
    simpl. f_equal. apply IH1. exact H3.
Qed.

Lemma perms_length {A} (l : list A) : forall l', In l' (perms l) -> length l' = length l.
Proof.
  induction l as [|x l IH]; intros l' H; simpl in H.
  - destruct H as [<-|[]]. reflexivity.
  - apply in_flat_map in H. destruct H as [l0 [H0 H1]].
    rewrite (insert_all_length x l0 l' H1). simpl. f_equal. apply IH. exact H0.
Qed.

Lemma all_perms_length n pi : In pi (all_perms n) -> length pi = n.
Proof. intros H. unfold all_perms in H. rewrite (perms_length _ _ H). apply seq_length. Qed.

Definition is_perm (n : nat) (pi : list nat) : Prop := Permutation (seq 0 n) pi.

Lemma all_perms_complete n pi : is_perm n pi -> In pi (all_perms n).
Proof. apply perms_complete. Qed.

(** permute commutes with anything applied entrywise. *)
Lemma permute_map (f : nat -> nat) pi t :
  f 0 = 0 \/ Forall (fun s => s < length t) pi ->
  permute pi (map f t) = map f (permute pi t).
Proof.
  intros H. unfold permute. rewrite map_map. apply map_ext_in. intros s Hs.
  destruct H as [H0|Hr].
  - rewrite <- H0 at 1. apply map_nth.
  - rewrite Forall_forall in Hr. specialize (Hr s Hs).
    rewrite nth_indep with (d' := f 0) by (rewrite map_length; exact Hr). apply map_nth.
Qed.

Lemma permute_apply_arr c pi a :
  Forall (fun s => s < length a) pi ->
  permute pi (apply_arr c a) = apply_arr c (permute pi a).
Proof.
  intros Hr. unfold permute, apply_arr. rewrite !map_map. apply map_ext_in. intros s Hs.
  rewrite Forall_forall in Hr. specialize (Hr s Hs).
  rewrite nth_indep with (d' := nth 0 c 0) by (rewrite map_length; exact Hr).
  rewrite map_nth with (f := fun s0 => nth s0 c 0). reflexivity.
Qed.

Lemma is_perm_range n pi : is_perm n pi -> Forall (fun s => s < n) pi.
Proof.
  intros H. apply Forall_forall. intros s Hs.
  apply Permutation_sym in H. pose proof (Permutation_in _ H Hs) as Hin. apply in_seq in Hin. lia.
Qed.

Lemma is_perm_length n pi : is_perm n pi -> length pi = n.
Proof. intros H. apply Permutation_length in H. rewrite seq_length in H. auto. Qed.

Lemma permute_length pi t : length (permute pi t) = length pi.
Proof. unfold permute. apply map_length. Qed.

Lemma permute_permute pi' pi t : Forall (fun s => s < length pi) pi' ->
  permute pi' (permute pi t) = permute (permute pi' pi) t.
Proof.
  intros Hr. unfold permute. rewrite map_map. apply map_ext_in. intros s Hs.
  rewrite Forall_forall in Hr. specialize (Hr s Hs).
  rewrite nth_indep with (d' := nth 0 t 0) by (rewrite map_length; exact Hr).
  rewrite map_nth with (f := fun s0 => nth s0 t 0). reflexivity.
Qed.

Lemma permute_id t : permute (seq 0 (length t)) t = t.
Proof.
  unfold permute. induction t as [|x t IH]; [reflexivity|]. simpl. f_equal.
  rewrite <- seq_shift, map_map. exact IH.
Qed.
