(** Decidable facts about an order [n] and an arrangement table, with their reflection into the
    hypotheses of PermModel.v; and their evaluation on the tables regenerated from the source. *)
From Coq Require Import List Arith Lia Bool.
Import ListNotations.
From SymfcV Require Import PyPrelude Tuples.
From SymfcG Require Import Tables.
Local Open Scope nat_scope.

Definition nl_eqb := list_eqb Nat.eqb.
Lemma nl_eqb_eq l1 l2 : nl_eqb l1 l2 = true <-> l1 = l2.
Proof.
  unfold nl_eqb. revert l2. induction l1 as [|x l1 IH]; destruct l2 as [|y l2]; simpl; split;
    try congruence; try discriminate; auto.
  - intros H. apply andb_true_iff in H. destruct H as [H1 H2]. apply Nat.eqb_eq in H1. apply IH in H2. congruence.
  - intros H. inversion H; subst. apply andb_true_iff. split; [apply Nat.eqb_refl | apply IH; reflexivity].
Qed.

Definition order_ok (n : nat) : bool :=
  forallb (fun pi => forallb (fun s => s <? n) pi
                     && existsb (fun pi' => nl_eqb (permute pi' pi) (seq 0 n)) (all_perms n)) (all_perms n).

Definition group_ok (n k : nat) (g : list (list nat)) : bool :=
  forallb (fun a => (length a =? n) && forallb (fun s => s <? k) a) g
  && forallb (fun pi => forallb (fun a => existsb (nl_eqb (permute pi a)) g) g) (all_perms n)
  && forallb (fun a => forallb (fun a' => existsb (fun pi => nl_eqb a' (permute pi a)) (all_perms n)) g) g.

Definition block_ok (n : nat) (b : block) : bool :=
  (0 <? bk_ngroup b) && (length (bk_arrs b) mod bk_ngroup b =? 0)
  && forallb (fun g => length g =? group_width b) (groups b)
  && forallb (group_ok n (bk_k b)) (groups b).

Definition tables_ok (n : nat) (blocks : list block) : bool := forallb (block_ok n) blocks.

Section Reflect.
  Variable n : nat.
  Variable blocks : list block.
  Hypothesis Hn : order_ok n = true.
  Hypothesis Ht : tables_ok n blocks = true.

  Lemma r_perms_range pi : In pi (all_perms n) -> Forall (fun s => s < n) pi.
  Proof.
    intros H. unfold order_ok in Hn. rewrite forallb_forall in Hn. specialize (Hn pi H).
    apply andb_true_iff in Hn. destruct Hn as [H1 _]. rewrite forallb_forall in H1.
    apply Forall_forall. intros s Hs. apply Nat.ltb_lt. apply H1. exact Hs.
  Qed.

  Lemma r_perms_inverse pi : In pi (all_perms n) -> exists pi', In pi' (all_perms n) /\ permute pi' pi = seq 0 n.
  Proof.
    intros H. unfold order_ok in Hn. rewrite forallb_forall in Hn. specialize (Hn pi H).
    apply andb_true_iff in Hn. destruct Hn as [_ H2]. apply existsb_exists in H2.
    destruct H2 as [pi' [Hin E]]. apply nl_eqb_eq in E. eauto.
  Qed.

  Lemma group_ok_of b g : In b blocks -> In g (groups b) -> group_ok n (bk_k b) g = true.
  Proof.
    intros Hb Hg. unfold tables_ok in Ht. rewrite forallb_forall in Ht. specialize (Ht b Hb).
    unfold block_ok in Ht. apply andb_true_iff in Ht. destruct Ht as [_ H]. rewrite forallb_forall in H. auto.
  Qed.

  Lemma r_widths b g : In b blocks -> In g (groups b) -> length g = group_width b.
  Proof.
    intros Hb Hg. unfold tables_ok in Ht. rewrite forallb_forall in Ht. specialize (Ht b Hb).
    unfold block_ok in Ht. apply andb_true_iff in Ht. destruct Ht as [H _].
    apply andb_true_iff in H. destruct H as [_ H]. rewrite forallb_forall in H. apply Nat.eqb_eq. auto.
  Qed.

  Lemma r_T0 b g a : In b blocks -> In g (groups b) -> In a g -> length a = n /\ Forall (fun s => s < bk_k b) a.
  Proof.
    intros Hb Hg Ha. pose proof (group_ok_of b g Hb Hg) as H. unfold group_ok in H.
    apply andb_true_iff in H. destruct H as [H _]. apply andb_true_iff in H. destruct H as [H _].
    rewrite forallb_forall in H. specialize (H a Ha). apply andb_true_iff in H. destruct H as [H1 H2].
    split; [apply Nat.eqb_eq; exact H1|]. rewrite forallb_forall in H2.
    apply Forall_forall. intros s Hs. apply Nat.ltb_lt. auto.
  Qed.

  Lemma r_T1 b g pi a : In b blocks -> In g (groups b) -> In pi (all_perms n) -> In a g -> In (permute pi a) g.
  Proof.
    intros Hb Hg Hpi Ha. pose proof (group_ok_of b g Hb Hg) as H. unfold group_ok in H.
    apply andb_true_iff in H. destruct H as [H _]. apply andb_true_iff in H. destruct H as [_ H].
    rewrite forallb_forall in H. specialize (H pi Hpi). rewrite forallb_forall in H. specialize (H a Ha).
    apply existsb_exists in H. destruct H as [a' [Hin E]]. apply nl_eqb_eq in E. rewrite E. exact Hin.
  Qed.

  Lemma r_T2 b g a a' : In b blocks -> In g (groups b) -> In a g -> In a' g ->
    exists pi, In pi (all_perms n) /\ a' = permute pi a.
  Proof.
    intros Hb Hg Ha Ha'. pose proof (group_ok_of b g Hb Hg) as H. unfold group_ok in H.
    apply andb_true_iff in H. destruct H as [_ H].
    rewrite forallb_forall in H. specialize (H a Ha). rewrite forallb_forall in H. specialize (H a' Ha').
    apply existsb_exists in H. destruct H as [pi [Hin E]]. apply nl_eqb_eq in E. eauto.
  Qed.
End Reflect.

(** The facts, on the current source tables.  [n <= 4]: these are finite statements over all n!
    position permutations and all arrangements of the generated tables. *)
Lemma order2_ok : order_ok 2 = true. Proof. vm_compute. reflexivity. Qed.
Lemma order3_ok : order_ok 3 = true. Proof. vm_compute. reflexivity. Qed.
Lemma order4_ok : order_ok 4 = true. Proof. vm_compute. reflexivity. Qed.

Lemma tables_O2_ok : tables_ok 2 blocks_O2 = true. Proof. vm_compute. reflexivity. Qed.
Lemma tables_O3_ok : tables_ok 3 blocks_O3 = true. Proof. vm_compute. reflexivity. Qed.
Lemma tables_O4_ok : tables_ok 4 blocks_O4 = true. Proof. vm_compute. reflexivity. Qed.
Lemma ref_tables_O2_ok : tables_ok 2 ref_blocks_O2 = true. Proof. vm_compute. reflexivity. Qed.
Lemma ref_tables_O3_ok : tables_ok 3 ref_blocks_O3 = true. Proof. vm_compute. reflexivity. Qed.
Lemma ref_tables_O4_ok : tables_ok 4 ref_blocks_O4 = true. Proof. vm_compute. reflexivity. Qed.

(** The reference (projector) routines read the same arrangement groups as the fast ones. *)
Definition same_groups (b1 b2 : list block) : bool :=
  list_eqb (fun x y => (bk_k x =? bk_k y) && list_eqb nl_eqb (bk_arrs x) (bk_arrs y) && (bk_ngroup x =? bk_ngroup y)) b1 b2.
Lemma ref_tables_same_O2 : same_groups blocks_O2 ref_blocks_O2 = true. Proof. vm_compute. reflexivity. Qed.
Lemma ref_tables_same_O3 : same_groups blocks_O3 ref_blocks_O3 = true. Proof. vm_compute. reflexivity. Qed.
Lemma ref_tables_same_O4 : same_groups blocks_O4 ref_blocks_O4 = true. Proof. vm_compute. reflexivity. Qed.

(** Coverage of index-equality patterns (C04): every surjection [n] -> [k] must appear as an
    arrangement of the block with k distinct values. *)
Fixpoint all_maps (n k : nat) : list (list nat) :=
  match n with
  | 0 => [[]]
  | S n' => flat_map (fun l => map (fun v => v :: l) (seq 0 k)) (all_maps n' k)
  end.
Definition is_surj (k : nat) (a : list nat) : bool := forallb (fun v => existsb (Nat.eqb v) a) (seq 0 k).
Definition surjections (n k : nat) : list (list nat) := filter (is_surj k) (all_maps n k).
Definition arrangements_of (k : nat) (blocks : list block) : list (list nat) :=
  flat_map (fun b => if bk_k b =? k then bk_arrs b else []) blocks.
Definition covers (n : nat) (blocks : list block) : bool :=
  forallb (fun k => forallb (fun a => existsb (nl_eqb a) (arrangements_of k blocks)) (surjections n k)) (seq 1 n).
Definition missing (n : nat) (blocks : list block) : list (list nat) :=
  flat_map (fun k => filter (fun a => negb (existsb (nl_eqb a) (arrangements_of k blocks))) (surjections n k)) (seq 1 n).

Lemma covers_O2 : covers 2 blocks_O2 = true. Proof. vm_compute. reflexivity. Qed.
Lemma covers_O3 : covers 3 blocks_O3 = true. Proof. vm_compute. reflexivity. Qed.
