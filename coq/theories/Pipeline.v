(** Executable pipeline pieces evaluated by the correspondence harness: the label (pointer) array of
    [compr_permutation_lat_trans_On] for a translation table, an optional cutoff relation and batch
    counts; the class table [atomic_decompr_idx]; independent atoms. No theorems here. *)
From Coq Require Import List Arith Lia Bool NArith PArith ZArith FMapPositive.
Import ListNotations.
From SymfcV Require Import PyPrelude Tuples PermModel PermExec Group Concrete Cutoff.
Local Open Scope nat_scope.

Definition block_combos (N : nat) (tp : table) (nr : option near) (b : block) : list (list nat) :=
  let cs := if bk_k b =? 1 then map (fun i => [i]) (seq 0 (3 * N)) else combos nr N (bk_k b) in
  if bk_indep b then restrict_indep (indep_t N tp) cs else cs.

Definition perm_input (N : nat) (tp : table) (nr : option near) (blocks : list block) (nbs : list Z)
  : list (block * list (list nat) * Z) :=
  map (fun bn => (fst bn, block_combos N tp nr (fst bn), snd bn)) (combine blocks nbs).

Definition n_elems (n N : nat) (tp : table) : nat := (N ^ n * 3 ^ n) / length tp.

(** all index tuples of length n over [0, 3N) in flat (ravel) order is not needed: labels are read per
    element code through a representative tuple; instead we list the pointer of every code. *)
Definition perm_labels (n N : nat) (tp : table) (nr : option near) (r : rep) (blocks : list block) (nbs : list Z)
  : result (list Z) :=
  match all_writes (elem_tab N tp) r (perm_input N tp nr blocks nbs) with
  | Err e => Err e
  | Ok W =>
      let m := ptr_of W in
      Ok (map (fun e => match PositiveMap.find (N.succ_pos (N.of_nat e)) m with
                        | Some p => Z.of_N (Pos.pred_N p)
                        | None => (-1)%Z
                        end) (seq 0 (n_elems n N tp)))
  end.

(** atomic_decompr_idx: class code of every atom tuple in ravel order. *)
Fixpoint all_tuples (n N : nat) : list (list nat) :=
  match n with
  | 0 => [[]]
  | S n' => flat_map (fun i => map (cons i) (all_tuples n' N)) (seq 0 N)
  end.
Definition cls_table (n N : nat) (tp : table) : list Z := map (fun a => Z.of_N (cls_code N tp a)) (all_tuples n N).
Definition indep_list (N : nat) (tp : table) : list Z := map Z.of_nat (indep_t N tp).
