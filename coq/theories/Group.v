(** Lattice translations as a free permutation action on atoms; orbit minima, independent atoms,
    and the class map of atom tuples ([get_atomic_lat_trans_decompr_indices_On]).

    Part 1 is abstract (an action [act : nat -> nat -> nat] with group laws in existential form).
    Part 2 instantiates it with an executable table ([trans_perms]) whose laws are checked by the
    boolean [valid_tp] and reflected. *)
From Coq Require Import List Arith Lia Bool NArith.
Import ListNotations.
Local Open Scope nat_scope.

Lemma forallb_seq (f : nat -> bool) n : forallb f (seq 0 n) = true <-> forall i, i < n -> f i = true.
Proof.
  rewrite forallb_forall. split.
  - intros H i Hi. apply H. apply in_seq. lia.
  - intros H i Hi. apply in_seq in Hi. apply H. lia.
Qed.

Lemma existsb_seq (f : nat -> bool) n : existsb f (seq 0 n) = true <-> exists i, i < n /\ f i = true.
Proof.
  rewrite existsb_exists. split.
  - intros [i [Hi H]]. apply in_seq in Hi. exists i. split; [lia | exact H].
  - intros [i [Hi H]]. exists i. split; [apply in_seq; lia | exact H].
Qed.

Section TAction.
  Variables (nlp N : nat).
  Variable act : nat -> nat -> nat.
  Hypothesis nlp_pos : 0 < nlp.
  Hypothesis act_lt : forall t i, t < nlp -> i < N -> act t i < N.
  Hypothesis act_id : forall i, i < N -> act 0 i = i.
  Hypothesis act_closed : forall a b, a < nlp -> b < nlp -> exists c, c < nlp /\ forall i, i < N -> act c i = act a (act b i).
  Hypothesis act_inverse : forall a, a < nlp -> exists b, b < nlp /\ forall i, i < N -> act b (act a i) = i /\ act a (act b i) = i.
  Hypothesis free : forall a b i, a < nlp -> b < nlp -> i < N -> act a i = act b i -> a = b.

  Definition orbit (i : nat) : list nat := map (fun t => act t i) (seq 0 nlp).
  Definition omin (i : nat) : nat := fold_right Nat.min i (orbit i).

  Lemma fold_min_le_in l d x : In x l -> fold_right Nat.min d l <= x.
  Proof. induction l as [|a l IH]; simpl; [tauto|]. intros [->|H]; [lia|]. specialize (IH H). lia. Qed.
  Lemma fold_min_in l d : fold_right Nat.min d l = d \/ In (fold_right Nat.min d l) l.
  Proof.
    induction l as [|a l IH]; simpl; [auto|]. destruct IH as [E|H].
    - rewrite E. destruct (Nat.min_spec a d) as [[_ ->]|[_ ->]]; auto.
    - destruct (Nat.min_spec a (fold_right Nat.min d l)) as [[_ ->]|[_ ->]]; auto.
  Qed.

  Lemma in_orbit i x : In x (orbit i) <-> exists t, t < nlp /\ x = act t i.
  Proof.
    unfold orbit. rewrite in_map_iff. split.
    - intros [t [E H]]. apply in_seq in H. exists t. split; [lia|auto].
    - intros [t [H E]]. exists t. split; [auto|]. apply in_seq. lia.
  Qed.

  Lemma omin_in_orbit i : i < N -> exists t, t < nlp /\ omin i = act t i.
  Proof.
    intro H. unfold omin. destruct (fold_min_in (orbit i) i) as [E|Hin].
    - rewrite E. exists 0. split; [lia|]. symmetry; auto.
    - apply in_orbit in Hin. exact Hin.
  Qed.

  Lemma omin_lt i : i < N -> omin i < N.
  Proof. intro H. destruct (omin_in_orbit i H) as [t [Ht ->]]. auto. Qed.

  Lemma omin_le_orbit i t : t < nlp -> omin i <= act t i.
  Proof. intro H. unfold omin. apply fold_min_le_in. apply in_orbit. eauto. Qed.

  Lemma omin_le_self i : i < N -> omin i <= i.
  Proof. intros H. rewrite <- (act_id i H) at 2. apply omin_le_orbit. exact nlp_pos. Qed.

  Lemma omin_shift i t : t < nlp -> i < N -> omin (act t i) = omin i.
  Proof.
    intros Ht Hi. apply Nat.le_antisymm.
    - destruct (omin_in_orbit i Hi) as [s [Hs E]]. rewrite E.
      destruct (act_inverse t Ht) as [ti [Hti Hinv]].
      destruct (act_closed s ti Hs Hti) as [c [Hc Ec]].
      replace (act s i) with (act c (act t i)).
      + apply omin_le_orbit. exact Hc.
      + rewrite Ec by auto. destruct (Hinv i Hi) as [-> _]. reflexivity.
    - assert (Hti : act t i < N) by auto.
      destruct (omin_in_orbit _ Hti) as [s [Hs E]]. rewrite E.
      destruct (act_closed s t Hs Ht) as [c [Hc Ec]]. rewrite <- Ec by exact Hi.
      apply omin_le_orbit. exact Hc.
  Qed.

  Lemma omin_idem i : i < N -> omin (omin i) = omin i.
  Proof.
    intros H. destruct (omin_in_orbit i H) as [t [Ht E]].
    transitivity (omin (act t i)); [rewrite <- E; reflexivity | apply omin_shift; assumption].
  Qed.

  (** Independent atoms = orbit minima, in increasing order (this is what
      [get_indep_atoms_by_lat_trans] returns). *)
  Definition is_indep (i : nat) : bool := omin i =? i.
  Definition indep_atoms : list nat := filter is_indep (seq 0 N).

  Lemma omin_is_indep i : i < N -> In (omin i) indep_atoms.
  Proof.
    intros H. unfold indep_atoms. apply filter_In. split.
    - apply in_seq. pose proof (omin_lt i H). lia.
    - unfold is_indep. apply Nat.eqb_eq. apply omin_idem. exact H.
  Qed.

  (** One independent atom per orbit. *)
  Lemma indep_unique_in_orbit i j t : i < N -> In i indep_atoms -> In j indep_atoms -> t < nlp -> act t i = j -> i = j.
  Proof.
    intros Hi Hii Hij Ht E. unfold indep_atoms in *. apply filter_In in Hii, Hij.
    destruct Hii as [_ Hii], Hij as [_ Hij]. unfold is_indep in *. apply Nat.eqb_eq in Hii, Hij.
    rewrite <- Hii, <- Hij, <- E. symmetry. apply omin_shift; assumption.
  Qed.

  (** The translation that brings an atom onto its orbit minimum. *)
  Definition tinv (i : nat) : nat :=
    match find (fun s => act s i =? omin i) (seq 0 nlp) with Some s => s | None => 0 end.

  Lemma tinv_spec i : i < N -> tinv i < nlp /\ act (tinv i) i = omin i.
  Proof.
    intros H. unfold tinv. destruct (find (fun s => act s i =? omin i) (seq 0 nlp)) as [s|] eqn:F.
    - apply find_some in F. destruct F as [Hin E]. apply in_seq in Hin. apply Nat.eqb_eq in E. split; [lia|exact E].
    - exfalso. destruct (omin_in_orbit i H) as [t [Ht E]].
      assert (Hin : In t (seq 0 nlp)) by (apply in_seq; lia).
      pose proof (find_none _ _ F t Hin) as Hn. simpl in Hn. rewrite <- E in Hn. rewrite Nat.eqb_refl in Hn. discriminate.
  Qed.

  Definition shift (t : nat) (a : list nat) : list nat := map (act t) a.
  Definition in_range (a : list nat) : Prop := Forall (fun i => i < N) a.

  Lemma shift_range t a : t < nlp -> in_range a -> in_range (shift t a).
  Proof.
    intros Ht Ha. unfold in_range, shift in *. apply Forall_forall. intros x Hx.
    apply in_map_iff in Hx. destruct Hx as [y [<- Hy]]. rewrite Forall_forall in Ha. auto.
  Qed.

  (** Structured class of a non-empty atom tuple: the whole tuple translated so that its first atom
      becomes the minimum of its orbit. *)
  Definition sclass (a : list nat) : list nat := shift (tinv (hd 0 a)) a.

  Lemma sclass_head i rest : i < N -> hd 0 (sclass (i :: rest)) = omin i.
  Proof. intros H. unfold sclass, shift. simpl. apply tinv_spec. exact H. Qed.

  Theorem sclass_complete a a' :
    a <> [] -> in_range a -> in_range a' -> length a = length a' ->
    (sclass a = sclass a' <-> exists t, t < nlp /\ shift t a = a').
  Proof.
    intros Hne Ha Ha' Hlen.
    destruct a as [|i1 rest]; [congruence|]. destruct a' as [|i1' rest']; [discriminate|].
    assert (H1 : i1 < N) by (inversion Ha; assumption).
    assert (H1' : i1' < N) by (inversion Ha'; assumption).
    destruct (tinv_spec i1 H1) as [Hs Es]. destruct (tinv_spec i1' H1') as [Hs' Es'].
    unfold sclass. cbn [hd]. split.
    - intros E.
      destruct (act_inverse (tinv i1') Hs') as [u [Hu Hinv]].
      destruct (act_closed u (tinv i1) Hu Hs) as [c [Hc Ec]].
      exists c. split; [exact Hc|].
      assert (shift u (shift (tinv i1) (i1 :: rest)) = shift u (shift (tinv i1') (i1' :: rest'))) by (rewrite E; reflexivity).
      unfold shift in *. rewrite !map_map in H.
      transitivity (map (fun x => act u (act (tinv i1) x)) (i1 :: rest)).
      + apply map_ext_in. intros x Hx. unfold in_range in Ha. rewrite Forall_forall in Ha. apply Ec. auto.
      + rewrite H. rewrite <- (map_id (i1' :: rest')) at 2. apply map_ext_in. intros x Hx.
        unfold in_range in Ha'. rewrite Forall_forall in Ha'. apply Hinv. auto.
    - intros [t [Ht E]]. unfold shift in E. cbn [map] in E. injection E as E1 E2. subst i1' rest'.
      clear Hs' Es'.
      destruct (tinv_spec (act t i1) H1') as [Hs' Es']. rewrite (omin_shift i1 t Ht H1) in Es'.
      destruct (act_closed (tinv (act t i1)) t Hs' Ht) as [c [Hc Ec]].
      assert (c = tinv i1).
      { apply (free c (tinv i1) i1); auto. rewrite Ec by exact H1. rewrite Es'. symmetry. exact Es. }
      subst c. change (act t i1 :: map (act t) rest) with (map (act t) (i1 :: rest)).
      unfold shift. rewrite map_map.
      apply map_ext_in. intros x Hx. apply Ec.
      unfold in_range in Ha. rewrite Forall_forall in Ha. apply Ha. exact Hx.
  Qed.

  (** Every orbit has exactly nlp members (free action): the orbit list has no duplicates. *)
  Lemma map_nodup_in {A B} (f : A -> B) (l : list A) :
    (forall a b, In a l -> In b l -> f a = f b -> a = b) -> NoDup l -> NoDup (map f l).
  Proof.
    induction l as [|x l IH]; intros Hinj Hnd; simpl; [constructor|].
    inversion Hnd as [|? ? Hx Hl]; subst. constructor.
    - intros Hin. apply in_map_iff in Hin. destruct Hin as [y [E Hy]].
      assert (y = x) by (apply Hinj; [right; exact Hy | left; reflexivity | exact E]). subst. contradiction.
    - apply IH; [|exact Hl]. intros a b Ha Hb. apply Hinj; right; assumption.
  Qed.

  Lemma orbit_nodup i : i < N -> NoDup (orbit i).
  Proof.
    intros H. unfold orbit. apply map_nodup_in.
    - intros a b Ha Hb E. apply in_seq in Ha, Hb. apply (free a b i); auto; lia.
    - apply seq_NoDup.
  Qed.

  Lemma orbit_length i : length (orbit i) = nlp.
  Proof. unfold orbit. rewrite map_length, seq_length. reflexivity. Qed.
  (** The algorithm of [get_indep_atoms_by_lat_trans] as the source writes it (shape regenerated in gen/IndepGen.v):
      scan the atoms in increasing order, keep an atom unless an atom kept earlier occurs in its column of the
      translation table (= in its orbit).  It returns exactly the orbit minima, in increasing order. *)
  Definition in_column (i j : nat) : bool := existsb (fun t => act t i =? j) (seq 0 nlp).
  Fixpoint scan (todo uniq : list nat) : list nat :=
    match todo with
    | [] => uniq
    | i :: rest => if existsb (in_column i) uniq then scan rest uniq else scan rest (uniq ++ [i])
    end.
  Definition indep_scan : list nat := scan (seq 0 N) [].

  Lemma in_column_spec i j : in_column i j = true <-> exists t, t < nlp /\ act t i = j.
  Proof.
    unfold in_column. rewrite existsb_seq. split; intros [t [Ht E]]; exists t; (split; [exact Ht|]).
    - apply Nat.eqb_eq. exact E.
    - apply Nat.eqb_eq. exact E.
  Qed.

  Lemma found_iff_not_indep k : k < N ->
    existsb (in_column k) (filter is_indep (seq 0 k)) = negb (is_indep k).
  Proof.
    intros Hk. destruct (is_indep k) eqn:Ei; cbn [negb].
    - (* k is the minimum of its orbit: no smaller atom is in its column *)
      apply not_true_is_false. intros H. apply existsb_exists in H. destruct H as [j [Hj Hc]].
      apply filter_In in Hj. destruct Hj as [Hj _]. apply in_seq in Hj.
      apply in_column_spec in Hc. destruct Hc as [t [Ht E]].
      unfold is_indep in Ei. apply Nat.eqb_eq in Ei.
      pose proof (omin_le_orbit k t Ht) as Hle. rewrite E, Ei in Hle. lia.
    - (* otherwise its orbit minimum is smaller, independent, and in its column *)
      apply existsb_exists. exists (omin k). split.
      + apply filter_In. split.
        * apply in_seq. unfold is_indep in Ei. apply Nat.eqb_neq in Ei. pose proof (omin_le_self k Hk). lia.
        * unfold is_indep. apply Nat.eqb_eq. apply omin_idem. exact Hk.
      + apply in_column_spec. destruct (omin_in_orbit k Hk) as [t [Ht E]]. exists t. split; [exact Ht | symmetry; exact E].
  Qed.

  Lemma scan_invariant m : forall k, k + m = N ->
    scan (seq k m) (filter is_indep (seq 0 k)) = filter is_indep (seq 0 N).
  Proof.
    induction m as [|m IH]; intros k Hkm.
    - cbn [seq scan]. replace k with N by lia. reflexivity.
    - cbn [seq scan]. rewrite found_iff_not_indep by lia.
      assert (E : filter is_indep (seq 0 (S k)) = filter is_indep (seq 0 k) ++ (if is_indep k then [k] else [])).
      { rewrite seq_S, filter_app. cbn [filter Nat.add]. destruct (is_indep k); reflexivity. }
      destruct (is_indep k) eqn:Ei; cbn [negb].
      + rewrite <- E. apply IH. lia.
      + rewrite app_nil_r in E. rewrite <- E. apply IH. lia.
  Qed.

  Theorem indep_scan_eq : indep_scan = indep_atoms.
  Proof. unfold indep_scan, indep_atoms. exact (scan_invariant N 0 eq_refl). Qed.
End TAction.
