(** Theorems about the *translated* request validation of api_symfc.py (gen/Orders.v):
    [check_orders], [check_dataset], the dispatch ladder of [solve] and the table of
    [compute_basis_set]. *)
From Coq Require Import ZArith List Bool Lia ZifyBool Permutation Sorted.
Import ListNotations.
From SymfcV Require Import PyPrelude.
From SymfcG Require Import Orders.
Open Scope Z_scope.

Definition whitelist : list (list Z) := [[2]; [3]; [4]; [2; 3]; [3; 4]; [2; 3; 4]].

(** ** Sorting *)
Lemma zinsert_perm x l : Permutation (x :: l) (zinsert x l).
Proof.
  induction l as [|y l IH]; simpl; [apply Permutation_refl|].
  destruct (x <=? y); [apply Permutation_refl|].
  eapply perm_trans; [apply perm_swap|]. apply perm_skip. exact IH.
Qed.

Lemma zsorted_perm l : Permutation l (zsorted l).
Proof.
  induction l as [|x l IH]; simpl; [apply perm_nil|].
  eapply perm_trans; [apply perm_skip; exact IH|]. apply zinsert_perm.
Qed.

Lemma zinsert_sorted x l : Sorted Z.le l -> Sorted Z.le (zinsert x l).
Proof.
  induction l as [|y l IH]; intros Hs; simpl.
  - constructor; constructor.
  - destruct (x <=? y) eqn:E.
    + constructor; [exact Hs|]. constructor. lia.
    + inversion Hs as [|? ? Hs' Hhd]; subst. constructor; [apply IH; exact Hs'|].
      destruct l as [|z l]; simpl.
      * constructor. lia.
      * destruct (x <=? z) eqn:E2; constructor; try lia.
        inversion Hhd; subst. assumption.
Qed.

Lemma zsorted_sorted l : Sorted Z.le (zsorted l).
Proof. induction l as [|x l IH]; simpl; [constructor | apply zinsert_sorted; exact IH]. Qed.

(** ** check_orders *)
Definition upto (k : Z) : list Z := py_range 2 (k + 1) 1.

Lemma upto_values : upto 2 = [2] /\ upto 3 = [2; 3] /\ upto 4 = [2; 3; 4].
Proof. repeat split; reflexivity. Qed.

Theorem check_orders_accept_iff (m : option Z) (os : option (list Z)) (o : list Z) :
  check_orders m os = Ok o <->
  (exists k, m = Some k /\ In k [2; 3; 4] /\ o = upto k) \/
  (m = None /\ exists l, os = Some l /\ o = zsorted l /\ In o whitelist).
Proof.
  unfold check_orders. destruct m as [k|]; destruct os as [l|]; cbn [andb].
  - destruct (z_in k [2; 3; 4]) eqn:E; cbn [negb]; split.
    + intros H. inversion H; subst. left. exists k. apply z_in_In in E. auto.
    + intros [[k' [Hk [_ Ho]]]|[Hn _]]; [|discriminate]. inversion Hk; subst. reflexivity.
    + discriminate.
    + intros [[k' [Hk [Hin _]]]|[Hn _]]; [|discriminate]. inversion Hk; subst.
      apply z_in_In in Hin. congruence.
  - destruct (z_in k [2; 3; 4]) eqn:E; cbn [negb]; split.
    + intros H. inversion H; subst. left. exists k. apply z_in_In in E. auto.
    + intros [[k' [Hk [_ Ho]]]|[Hn _]]; [|discriminate]. inversion Hk; subst. reflexivity.
    + discriminate.
    + intros [[k' [Hk [Hin _]]]|[Hn _]]; [|discriminate]. inversion Hk; subst.
      apply z_in_In in Hin. congruence.
  - fold whitelist. destruct (zlist_in (zsorted l) whitelist) eqn:E; cbn [negb]; split.
    + intros H. inversion H; subst. right. split; [reflexivity|]. exists l.
      apply zlist_in_In in E. auto.
    + intros [[k' [Hk _]]|[_ [l' [Hl [Ho _]]]]]; [discriminate|]. inversion Hl; subst. reflexivity.
    + discriminate.
    + intros [[k' [Hk _]]|[_ [l' [Hl [Ho Hin]]]]]; [discriminate|]. inversion Hl; subst.
      apply zlist_in_In in Hin. congruence.
  - split; [discriminate|]. intros [[k' [Hk _]]|[_ [l' [Hl _]]]]; discriminate.
Qed.

Theorem check_orders_ok_in_whitelist m os o : check_orders m os = Ok o -> In o whitelist.
Proof.
  intros H. apply check_orders_accept_iff in H.
  destruct H as [[k [_ [Hk Ho]]]|[_ [l [_ [_ Hin]]]]]; [|exact Hin].
  subst o. simpl in Hk. unfold whitelist.
  destruct Hk as [<-|[<-|[<-|[]]]]; cbv; tauto.
Qed.

(** max_order = m is the same request as orders = [2..m] (whatever [orders] was passed along). *)
Theorem max_order_equiv k os : In k [2; 3; 4] -> check_orders (Some k) os = check_orders None (Some (upto k)).
Proof.
  intros Hk. simpl in Hk. destruct Hk as [<-|[<-|[<-|[]]]]; destruct os; reflexivity.
Qed.

Theorem max_order_out_of_range k os : ~ In k [2; 3; 4] -> check_orders (Some k) os = Err NotImplementedError.
Proof.
  intros Hk. unfold check_orders. destruct os; cbn [andb];
    (destruct (z_in k [2; 3; 4]) eqn:E; [apply z_in_In in E; contradiction | reflexivity]).
Qed.

Theorem both_missing : check_orders None None = Err RuntimeError.
Proof. reflexivity. Qed.

(** An order list is accepted iff, as a multiset, it is one of the six supported combinations
    (so duplicates, 0, 1, 5, the empty list and (2,4) are all rejected, in any arrangement). *)
Theorem orders_accept_multiset l :
  is_ok (check_orders None (Some l)) = true <-> exists w, In w whitelist /\ Permutation l w.
Proof.
  split.
  - intros H. destruct (check_orders None (Some l)) as [o|] eqn:E; [|discriminate].
    apply check_orders_accept_iff in E.
    destruct E as [[k [Hk _]]|[_ [l' [Hl [Ho Hin]]]]]; [discriminate|]. inversion Hl; subst.
    exists (zsorted l'). split; [exact Hin | apply zsorted_perm].
  - intros [w [Hw Hp]].
    assert (Hs : zsorted l = w).
    { (* a sorted permutation of a sorted list is that list; the whitelist entries are sorted *)
      assert (Hsw : Sorted Z.le w) by
        (unfold whitelist in Hw; simpl in Hw;
         repeat (destruct Hw as [<-|Hw]; [repeat constructor; lia|]); destruct Hw).
      assert (Hp2 : Permutation (zsorted l) w) by
        (eapply perm_trans; [apply Permutation_sym; apply zsorted_perm | exact Hp]).
      pose proof (zsorted_sorted l) as Hsl.
      clear - Hsw Hp2 Hsl. revert Hsl Hp2. generalize (zsorted l) as s. intros s.
      revert w Hsw. induction s as [|a s IH]; intros w Hsw Hsl Hp2.
      - apply Permutation_nil in Hp2. congruence.
      - destruct w as [|b w]; [apply Permutation_sym, Permutation_nil in Hp2; discriminate|].
        assert (Hstr : forall l0, Sorted Z.le l0 -> StronglySorted Z.le l0)
          by (intros; apply Sorted_StronglySorted; [intros x y z; lia | assumption]).
        pose proof (Hstr _ Hsl) as Ss. pose proof (Hstr _ Hsw) as Sw.
        inversion Ss as [|? ? Ss' Fa]; subst. inversion Sw as [|? ? Sw' Fb]; subst.
        assert (a = b).
        { assert (In a (b :: w)) by (eapply Permutation_in; [exact Hp2 | left; reflexivity]).
          assert (In b (a :: s)) by (eapply Permutation_in; [apply Permutation_sym; exact Hp2 | left; reflexivity]).
          rewrite Forall_forall in Fa, Fb.
          destruct H as [->|Hin1]; [reflexivity|]. destruct H0 as [->|Hin2]; [reflexivity|].
          specialize (Fa _ Hin2). specialize (Fb _ Hin1). lia. }
        subst b. f_equal. apply IH.
        + inversion Hsw; assumption.
        + inversion Hsl; assumption.
        + eapply Permutation_cons_inv. exact Hp2. }
    unfold check_orders. cbn [andb]. rewrite Hs. fold whitelist.
    apply zlist_in_In in Hw. rewrite Hw. reflexivity.
Qed.

(** ** check_dataset: accepted iff both arrays exist with the same shape (n, natom, 3). *)
Theorem check_dataset_accept_iff natom d f :
  check_dataset natom d f = Ok tt <-> exists n, d = Some [n; natom; 3] /\ f = Some [n; natom; 3].
Proof.
  unfold check_dataset. destruct d as [d|]; destruct f as [f|]; try (split; [discriminate | intros [n [H1 H2]]; discriminate]).
  split.
  - intros H.
    destruct (zlist_eqb d f) eqn:E1; cbn [negb] in H; [|discriminate].
    apply zlist_eqb_eq in E1. subst f.
    destruct (py_len d =? 3) eqn:E2; cbn [negb orb] in H; [|discriminate].
    destruct (zlist_eqb (py_slice_from d 1) [natom; 3]) eqn:E3; cbn [negb] in H; [|discriminate].
    apply zlist_eqb_eq in E3.
    unfold py_len in E2. unfold py_slice_from in E3. change (Z.to_nat 1) with 1%nat in E3.
    destruct d as [|n d]; [simpl in E2; lia|]. simpl in E3. subst d. exists n. split; reflexivity.
  - intros [n [H1 H2]]. inversion H1; inversion H2; subst.
    assert (E : zlist_eqb [n; natom; 3] [n; natom; 3] = true) by (apply zlist_eqb_eq; reflexivity).
    rewrite E. cbn [negb].
    replace (py_len [n; natom; 3] =? 3) with true by reflexivity. cbn [negb orb].
    unfold py_slice_from. change (Z.to_nat 1) with 1%nat. cbn [skipn].
    assert (E2 : zlist_eqb [natom; 3] [natom; 3] = true) by (apply zlist_eqb_eq; reflexivity).
    rewrite E2. reflexivity.
Qed.

Theorem check_dataset_missing natom d f : d = None \/ f = None -> check_dataset natom d f = Err RuntimeError.
Proof. intros [->| ->]; unfold check_dataset; [reflexivity | destruct d; reflexivity]. Qed.

Theorem check_dataset_never_other natom d f : check_dataset natom d f = Ok tt \/ check_dataset natom d f = Err RuntimeError.
Proof.
  unfold check_dataset. destruct d as [d|]; [|right; reflexivity]. destruct f as [f|]; [|right; reflexivity].
  repeat match goal with |- context [if ?c then _ else _] => destruct c end; auto.
Qed.

(** ** dispatch ladder and compute_basis_set table (finite facts about generated tables) *)
Definition ev_eqb (a b : ev) : bool :=
  match a, b with
  | EvRead x, EvRead y | EvWrite x, EvWrite y => x =? y
  | EvSolve, EvSolve => true
  | _, _ => false
  end.

Lemma ev_eqb_eq a b : ev_eqb a b = true <-> a = b.
Proof.
  destruct a, b; simpl; split; try discriminate; try reflexivity; intros H;
    try (apply Z.eqb_eq in H; congruence); inversion H; apply Z.eqb_refl.
Qed.

Definition canonical_events (o : list Z) : list ev := map EvRead o ++ [EvSolve] ++ map EvWrite o.

Definition dispatch_wf : bool :=
  list_eqb zlist_eqb (map fst dispatch) whitelist &&
  forallb (fun oe => list_eqb ev_eqb (snd oe) (canonical_events (fst oe))) dispatch.

Lemma list_eqb_eq {A} (eqb : A -> A -> bool) (Heq : forall a b, eqb a b = true <-> a = b) l1 l2 :
  list_eqb eqb l1 l2 = true <-> l1 = l2.
Proof.
  revert l2. induction l1 as [|x l1 IH]; destruct l2 as [|y l2]; simpl; split; try congruence; try discriminate; auto.
  - intros H. apply andb_true_iff in H. destruct H as [H1 H2]. apply Heq in H1. apply IH in H2. congruence.
  - intros H. inversion H; subst. apply andb_true_iff. split; [apply Heq; reflexivity | apply IH; reflexivity].
Qed.

(** The ladder has one branch per supported combination, in which all basis-set look-ups and the
    solver call precede the first assignment to the result dictionary, and exactly the requested
    orders are read and written. *)
Theorem dispatch_wellformed : dispatch_wf = true.
Proof. vm_compute. reflexivity. Qed.

Theorem solve_validates_first : solve_prelude = [PreCheckDataset; PreCheckOrders].
Proof. reflexivity. Qed.

Fixpoint find_branch (o : list Z) (d : list (list Z * list ev)) : option (list ev) :=
  match d with
  | [] => None
  | (k, evs) :: d' => if zlist_eqb o k then Some evs else find_branch o d'
  end.

Theorem dispatch_branch o : In o whitelist -> find_branch o dispatch = Some (canonical_events o).
Proof.
  intros H. unfold whitelist in H. simpl in H.
  repeat (destruct H as [<-|H]; [vm_compute; reflexivity|]). destruct H.
Qed.

Theorem compute_table_diagonal : compute_table = [(2, (2, (2, 2))); (3, (3, (3, 3))); (4, (4, (4, 4)))].
Proof. reflexivity. Qed.

Theorem run_guard : run_is_guarded_compute_then_solve = true.
Proof. reflexivity. Qed.

(** Non-vacuity. *)
Example ex_accept : check_orders None (Some [4; 3]) = Ok [3; 4]. Proof. reflexivity. Qed.
Example ex_reject_24 : check_orders None (Some [2; 4]) = Err RuntimeError. Proof. reflexivity. Qed.
Example ex_reject_dup : check_orders None (Some [2; 2]) = Err RuntimeError. Proof. reflexivity. Qed.
Example ex_reject_empty : check_orders None (Some []) = Err RuntimeError. Proof. reflexivity. Qed.
Example ex_max5 : check_orders (Some 5) None = Err NotImplementedError. Proof. reflexivity. Qed.
Example ex_ds_ok : check_dataset 8 (Some [10; 8; 3]) (Some [10; 8; 3]) = Ok tt. Proof. reflexivity. Qed.
Example ex_ds_bad : check_dataset 8 (Some [10; 8; 3]) (Some [9; 8; 3]) = Err RuntimeError. Proof. reflexivity. Qed.
