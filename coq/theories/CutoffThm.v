(** Specification of the combination generators of Cutoff.v (the model of FCCutoff.combinations2 /
    combinations3_all / combinations4_all and of get_entire_combinations):
    they list exactly the strictly increasing index tuples of the requested length whose atoms are
    mutually near. *)
From Coq Require Import List Arith Lia Bool Sorted.
Import ListNotations.
From SymfcV Require Import Cutoff.
Local Open Scope nat_scope.

(** ** subsequences *)
Inductive sublist {A} : list A -> list A -> Prop :=
| sl_nil : forall l, sublist [] l
| sl_cons : forall x s l, sublist s l -> sublist (x :: s) (x :: l)
| sl_skip : forall x s l, sublist s l -> sublist s (x :: l).

Lemma sublist_nil_r {A} (s : list A) : sublist s [] -> s = [].
Proof. intros H. inversion H; reflexivity. Qed.

Lemma subseqs_spec {A} : forall k (l s : list A), In s (subseqs k l) <-> length s = k /\ sublist s l.
Proof.
  induction k as [|k IHk]; intros l s.
  - replace (subseqs 0 l) with [@nil A] by (destruct l; reflexivity). simpl. split.
    + intros [<-|[]]. split; [reflexivity | constructor].
    + intros [Hl _]. destruct s; [left; reflexivity | discriminate].
  - induction l as [|x l IHl].
    + simpl. split; [intros [] | intros [Hl Hs]]. apply sublist_nil_r in Hs. subst. discriminate.
    + cbn [subseqs]. rewrite in_app_iff. split.
      * intros [H|H].
        -- apply in_map_iff in H. destruct H as [s' [<- Hs']]. apply IHk in Hs'. destruct Hs' as [Hl Hs].
           split; [simpl; lia | constructor; exact Hs].
        -- apply IHl in H. destruct H as [Hl Hs]. split; [exact Hl | constructor; exact Hs].
      * intros [Hl Hs]. inversion Hs as [l0 E|y s' l0 Hs' E1 E2|y s' l0 Hs' E1 E2]; subst.
        -- discriminate.
        -- left. apply in_map. apply IHk. split; [simpl in Hl; lia | exact Hs'].
        -- right. apply IHl. split; assumption.
Qed.

Lemma sublist_incl {A} (s l : list A) : sublist s l -> incl s l.
Proof.
  induction 1 as [l|x s l H IH|x s l H IH]; intros y Hy.
  - destruct Hy.
  - destruct Hy as [<-|Hy]; [left; reflexivity | right; apply IH; exact Hy].
  - right. apply IH. exact Hy.
Qed.

Lemma sublist_sorted (s l : list nat) : sublist s l -> StronglySorted lt l -> StronglySorted lt s.
Proof.
  induction 1 as [l|x s l H IH|x s l H IH]; intros Hs.
  - constructor.
  - inversion Hs as [|? ? Hs' Hall]; subst. constructor; [apply IH; exact Hs'|].
    rewrite Forall_forall in *. intros y Hy. apply Hall. apply (sublist_incl _ _ H). exact Hy.
  - inversion Hs; subst. apply IH. assumption.
Qed.

Lemma sorted_incl_sublist : forall (l s : list nat), StronglySorted lt l -> StronglySorted lt s -> incl s l -> sublist s l.
Proof.
  induction l as [|x l IH]; intros s Hl Hs Hi.
  - destruct s as [|y s]; [constructor | exfalso; apply (Hi y); left; reflexivity].
  - inversion Hl as [|? ? Hl' Hall]; subst.
    destruct s as [|y s]; [constructor|].
    inversion Hs as [|? ? Hs' Hally]; subst.
    destruct (Nat.eq_dec y x) as [->|Hne].
    + constructor. apply IH; [exact Hl' | exact Hs'|].
      intros z Hz. destruct (Hi z (or_intror Hz)) as [E|Hin]; [|exact Hin].
      subst z. rewrite Forall_forall in Hally. specialize (Hally x Hz). lia.
    + apply sl_skip. apply IH; [exact Hl' | exact Hs|].
      intros z Hz. destruct (Hi z Hz) as [E|Hin]; [|exact Hin]. subst z.
      (* x in y :: s with y <> x: then x in s, but y < x and y must be in l: y > x, contradiction *)
      destruct Hz as [E|Hz]; [congruence|].
      rewrite Forall_forall in Hally, Hall. specialize (Hally x Hz).
      destruct (Hi y (or_introl eq_refl)) as [E|Hyl]; [congruence|]. specialize (Hall y Hyl). lia.
Qed.

Lemma seq_sorted a n : StronglySorted lt (seq a n).
Proof.
  revert a. induction n as [|n IH]; intros a; simpl; constructor; [apply IH|].
  apply Forall_forall. intros x Hx. apply in_seq in Hx. lia.
Qed.

Lemma filter_sorted (f : nat -> bool) l : StronglySorted lt l -> StronglySorted lt (filter f l).
Proof.
  induction 1 as [|x l Hs IH Hall]; simpl; [constructor|].
  destruct (f x); [|exact IH]. constructor; [exact IH|].
  rewrite Forall_forall in *. intros y Hy. apply filter_In in Hy. apply Hall. tauto.
Qed.

(** ** the combination lists *)
Definition increasing (c : list nat) : Prop := StronglySorted lt c.
Definition in_range3 (N : nat) (c : list nat) : Prop := Forall (fun p => p < 3 * N) c.
Definition mutually_near (nr : near) (c : list nat) : Prop := forall x y, In x c -> In y c -> nearb nr (x / 3) (y / 3) = true.

(** get_entire_combinations(3N, k): all strictly increasing k-tuples below 3N *)
Theorem entire_combos_spec N k c :
  In c (entire_combos N k) <-> length c = k /\ increasing c /\ in_range3 N c.
Proof.
  unfold entire_combos. rewrite subseqs_spec. split.
  - intros [Hl Hs]. split; [exact Hl|]. split.
    + apply (sublist_sorted _ _ Hs). apply seq_sorted.
    + apply Forall_forall. intros p Hp. apply (sublist_incl _ _ Hs) in Hp. apply in_seq in Hp. lia.
  - intros [Hl [Hi Hr]]. split; [exact Hl|]. apply sorted_incl_sublist; [apply seq_sorted | exact Hi|].
    intros p Hp. unfold in_range3 in Hr. rewrite Forall_forall in Hr. apply in_seq. specialize (Hr p Hp). lia.
Qed.

Section Near.
  Variable nr : near.
  Variable N : nat.
  Hypothesis near_sym : forall i j, nearb nr i j = nearb nr j i.
  Hypothesis near_refl : forall i, i < N -> nearb nr i i = true.

  Lemma all_pairs_near_spec c : increasing c ->
    (all_pairs_near nr c = true <-> forall x y, In x c -> In y c -> x < y -> nearb nr (x / 3) (y / 3) = true).
  Proof.
    intros Hinc. unfold all_pairs_near. rewrite forallb_forall. split.
    - intros H x y Hx Hy Hlt.
      specialize (H [x; y]). apply H. apply subseqs_spec. split; [reflexivity|].
      apply sorted_incl_sublist; [exact Hinc | repeat constructor; exact Hlt|].
      intros z [<-|[<-|[]]]; assumption.
    - intros H p Hp. apply subseqs_spec in Hp. destruct Hp as [Hl Hs].
      destruct p as [|x [|y [|z p]]]; try discriminate.
      pose proof (sublist_sorted _ _ Hs Hinc) as Hso. inversion Hso as [|? ? _ Hall]; subst.
      rewrite Forall_forall in Hall.
      apply H; [apply (sublist_incl _ _ Hs); left; reflexivity | apply (sublist_incl _ _ Hs); right; left; reflexivity | apply Hall; left; reflexivity].
  Qed.

  Lemma neighbors_N3_spec top p : top < 3 * N ->
    (In p (neighbors_N3 nr N top) <-> p < top /\ nearb nr (top / 3) (p / 3) = true).
  Proof.
    intros Htop. unfold neighbors_N3. rewrite in_flat_map. split.
    - intros [j [Hj H]]. unfold neighbors in Hj. apply filter_In in Hj. destruct Hj as [Hj1 Hj2].
      apply in_flat_map in H. destruct H as [b [Hb H]]. apply in_seq in Hb.
      destruct (3 * j + b <? top) eqn:E; [|destruct H]. destruct H as [<-|[]]. apply Nat.ltb_lt in E.
      split; [exact E|].
      replace ((3 * j + b) / 3) with j; [exact Hj2|].
      symmetry. rewrite Nat.mul_comm, Nat.div_add_l by lia. rewrite Nat.div_small by lia. lia.
    - intros [Hlt Hn]. exists (p / 3). split.
      + unfold neighbors. apply filter_In. split; [|exact Hn]. apply in_seq.
        assert (p / 3 < N) by (apply Nat.div_lt_upper_bound; lia). lia.
      + apply in_flat_map. exists (p mod 3). split; [apply in_seq; pose proof (Nat.mod_upper_bound p 3); lia|].
        rewrite <- (Nat.div_mod_eq p 3). apply Nat.ltb_lt in Hlt. rewrite Hlt. left. reflexivity.
  Qed.

  Lemma sorted_app (l1 l2 : list nat) : StronglySorted lt l1 -> StronglySorted lt l2 ->
    (forall a b, In a l1 -> In b l2 -> a < b) -> StronglySorted lt (l1 ++ l2).
  Proof.
    induction l1 as [|x l1 IH]; intros H1 H2 H; simpl; [exact H2|].
    inversion H1 as [|? ? H1' Hall]; subst. constructor.
    - apply IH; [exact H1' | exact H2|]. intros a b Ha Hb. apply H; [right; exact Ha | exact Hb].
    - apply Forall_forall. intros y Hy. apply in_app_iff in Hy. destruct Hy as [Hy|Hy].
      + rewrite Forall_forall in Hall. apply Hall. exact Hy.
      + apply H; [left; reflexivity | exact Hy].
  Qed.

  Lemma sorted_app_inv (l1 l2 : list nat) : StronglySorted lt (l1 ++ l2) ->
    StronglySorted lt l1 /\ StronglySorted lt l2 /\ (forall a b, In a l1 -> In b l2 -> a < b).
  Proof.
    induction l1 as [|x l1 IH]; simpl; intros H.
    - split; [constructor|]. split; [exact H|]. intros a b [].
    - inversion H as [|? ? H' Hall]; subst. destruct (IH H') as [S1 [S2 Hlt]]. rewrite Forall_forall in Hall.
      split; [constructor; [exact S1|]; apply Forall_forall; intros y Hy; apply Hall; apply in_app_iff; left; exact Hy|].
      split; [exact S2|]. intros a b [<-|Ha] Hb; [apply Hall; apply in_app_iff; right; exact Hb | apply Hlt; assumption].
  Qed.

  Lemma flat_map_sorted (f : nat -> list nat) l : StronglySorted lt l -> (forall x, StronglySorted lt (f x)) ->
    (forall x y a b, x < y -> In a (f x) -> In b (f y) -> a < b) -> StronglySorted lt (flat_map f l).
  Proof.
    intros Hl Hf Hxy. induction Hl as [|x l Hs IH Hall]; simpl; [constructor|].
    apply sorted_app; [apply Hf | exact IH|].
    intros a b Ha Hb. apply in_flat_map in Hb. destruct Hb as [y [Hy Hb]].
    rewrite Forall_forall in Hall. apply (Hxy x y a b (Hall y Hy) Ha Hb).
  Qed.

  Lemma neighbors_N3_sorted top : StronglySorted lt (neighbors_N3 nr N top).
  Proof.
    unfold neighbors_N3. apply flat_map_sorted.
    - unfold neighbors. apply filter_sorted. apply seq_sorted.
    - intros j. apply flat_map_sorted.
      + apply seq_sorted.
      + intros b. destruct (3 * j + b <? top); repeat constructor.
      + intros b b' a a' Hlt Ha Ha'.
        destruct (3 * j + b <? top); [|destruct Ha]. destruct (3 * j + b' <? top); [|destruct Ha'].
        destruct Ha as [<-|[]]. destruct Ha' as [<-|[]]. lia.
    - intros j j' a a' Hlt Ha Ha'.
      apply in_flat_map in Ha. destruct Ha as [b [Hb Ha]]. apply in_seq in Hb.
      apply in_flat_map in Ha'. destruct Ha' as [b' [Hb' Ha']]. apply in_seq in Hb'.
      destruct (3 * j + b <? top); [|destruct Ha]. destruct (3 * j' + b' <? top); [|destruct Ha'].
      destruct Ha as [<-|[]]. destruct Ha' as [<-|[]]. lia.
  Qed.

  (** combinations2 / combinations3_all / combinations4_all: exactly the strictly increasing index tuples
      of length k below 3N whose atoms are mutually near *)
  Theorem cut_combos_spec k c : 1 <= k ->
    In c (cut_combos nr N k) <-> length c = k /\ increasing c /\ in_range3 N c /\ mutually_near nr c.
  Proof.
    intros Hk. unfold cut_combos. rewrite in_flat_map. split.
    - intros [top [Htop H]]. apply in_seq in Htop. apply in_map_iff in H. destruct H as [c' [<- Hc']].
      apply filter_In in Hc'. destruct Hc' as [Hsub Hpairs]. apply subseqs_spec in Hsub. destruct Hsub as [Hl Hs].
      pose proof (sublist_sorted _ _ Hs (neighbors_N3_sorted top)) as Hinc.
      assert (Hmem : forall p, In p c' -> p < top /\ nearb nr (top / 3) (p / 3) = true).
      { intros p Hp. apply (neighbors_N3_spec top p ltac:(lia)). apply (sublist_incl _ _ Hs). exact Hp. }
      split; [rewrite app_length; simpl; lia|]. split.
      + apply sorted_app; [exact Hinc | repeat constructor|]. intros a b Ha [<-|[]]. apply Hmem. exact Ha.
      + split.
        * apply Forall_forall. intros p Hp. apply in_app_iff in Hp. destruct Hp as [Hp|[<-|[]]]; [destruct (Hmem p Hp); lia | lia].
        * intros x y Hx Hy. apply in_app_iff in Hx, Hy.
          assert (Hr : forall p, In p c' \/ In p [top] -> p / 3 < N).
          { intros p [Hp|[<-|[]]]; apply Nat.div_lt_upper_bound; try lia. destruct (Hmem p Hp). lia. }
          destruct Hx as [Hx|[<-|[]]]; destruct Hy as [Hy|[<-|[]]].
          -- destruct (Nat.lt_trichotomy x y) as [Hlt|[->|Hgt]].
             ++ apply (all_pairs_near_spec c' Hinc); assumption.
             ++ apply near_refl. apply Hr. left. exact Hy.
             ++ rewrite near_sym. apply (all_pairs_near_spec c' Hinc); assumption.
          -- rewrite near_sym. apply Hmem. exact Hx.
          -- apply Hmem. exact Hy.
          -- apply near_refl. apply Hr. right. left. reflexivity.
    - intros [Hl [Hinc [Hr Hn]]].
      destruct (exists_last (l := c)) as [c' [top E]]; [intros ->; simpl in Hl; lia|]. subst c.
      destruct (sorted_app_inv _ _ Hinc) as [Hinc' [_ Hlt]].
      unfold in_range3 in Hr. rewrite Forall_forall in Hr.
      assert (Htop : top < 3 * N) by (apply Hr; apply in_app_iff; right; left; reflexivity).
      exists top. split; [apply in_seq; lia|]. apply in_map_iff. exists c'. split; [reflexivity|].
      apply filter_In. split.
      + apply subseqs_spec. split; [rewrite app_length in Hl; simpl in Hl; lia|].
        apply sorted_incl_sublist; [apply neighbors_N3_sorted | exact Hinc'|].
        intros p Hp. apply (neighbors_N3_spec top p Htop). split.
        * apply Hlt; [exact Hp | left; reflexivity].
        * apply Hn; apply in_app_iff; [right; left; reflexivity | left; exact Hp].
      + apply (all_pairs_near_spec c' Hinc'). intros x y Hx Hy _. apply Hn; apply in_app_iff; left; assumption.
  Qed.

End Near.

Theorem cut_combos_monotone (nr nr' : near) N k c : 1 <= k ->
  (forall i j, nearb nr i j = nearb nr j i) -> (forall i, i < N -> nearb nr i i = true) ->
  (forall i j, nearb nr' i j = nearb nr' j i) -> (forall i, i < N -> nearb nr' i i = true) ->
  (forall i j, nearb nr i j = true -> nearb nr' i j = true) ->
  In c (cut_combos nr N k) -> In c (cut_combos nr' N k).
Proof.
  intros Hk S R S' R' Hsub H.
  apply (cut_combos_spec nr N S R k c Hk) in H. destruct H as [Hl [Hi [Hr Hn]]].
  apply (cut_combos_spec nr' N S' R' k c Hk). repeat split; try assumption.
  intros x y Hx Hy. apply Hsub. apply Hn; assumption.
Qed.

(** with everything near, the cutoff lists are the complete lists (large cutoff = no cutoff) *)
Theorem cut_combos_all_near (nr : near) N k c : 1 <= k ->
  (forall i j, nearb nr i j = true) ->
  (In c (cut_combos nr N k) <-> In c (entire_combos N k)).
Proof.
  intros Hk Hall.
  rewrite (cut_combos_spec nr N (fun i j => eq_trans (Hall i j) (eq_sym (Hall j i))) (fun i _ => Hall i i) k c Hk).
  rewrite entire_combos_spec. split; [tauto|]. intros [H1 [H2 H3]]. repeat split; try assumption. intros x y _ _. apply Hall.
Qed.
