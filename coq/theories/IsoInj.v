(** C09: "coefficients are uniquely defined".  A map that preserves inner products (orthonormal columns) is injective -- no
    linearity needed -- and, when it has a transpose, the transpose recovers the coefficients.  With C04 (onto the admissible space)
    this is "no degree of freedom duplicated": distinct coefficient vectors give distinct force constants. *)
From Coq Require Import Reals Lra.
From SymfcV Require Import IPS.
Open Scope R_scope.

Section IsoInj.
  Variables U W : IPS.
  Variable E : U -> W.
  Hypothesis E_iso : forall x y, ip (E x) (E y) = ip x y.

  Theorem iso_injective x y : E x = E y -> x = y.
  Proof.
    intros H. apply norm_sub_zero_eq.
    rewrite ip_sub_l, !ip_sub_r.
    rewrite <- (E_iso x x), <- (E_iso x y), <- (E_iso y x), <- (E_iso y y), H. lra.
  Qed.

  Theorem iso_preserves_distance x y : ip (vsub (E x) (E y)) (vsub (E x) (E y)) = ip (vsub x y) (vsub x y).
  Proof. rewrite !ip_sub_l, !ip_sub_r, !E_iso. reflexivity. Qed.

  Variable Et : W -> U.
  Hypothesis E_adj : forall x w, ip (E x) w = ip x (Et w).
  Theorem transpose_recovers_coefficients x : Et (E x) = x.
  Proof. apply ip_ext. intro z. rewrite (ip_sym (Et (E x)) z), <- E_adj, E_iso. apply ip_sym. Qed.
End IsoInj.

From SymfcV Require Import IPSInst.
Example iso_instance : (forall x y, ip (Cm_ex x) (Cm_ex y) = ip x y) /\ Cm_ex 1 <> Cm_ex 2.
Proof.
  destruct compression_hypotheses_hold as [Ci _]. split; [exact Ci|].
  intro H. apply (iso_injective R_IPS _ Cm_ex Ci) in H. change (1 = 2) in H. lra.
Qed.
