(** The loop of [get_atomic_lat_trans_decompr_indices_O3 / _O4] computes the class code of every atom tuple.

    Source shape (regenerated: gen/IndepGen.v):   n = 0
                                                  for i_patom in indep_atoms:
                                                      for j in range(N): ... for l in range(N):
                                                          indices[(tau(i_patom), tau(j), .., tau(l)) for all tau] = n
                                                          n += 1
    i.e. nested loops with ONE running counter, and for every counter value a write at the nlp translates of the
    current tuple.  Theorem: every write carries the class code (Concrete.cls_code) of the position it writes, and every
    in-range tuple is written; hence the finished table is cls_code whatever the order of the writes.  For every number
    of atoms, every valid translation table and every nesting depth. *)
From Coq Require Import List Arith Lia Bool NArith.
Import ListNotations.
From SymfcV Require Import Tuples Group Concrete.
Local Open Scope nat_scope.

Definition item := (list nat * BinNums.N)%type.

(** a loop over the digits [ds] around a body [f] that consumes the running counter *)
Fixpoint enum_digits (f : nat -> BinNums.N -> list item * BinNums.N) (ds : list nat) (c : BinNums.N) : list item * BinNums.N :=
  match ds with
  | [] => ([], c)
  | i :: ds' => let (l, c') := f i c in let (l2, c2) := enum_digits f ds' c' in (l ++ l2, c2)
  end.

Lemma ravel_acc_split (B acc : BinNums.N) l : ravel_acc B acc l = (acc * B ^ N.of_nat (length l) + ravel_acc B 0 l)%N.
Proof.
  revert acc. induction l as [|d l IH]; intros acc.
  - cbn [ravel_acc length]. change (N.of_nat 0) with 0%N. rewrite N.pow_0_r. lia.
  - cbn [ravel_acc length]. rewrite IH. rewrite (IH (0 * B + N.of_nat d)%N).
    rewrite Nat2N.inj_succ, N.pow_succ_r'. lia.
Qed.

Section Digits.
  (** body specification: digit i, counter c: counter advances by W, items are (pre i ++ suf, c + code suf), P suf *)
  Variable f : nat -> BinNums.N -> list item * BinNums.N.
  Variable W : BinNums.N.
  Variable pre : nat -> list nat.
  Variable P : list nat -> Prop.
  Variable code : list nat -> BinNums.N.
  Hypothesis Hf : forall i c,
    snd (f i c) = (c + W)%N /\
    forall a cc, In (a, cc) (fst (f i c)) <-> exists suf, P suf /\ a = pre i ++ suf /\ cc = (c + code suf)%N.

  Lemma enum_digits_spec ds : NoDup ds -> forall c,
    snd (enum_digits f ds c) = (c + N.of_nat (length ds) * W)%N /\
    forall a cc, In (a, cc) (fst (enum_digits f ds c)) <->
      exists i suf, In i ds /\ P suf /\ a = pre i ++ suf /\ cc = (c + N.of_nat (index_of i ds) * W + code suf)%N.
  Proof.
    induction ds as [|i ds IH]; intros Hnd c.
    - cbn [enum_digits fst snd length]. split; [lia|]. intros a cc. split; [intros [] | intros (i & suf & [] & _)].
    - inversion Hnd as [|? ? Hni Hnd']; subst. cbn [enum_digits].
      destruct (f i c) as [l c'] eqn:Ef. destruct (enum_digits f ds c') as [l2 c2] eqn:Ed.
      destruct (Hf i c) as [Hc Hl]. rewrite Ef in Hc, Hl. cbn [fst snd] in Hc, Hl. subst c'.
      destruct (IH Hnd' (c + W)%N) as [Hc2 Hl2]. rewrite Ed in Hc2, Hl2. cbn [fst snd] in Hc2, Hl2.
      cbn [fst snd length]. split; [rewrite Hc2; lia|].
      intros a cc. rewrite in_app_iff, Hl, Hl2. split.
      + intros [(suf & HP & Ea & Ec) | (j & suf & Hj & HP & Ea & Ec)].
        * exists i, suf. cbn [index_of In]. rewrite Nat.eqb_refl. repeat split; auto. lia.
        * exists j, suf. cbn [index_of In]. destruct (Nat.eqb_spec j i) as [->|Hne]; [contradiction|].
          repeat split; auto. lia.
      + intros (j & suf & Hj & HP & Ea & Ec). cbn [index_of] in Ec. destruct (Nat.eqb_spec j i) as [->|Hne].
        * left. exists suf. repeat split; auto. lia.
        * right. destruct Hj as [Hj|Hj]; [congruence|]. exists j, suf. repeat split; auto. lia.
  Qed.
End Digits.

Lemma index_of_seq s m i : s <= i < s + m -> index_of i (seq s m) = i - s.
Proof.
  revert s. induction m as [|m IH]; intros s H; [lia|]. cbn [seq index_of].
  destruct (Nat.eqb_spec i s) as [->|Hne]; [lia|]. rewrite IH by lia. lia.
Qed.

Section Loop.
  Variable NA : nat.
  Let B := N.of_nat NA.

  (** the nested loops over the last k atoms *)
  Fixpoint enum_run (k : nat) (prefix : list nat) (c0 : BinNums.N) : list item * BinNums.N :=
    match k with
    | 0 => ([(prefix, c0)], (c0 + 1)%N)
    | S k' => enum_digits (fun i c => enum_run k' (prefix ++ [i]) c) (seq 0 NA) c0
    end.

  Lemma enum_run_spec k : forall prefix c0,
    snd (enum_run k prefix c0) = (c0 + B ^ N.of_nat k)%N /\
    forall a cc, In (a, cc) (fst (enum_run k prefix c0)) <->
      exists suf, (length suf = k /\ in_range NA suf) /\ a = prefix ++ suf /\ cc = (c0 + ravel_acc B 0 suf)%N.
  Proof.
    induction k as [|k IH]; intros prefix c0.
    - cbn [enum_run fst snd]. change (N.of_nat 0) with 0%N. rewrite N.pow_0_r. split; [reflexivity|].
      intros a cc. split.
      + intros [E|[]]. injection E as <- <-. exists []. cbn [ravel_acc]. rewrite app_nil_r.
        repeat split; [constructor | lia].
      + intros (suf & [Hlen _] & -> & ->). destruct suf; [|discriminate]. left. rewrite app_nil_r. cbn [ravel_acc]. f_equal. lia.
    - cbn [enum_run].
      pose proof (enum_digits_spec (fun i c => enum_run k (prefix ++ [i]) c) (B ^ N.of_nat k)%N (fun i => prefix ++ [i])
                    (fun suf => length suf = k /\ in_range NA suf) (ravel_acc B 0)
                    (fun i c => IH (prefix ++ [i]) c) (seq 0 NA) (seq_NoDup NA 0) c0) as [Hc Hl].
      rewrite seq_length in Hc. split.
      + rewrite Hc. rewrite Nat2N.inj_succ, N.pow_succ_r'. subst B. reflexivity.
      + intros a cc. rewrite Hl. split.
        * intros (i & suf & Hi & [Hlen Hr] & -> & ->). apply in_seq in Hi.
          exists (i :: suf). rewrite index_of_seq by lia.
          split; [split; [cbn [length]; lia | constructor; [lia | exact Hr]]|].
          split; [rewrite <- app_assoc; reflexivity|].
          cbn [ravel_acc]. rewrite (ravel_acc_split B (0 * B + N.of_nat i)%N suf), Hlen, Nat.sub_0_r. lia.
        * intros (suf & [Hlen Hr] & -> & ->). destruct suf as [|i suf]; [discriminate|].
          inversion Hr as [|? ? Hi Hr']; subst. exists i, suf.
          assert (Hin : In i (seq 0 NA)) by (apply in_seq; lia).
          cbn [length] in Hlen. injection Hlen as Hlen.
          split; [exact Hin|]. split; [split; [exact Hlen | exact Hr']|].
          split; [rewrite <- app_assoc; reflexivity|].
          rewrite index_of_seq by lia. cbn [ravel_acc]. rewrite (ravel_acc_split B (0 * B + N.of_nat i)%N suf), Hlen, Nat.sub_0_r. lia.
  Qed.

  (** the outer loop over the independent atoms, counter starting at 0 *)
  Definition atomic_items (k : nat) (ps : list nat) : list item :=
    fst (enum_digits (fun p c => enum_run k [p] c) ps 0%N).

  Lemma atomic_items_spec k ps : NoDup ps -> forall a cc,
    In (a, cc) (atomic_items k ps) <->
    exists p suf, In p ps /\ length suf = k /\ in_range NA suf /\ a = p :: suf /\ cc = ravel_acc B (N.of_nat (index_of p ps)) suf.
  Proof.
    intros Hnd a cc. unfold atomic_items.
    pose proof (enum_digits_spec (fun p c => enum_run k [p] c) (B ^ N.of_nat k)%N (fun p => [p])
                  (fun suf => length suf = k /\ in_range NA suf) (ravel_acc B 0)
                  (fun p c => enum_run_spec k [p] c) ps Hnd 0%N) as [_ Hl].
    rewrite Hl. split.
    - intros (p & suf & Hp & [Hlen Hr] & -> & ->). exists p, suf. repeat split; auto.
      rewrite (ravel_acc_split B (N.of_nat (index_of p ps)) suf), Hlen. lia.
    - intros (p & suf & Hp & Hlen & Hr & -> & ->). exists p, suf. repeat split; auto.
      rewrite (ravel_acc_split B (N.of_nat (index_of p ps)) suf), Hlen. lia.
  Qed.
End Loop.

(** * The writes and the finished table *)
Section Table.
  Variable NA : nat.
  Variable tp : table.
  Hypothesis Hv : valid_tp NA tp = true.
  Let nlp := length tp.

  (** [indices[(tau(a_0), ..., tau(a_k)) for all tau] = n] *)
  Definition atomic_writes (k : nat) : list item :=
    flat_map (fun it => map (fun tau => (shift (act tp) tau (fst it), snd it)) (seq 0 nlp)) (atomic_items NA k (indep_t NA tp)).

  Lemma indep_t_nodup : NoDup (indep_t NA tp).
  Proof. unfold indep_t, indep_atoms. apply NoDup_filter. apply seq_NoDup. Qed.

  Lemma cls_code_shift t a : t < nlp -> a <> [] -> in_range NA a -> cls_code NA tp (shift (act tp) t a) = cls_code NA tp a.
  Proof.
    intros Ht Hne Ha. unfold cls_code.
    assert (E : sclass_t tp (shift (act tp) t a) = sclass_t tp a).
    { symmetry. apply (sclass_complete_t NA tp Hv); auto.
      - apply (shift_range_t NA tp Hv); assumption.
      - unfold shift. rewrite map_length. reflexivity.
      - exists t. auto. }
    rewrite E. reflexivity.
  Qed.

  (** every write carries the class code of the position it writes ... *)
  Theorem atomic_writes_sound k pos v : In (pos, v) (atomic_writes k) -> v = cls_code NA tp pos /\ length pos = S k /\ in_range NA pos.
  Proof.
    unfold atomic_writes. intros H. apply in_flat_map in H. destruct H as ([a c] & Hit & Hw).
    apply in_map_iff in Hw. destruct Hw as (tau & E & Htau). apply in_seq in Htau. cbn [fst snd] in E. injection E as <- <-.
    apply (atomic_items_spec NA k _ indep_t_nodup) in Hit. destruct Hit as (p & suf & Hp & Hlen & Hr & -> & ->).
    assert (Hpr : p < NA).
    { unfold indep_t, indep_atoms in Hp. apply filter_In in Hp. destruct Hp as [Hp _]. apply in_seq in Hp. lia. }
    assert (Hrange : in_range NA (p :: suf)) by (constructor; assumption).
    split; [|split].
    - rewrite cls_code_shift by (try discriminate; try assumption; fold nlp; lia).
      symmetry. apply (cls_indep_first NA tp Hv); assumption.
    - unfold shift. rewrite map_length. cbn [length]. lia.
    - apply (shift_range_t NA tp Hv); [fold nlp; lia | exact Hrange].
  Qed.

  (** ... and every in-range tuple is written *)
  Theorem atomic_writes_complete k a : length a = S k -> in_range NA a -> exists v, In (a, v) (atomic_writes k).
  Proof.
    intros Hlen Ha. assert (Hne : a <> []) by (destruct a; [discriminate | congruence]).
    destruct (cls_canonical NA tp Hv a Hne Ha) as (_ & Hhd & t & Ht & Esc).
    (* a is a translate of its canonical representative *)
    assert (Hsr : in_range NA (sclass_t tp a)) by (apply (sclass_range NA tp Hv); assumption).
    assert (Hlen' : length (sclass_t tp a) = S k) by (rewrite Esc; unfold shift; rewrite map_length; exact Hlen).
    assert (Hback : exists u, u < nlp /\ shift (act tp) u (sclass_t tp a) = a).
    { apply (sclass_complete_t NA tp Hv (sclass_t tp a) a); auto.
      - destruct (sclass_t tp a); [discriminate | congruence].
      - congruence.
      - symmetry. destruct (cls_canonical NA tp Hv (sclass_t tp a)) as (_ & _ & t2 & Ht2 & E2); auto.
        { destruct (sclass_t tp a); [discriminate | congruence]. }
        (* sclass is idempotent: the canonical translate of a and of sclass a coincide *)
        apply (sclass_complete_t NA tp Hv a (sclass_t tp a)); auto; [congruence | exists t; auto]. }
    destruct Hback as (u & Hu & Eu).
    destruct (sclass_t tp a) as [|p suf] eqn:Es; [discriminate|]. cbn [hd] in Hhd.
    pose proof (Forall_inv Hsr) as Hp. pose proof (Forall_inv_tail Hsr) as Hsuf. cbn beta in Hp.
    exists (ravel_acc (N.of_nat NA) (N.of_nat (index_of p (indep_t NA tp))) suf).
    unfold atomic_writes. apply in_flat_map. exists (p :: suf, ravel_acc (N.of_nat NA) (N.of_nat (index_of p (indep_t NA tp))) suf). split.
    - apply (atomic_items_spec NA k _ indep_t_nodup). exists p, suf. cbn [length] in Hlen'. repeat split; auto; lia.
    - apply in_map_iff. exists u. cbn [fst snd]. split; [rewrite Eu; reflexivity | apply in_seq; fold nlp; lia].
  Qed.

  (** the finished table, read as "the value of any write at that position" (numpy: the last one), is the class code *)
  Definition hits (a : list nat) (w : item) : bool := if list_eq_dec Nat.eq_dec (fst w) a then true else false.
  Definition lookup (a : list nat) (ws : list item) : option BinNums.N :=
    match find (hits a) (rev ws) with Some w => Some (snd w) | None => None end.

  Theorem atomic_table_is_cls_code k a : length a = S k -> in_range NA a ->
    lookup a (atomic_writes k) = Some (cls_code NA tp a).
  Proof.
    intros Hlen Ha. unfold lookup.
    destruct (find (hits a) (rev (atomic_writes k))) as [w|] eqn:F.
    - apply find_some in F. destruct F as [Hin Hm]. apply in_rev in Hin. unfold hits in Hm.
      destruct (list_eq_dec Nat.eq_dec (fst w) a) as [E|]; [|discriminate]. destruct w as [pos v]. cbn [fst snd] in *. subst pos.
      destruct (atomic_writes_sound k a v Hin) as [-> _]. reflexivity.
    - exfalso. destruct (atomic_writes_complete k a Hlen Ha) as [v Hin].
      apply in_rev in Hin. pose proof (find_none _ _ F _ Hin) as Hn. unfold hits in Hn. cbn [fst] in Hn.
      destruct (list_eq_dec Nat.eq_dec a a); [discriminate | contradiction].
  Qed.
End Table.
