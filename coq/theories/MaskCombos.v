(** The two cutoff tables of FCCutoff agree (C07): the combination generators (combinations2 / combinations3_all /
    combinations4_all, which decide what the permutation stage writes) and the element masks (nonzero_atomic_indices_fcK, which
    decide what the coset projector and the sum rules keep) are two independent pieces of code.  For every relation, every N and
    every order: an increasing in-range index tuple is listed by the generator  <->  the mask keeps its atom tuple.
    (Seeded change R14-K3 loosened both sites together; each alone is vetoed by the other, which is what this equivalence says.) *)
From Coq Require Import List Arith Lia Bool Sorted.
Import ListNotations.
From SymfcV Require Import Cutoff CutoffThm.
Local Open Scope nat_scope.

Lemma sublist_map {A B} (f : A -> B) (s l : list A) : sublist s l -> sublist (map f s) (map f l).
Proof. induction 1; simpl; constructor; assumption. Qed.

Section MaskCombos.
  Variable nr : near.
  Variable N : nat.
  Hypothesis near_sym : forall i j, nearb nr i j = nearb nr j i.
  Hypothesis near_refl : forall i, i < N -> nearb nr i i = true.

  Lemma atoms_mutually_near_spec (a : list nat) :
    atoms_mutually_near nr a = true <-> forall x y, sublist [x; y] a -> nearb nr x y = true.
  Proof.
    unfold atoms_mutually_near. rewrite forallb_forall. split.
    - intros H x y Hs. apply (H [x; y]). apply subseqs_spec. split; [reflexivity | exact Hs].
    - intros H p Hp. apply subseqs_spec in Hp. destruct Hp as [Hl Hs].
      destruct p as [|x [|y [|z p]]]; try discriminate. apply H. exact Hs.
  Qed.

  Theorem mask_agrees_with_combos k c : 1 <= k -> length c = k -> increasing c -> in_range3 N c ->
    (In c (cut_combos nr N k) <-> atoms_mutually_near nr (map (fun p => p / 3) c) = true).
  Proof.
    intros Hk Hl Hinc Hr.
    rewrite (cut_combos_spec nr N near_sym near_refl k c Hk), atoms_mutually_near_spec.
    split.
    - intros [_ [_ [_ Hn]]] x y Hs.
      pose proof (sublist_incl _ _ Hs) as Hin.
      assert (Hx : In x (map (fun p => p / 3) c)) by (apply Hin; left; reflexivity).
      assert (Hy : In y (map (fun p => p / 3) c)) by (apply Hin; right; left; reflexivity).
      apply in_map_iff in Hx. destruct Hx as [px [<- Hpx]].
      apply in_map_iff in Hy. destruct Hy as [py [<- Hpy]].
      apply Hn; assumption.
    - intros H. repeat split; try assumption.
      intros x y Hx Hy.
      assert (Hlt : forall u v, In u c -> In v c -> u < v -> nearb nr (u / 3) (v / 3) = true).
      { intros u v Hu Hv Huv. apply H.
        apply (sublist_map (fun p => p / 3) [u; v] c).
        apply sorted_incl_sublist; [exact Hinc | repeat constructor; exact Huv|].
        intros z [<-|[<-|[]]]; assumption. }
      destruct (Nat.lt_trichotomy x y) as [Hxy|[->|Hyx]].
      + apply Hlt; assumption.
      + apply near_refl. unfold in_range3 in Hr. rewrite Forall_forall in Hr. specialize (Hr y Hy).
        apply Nat.div_lt_upper_bound; lia.
      + rewrite near_sym. apply Hlt; assumption.
  Qed.
End MaskCombos.

(** Non-vacuity and both sides: three atoms, 0-1 and 1-2 near, 0-2 not.  The pair (0, 3) (atoms 0, 1) is listed and kept;
    the triple (0, 3, 6) (atoms 0, 1, 2: atom 1 sees the whole cell, 0-2 is out of range) is neither listed nor kept. *)
Definition nr_ex : near := [[true; true; false]; [true; true; true]; [false; true; true]].
Example mask_combos_instance :
  (forall i j, nearb nr_ex i j = nearb nr_ex j i) /\ (forall i, i < 3 -> nearb nr_ex i i = true) /\
  In [0; 3] (cut_combos nr_ex 3 2) /\ atoms_mutually_near nr_ex [0; 1] = true /\
  ~ In [0; 3; 6] (cut_combos nr_ex 3 3) /\ atoms_mutually_near nr_ex [0; 1; 2] = false.
Proof.
  assert (S : forall i j, nearb nr_ex i j = nearb nr_ex j i).
  { intros i j. unfold nearb, nr_ex.
    destruct i as [|[|[|i]]]; destruct j as [|[|[|j]]]; cbn; try reflexivity;
      try (destruct i; reflexivity); try (destruct j; reflexivity); destruct i; destruct j; reflexivity. }
  assert (R : forall i, i < 3 -> nearb nr_ex i i = true).
  { intros i Hi. destruct i as [|[|[|i]]]; try reflexivity; lia. }
  split; [exact S|]. split; [exact R|].
  split; [vm_compute; tauto|]. split; [reflexivity|]. split; [|reflexivity].
  intro H. apply (mask_agrees_with_combos nr_ex 3 S R 3 [0; 3; 6]) in H; try lia; try reflexivity.
  - vm_compute in H. discriminate.
  - repeat constructor.
  - repeat constructor.
Qed.
