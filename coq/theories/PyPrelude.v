(** PyPrelude: the small vocabulary of Python/numpy integer operations that the translator
    (/verif/translator/translate.py) targets.  Only definitions and their characterising lemmas live
    here; nothing in this file mentions symfc. *)
From Coq Require Import ZArith List Bool Lia.
Import ListNotations.
Open Scope Z_scope.

(** Result of a Python call: a value, or the class of the exception raised. *)
Inductive exn := RuntimeError | NotImplementedError | ValueError | KeyError | TypeError | OtherError.
Inductive result (A : Type) := Ok (a : A) | Err (e : exn).
Arguments Ok {A} a.
Arguments Err {A} e.

Definition exn_eqb (a b : exn) : bool :=
  match a, b with
  | RuntimeError, RuntimeError | NotImplementedError, NotImplementedError
  | ValueError, ValueError | KeyError, KeyError | TypeError, TypeError | OtherError, OtherError => true
  | _, _ => false
  end.

Definition is_ok {A} (r : result A) : bool := match r with Ok _ => true | Err _ => false end.

(** [range(a, b, c)] for c <> 0 (c = 0 raises ValueError in Python; callers guard it). *)
Definition py_range_len (a b c : Z) : Z :=
  if c >? 0 then (if b >? a then (b - a + c - 1) / c else 0)
  else if c <? 0 then (if a >? b then (a - b + (- c) - 1) / (- c) else 0)
  else 0.

Definition py_range (a b c : Z) : list Z :=
  map (fun k => a + c * Z.of_nat k) (seq 0 (Z.to_nat (py_range_len a b c))).

Definition py_len {A} (l : list A) : Z := Z.of_nat (length l).

(** [l[k:]] for k >= 0. *)
Definition py_slice_from {A} (l : list A) (k : Z) : list A := skipn (Z.to_nat k) l.

Fixpoint list_eqb {A} (eqb : A -> A -> bool) (l1 l2 : list A) : bool :=
  match l1, l2 with
  | [], [] => true
  | x :: l1', y :: l2' => eqb x y && list_eqb eqb l1' l2'
  | _, _ => false
  end.

Definition zlist_eqb := list_eqb Z.eqb.

Lemma zlist_eqb_eq l1 l2 : zlist_eqb l1 l2 = true <-> l1 = l2.
Proof.
  unfold zlist_eqb. revert l2. induction l1 as [|x l1 IH]; destruct l2 as [|y l2]; simpl; split;
    try congruence; try discriminate; auto.
  - intros H. apply andb_true_iff in H. destruct H as [H1 H2]. apply Z.eqb_eq in H1.
    apply IH in H2. congruence.
  - intros H. inversion H; subst. apply andb_true_iff. split; [apply Z.eqb_refl | apply IH; reflexivity].
Qed.

Definition z_in (x : Z) (l : list Z) : bool := existsb (Z.eqb x) l.
Definition zlist_in (x : list Z) (l : list (list Z)) : bool := existsb (zlist_eqb x) l.

Lemma z_in_In x l : z_in x l = true <-> In x l.
Proof.
  unfold z_in. rewrite existsb_exists. split.
  - intros [y [Hy He]]. apply Z.eqb_eq in He. subst. exact Hy.
  - intros H. exists x. split; [exact H | apply Z.eqb_refl].
Qed.

Lemma zlist_in_In x l : zlist_in x l = true <-> In x l.
Proof.
  unfold zlist_in. rewrite existsb_exists. split.
  - intros [y [Hy He]]. apply zlist_eqb_eq in He. subst. exact Hy.
  - intros H. exists x. split; [exact H | apply zlist_eqb_eq; reflexivity].
Qed.

(** [sorted(l)] on integers: insertion sort. *)
Fixpoint zinsert (x : Z) (l : list Z) : list Z :=
  match l with
  | [] => [x]
  | y :: l' => if x <=? y then x :: l else y :: zinsert x l'
  end.
Definition zsorted (l : list Z) : list Z := fold_right zinsert [] l.

(** Association lists keyed by Z model Python dicts with int keys. *)
Fixpoint alist_get {A} (k : Z) (l : list (Z * A)) : option A :=
  match l with
  | [] => None
  | (k', v) :: l' => if k =? k' then Some v else alist_get k l'
  end.
Fixpoint alist_set {A} (k : Z) (v : A) (l : list (Z * A)) : list (Z * A) :=
  match l with
  | [] => [(k, v)]
  | (k', v') :: l' => if k =? k' then (k, v) :: l' else (k', v') :: alist_set k v l'
  end.
Definition alist_keys {A} (l : list (Z * A)) : list Z := map fst l.

Lemma alist_get_set_same {A} k (v : A) l : alist_get k (alist_set k v l) = Some v.
Proof.
  induction l as [|[k' v'] l IH]; simpl.
  - rewrite Z.eqb_refl. reflexivity.
  - destruct (k =? k') eqn:E; simpl; rewrite ?Z.eqb_refl, ?E; auto.
Qed.

Lemma alist_get_set_other {A} k k' (v : A) l : k <> k' -> alist_get k' (alist_set k v l) = alist_get k' l.
Proof.
  intros Hne. induction l as [|[k2 v2] l IH]; simpl.
  - destruct (k' =? k) eqn:E; [apply Z.eqb_eq in E; congruence | reflexivity].
  - destruct (k =? k2) eqn:E; simpl.
    + apply Z.eqb_eq in E. subst k2.
      destruct (k' =? k) eqn:E2; [apply Z.eqb_eq in E2; congruence | reflexivity].
    + destruct (k' =? k2); auto.
Qed.

(** Length and indexing of [py_range]. *)
Lemma py_range_length a b c : length (py_range a b c) = Z.to_nat (py_range_len a b c).
Proof. unfold py_range. rewrite map_length, seq_length. reflexivity. Qed.

Lemma py_range_len_nonneg a b c : 0 <= py_range_len a b c.
Proof.
  unfold py_range_len.
  destruct (c >? 0) eqn:E1.
  - destruct (b >? a) eqn:E2; [|lia]. apply Z.div_pos; lia.
  - destruct (c <? 0) eqn:E3; [|lia].
    destruct (a >? b) eqn:E4; [|lia]. apply Z.div_pos; lia.
Qed.

Lemma py_range_nth a b c k d :
  (k < length (py_range a b c))%nat -> nth k (py_range a b c) d = a + c * Z.of_nat k.
Proof.
  intros Hk. unfold py_range in *. rewrite map_length, seq_length in Hk.
  rewrite nth_indep with (d' := a + c * Z.of_nat 0) by (rewrite map_length, seq_length; exact Hk).
  rewrite map_nth with (f := fun k => a + c * Z.of_nat k) (d := 0%nat).
  rewrite seq_nth by exact Hk. reflexivity.
Qed.

Lemma nth_skipn_add {A} (l : list A) : forall n k d, nth k (skipn n l) d = nth (n + k) l d.
Proof.
  induction l as [|x l IH]; intros n k d.
  - rewrite skipn_nil. destruct k, n; reflexivity.
  - destruct n; simpl; [reflexivity | apply IH].
Qed.

Lemma skipn_skipn' {A} : forall (x y : nat) (l : list A), skipn x (skipn y l) = skipn (y + x) l.
Proof.
  intros x y l. revert y. induction l as [|a l IH]; intros y.
  - rewrite !skipn_nil. reflexivity.
  - destruct y; simpl; [reflexivity | apply IH].
Qed.

Lemma alist_get_none_iff {A} k (l : list (Z * A)) : alist_get k l = None <-> ~ In k (alist_keys l).
Proof.
  induction l as [|[k' v] l IH]; simpl; [tauto|].
  destruct (k =? k') eqn:E.
  - apply Z.eqb_eq in E. subst. split; [discriminate | intros H; exfalso; apply H; auto].
  - rewrite IH. apply Z.eqb_neq in E. split; intros H; [intros [H1|H1]; [congruence|auto] | auto].
Qed.

