(** Executable instantiation of Group.v on a translation table ([trans_perms]) and the numeric
    encoding of classes used by the implementation:
      atomic_decompr_idx[ravel(atoms)] = rank(first atom's orbit) * N^(n-1) + ravel(translated rest)
      element = atomic_decompr_idx[...] * 3^n + ravel(carts). *)
From Coq Require Import List Arith Lia Bool NArith PArith.
Import ListNotations.
From SymfcV Require Import Tuples Group.
Local Open Scope nat_scope.

(** ** Mixed-radix encoding *)
Fixpoint ravel_acc (B : N) (acc : N) (l : list nat) : N :=
  match l with
  | [] => acc
  | d :: l' => ravel_acc B (acc * B + N.of_nat d)%N l'
  end.

Lemma ravel_acc_inj (B : N) : (0 < B)%N -> forall l l' a a',
  length l = length l' ->
  Forall (fun d => (N.of_nat d < B)%N) l -> Forall (fun d => (N.of_nat d < B)%N) l' ->
  ravel_acc B a l = ravel_acc B a' l' -> a = a' /\ l = l'.
Proof.
  intros HB. induction l as [|d l IH]; intros l' a a' Hlen Hl Hl' E.
  - destruct l'; [|discriminate]. simpl in E. auto.
  - destruct l' as [|d' l']; [discriminate|]. simpl in E.
    inversion Hl as [|? ? Hd Hl2]; subst. inversion Hl' as [|? ? Hd' Hl2']; subst.
    destruct (IH l' _ _ ltac:(simpl in Hlen; lia) Hl2 Hl2' E) as [E1 E2].
    assert (Hq : a = a' /\ N.of_nat d = N.of_nat d').
    { apply (N.div_mod_unique B); try assumption. lia. }
    destruct Hq as [-> Hd2]. apply Nat2N.inj in Hd2. subst. auto.
Qed.

(** ** index of an element in a list *)
Fixpoint index_of (x : nat) (l : list nat) : nat :=
  match l with
  | [] => 0
  | y :: l' => if x =? y then 0 else S (index_of x l')
  end.

Lemma index_of_inj x y l : In x l -> In y l -> index_of x l = index_of y l -> x = y.
Proof.
  induction l as [|z l IH]; intros Hx Hy E; [destruct Hx|]. simpl in E.
  destruct (x =? z) eqn:E1; destruct (y =? z) eqn:E2.
  - apply Nat.eqb_eq in E1, E2. congruence.
  - discriminate.
  - discriminate.
  - apply Nat.eqb_neq in E1, E2. injection E as E.
    destruct Hx as [Hx|Hx]; [congruence|]. destruct Hy as [Hy|Hy]; [congruence|]. auto.
Qed.

Lemma index_of_lt x l : In x l -> index_of x l < length l.
Proof.
  induction l as [|z l IH]; intros H; [destruct H|]. simpl.
  destruct (x =? z) eqn:E; [lia|]. apply Nat.eqb_neq in E. destruct H as [H|H]; [congruence|]. specialize (IH H). lia.
Qed.

(** ** The table *)
Definition table := list (list nat).

Section Tab.
  Variable N : nat.
  Variable tp : table.
  Let nlp := length tp.
  Definition act (t i : nat) : nat := nth i (nth t tp []) 0.

  Definition chk_range : bool := forallb (fun t => forallb (fun i => act t i <? N) (seq 0 N)) (seq 0 nlp).
  Definition chk_id : bool := forallb (fun i => act 0 i =? i) (seq 0 N).
  Definition chk_closed : bool :=
    forallb (fun a => forallb (fun b => existsb (fun c => forallb (fun i => act c i =? act a (act b i)) (seq 0 N)) (seq 0 nlp)) (seq 0 nlp)) (seq 0 nlp).
  Definition chk_inv : bool :=
    forallb (fun a => existsb (fun b => forallb (fun i => (act b (act a i) =? i) && (act a (act b i) =? i)) (seq 0 N)) (seq 0 nlp)) (seq 0 nlp).
  Definition chk_free : bool :=
    forallb (fun a => forallb (fun b => (a =? b) || forallb (fun i => negb (act a i =? act b i)) (seq 0 N)) (seq 0 nlp)) (seq 0 nlp).

  Definition valid_tp : bool :=
    (0 <? nlp) && (0 <? N) && chk_range && chk_id && chk_closed && chk_inv && chk_free.

  Hypothesis Hv : valid_tp = true.

  Lemma valid_parts : (0 <? nlp) = true /\ (0 <? N) = true /\ chk_range = true /\ chk_id = true /\
                      chk_closed = true /\ chk_inv = true /\ chk_free = true.
  Proof.
    pose proof Hv as H. unfold valid_tp in H.
    repeat (apply andb_true_iff in H; destruct H as [H ?]). repeat split; assumption.
  Qed.

  Lemma v_nlp_pos : 0 < nlp.
  Proof. destruct valid_parts as [H _]. apply Nat.ltb_lt. exact H. Qed.
  Lemma v_N_pos : 0 < N.
  Proof. destruct valid_parts as [_ [H _]]. apply Nat.ltb_lt. exact H. Qed.
  Lemma v_act_lt t i : t < nlp -> i < N -> act t i < N.
  Proof.
    intros Ht Hi. destruct valid_parts as [_ [_ [H _]]]. unfold chk_range in H.
    rewrite forallb_seq in H. specialize (H t Ht). rewrite forallb_seq in H. specialize (H i Hi).
    apply Nat.ltb_lt in H. exact H.
  Qed.
  Lemma v_act_id i : i < N -> act 0 i = i.
  Proof.
    intros Hi. destruct valid_parts as [_ [_ [_ [H _]]]]. unfold chk_id in H.
    rewrite forallb_seq in H. specialize (H i Hi). apply Nat.eqb_eq in H. exact H.
  Qed.
  Lemma v_closed a b : a < nlp -> b < nlp -> exists c, c < nlp /\ forall i, i < N -> act c i = act a (act b i).
  Proof.
    intros Ha Hb. destruct valid_parts as [_ [_ [_ [_ [H _]]]]]. unfold chk_closed in H.
    rewrite forallb_seq in H. specialize (H a Ha). rewrite forallb_seq in H. specialize (H b Hb).
    apply existsb_seq in H. destruct H as [c [Hc H]]. exists c. split; [exact Hc|].
    rewrite forallb_seq in H. intros i Hi. apply Nat.eqb_eq. apply H. exact Hi.
  Qed.
  Lemma v_inverse a : a < nlp -> exists b, b < nlp /\ forall i, i < N -> act b (act a i) = i /\ act a (act b i) = i.
  Proof.
    intros Ha. destruct valid_parts as [_ [_ [_ [_ [_ [H _]]]]]]. unfold chk_inv in H.
    rewrite forallb_seq in H. specialize (H a Ha).
    apply existsb_seq in H. destruct H as [b [Hb H]]. exists b. split; [exact Hb|].
    rewrite forallb_seq in H. intros i Hi. specialize (H i Hi). apply andb_true_iff in H. destruct H as [H1 H2].
    apply Nat.eqb_eq in H1, H2. auto.
  Qed.
  Lemma v_free a b i : a < nlp -> b < nlp -> i < N -> act a i = act b i -> a = b.
  Proof.
    intros Ha Hb Hi E. destruct valid_parts as [_ [_ [_ [_ [_ [_ H]]]]]]. unfold chk_free in H.
    rewrite forallb_seq in H. specialize (H a Ha). rewrite forallb_seq in H. specialize (H b Hb).
    apply orb_true_iff in H. destruct H as [H|H]; [apply Nat.eqb_eq in H; exact H|].
    rewrite forallb_seq in H. specialize (H i Hi). apply negb_true_iff in H. apply Nat.eqb_neq in H. contradiction.
  Qed.

  (** ** Class codes *)
  Definition omin_t := omin nlp act.
  Definition indep_t : list nat := indep_atoms nlp N act.
  Definition sclass_t := sclass nlp act.

  Definition cls_code (a : list nat) : BinNums.N :=
    let sc := sclass_t a in
    ravel_acc (N.of_nat N) (N.of_nat (index_of (hd 0 sc) indep_t)) (tl sc).

  Definition atoms_of (t : tuple) : list nat := map (fun p => p / 3) t.
  Definition carts_of (t : tuple) : list nat := map (fun p => p mod 3) t.
  Definition elem_code (t : tuple) : BinNums.N := ravel_acc 3 (cls_code (atoms_of t)) (carts_of t).
  Definition elem_tab (t : tuple) : positive := N.succ_pos (elem_code t).
  Definition tshift_tab (tau p : nat) : nat := 3 * act tau (p / 3) + p mod 3.

  Definition wf_t (n : nat) (t : tuple) : Prop := length t = n /\ Forall (fun p => p < 3 * N) t.

  Lemma atoms_range n t : wf_t n t -> in_range N (atoms_of t).
  Proof.
    intros [_ H]. unfold in_range, atoms_of. apply Forall_forall. intros x Hx. apply in_map_iff in Hx.
    destruct Hx as [p [<- Hp]]. rewrite Forall_forall in H. specialize (H p Hp). apply Nat.div_lt_upper_bound; lia.
  Qed.

  Lemma tshift_tab_lt tau p : tau < nlp -> p < 3 * N -> tshift_tab tau p < 3 * N.
  Proof.
    intros Ht Hp. unfold tshift_tab.
    assert (p / 3 < N) by (apply Nat.div_lt_upper_bound; lia).
    pose proof (v_act_lt tau (p / 3) Ht H). pose proof (Nat.mod_upper_bound p 3). lia.
  Qed.

  Lemma tshift_tab_div tau p : tshift_tab tau p / 3 = act tau (p / 3).
  Proof.
    unfold tshift_tab. rewrite Nat.mul_comm, Nat.div_add_l by lia.
    rewrite (Nat.div_small (p mod 3) 3) by (apply Nat.mod_upper_bound; lia). lia.
  Qed.

  Lemma atoms_tshift tau t : atoms_of (map (tshift_tab tau) t) = shift act tau (atoms_of t).
  Proof.
    unfold atoms_of, shift. rewrite !map_map. apply map_ext. intros p. unfold tshift_tab.
    rewrite Nat.mul_comm. rewrite Nat.div_add_l by lia. rewrite (Nat.div_small (p mod 3)) by (apply Nat.mod_upper_bound; lia). lia.
  Qed.

  Lemma carts_tshift tau t : carts_of (map (tshift_tab tau) t) = carts_of t.
  Proof.
    unfold carts_of. rewrite map_map. apply map_ext. intros p. unfold tshift_tab.
    rewrite Nat.add_comm, Nat.mul_comm, Nat.mod_add by lia. apply Nat.mod_mod. lia.
  Qed.

  Ltac grp := first [exact v_nlp_pos | exact v_act_lt | exact v_act_id | exact v_closed | exact v_inverse | exact v_free | assumption].

  Lemma shift_range_t t a : t < nlp -> in_range N a -> in_range N (shift act t a).
  Proof. intros Ht Ha. apply shift_range with (nlp := nlp); grp. Qed.
  Lemma tinv_spec_t i : i < N -> tinv nlp act i < nlp /\ act (tinv nlp act i) i = omin nlp act i.
  Proof. intros Hi. apply tinv_spec with (N := N); grp. Qed.
  Lemma sclass_head_t i rest : i < N -> hd 0 (sclass nlp act (i :: rest)) = omin nlp act i.
  Proof. intros Hi. apply sclass_head with (N := N); grp. Qed.
  Lemma omin_is_indep_t i : i < N -> In (omin nlp act i) (indep_atoms nlp N act).
  Proof. intros Hi. apply omin_is_indep; grp. Qed.

  Lemma omin_le_orbit_t i t : t < nlp -> omin nlp act i <= act t i.
  Proof. intros Ht. apply omin_le_orbit; grp. Qed.
  Lemma indep_unique_t i j t : i < N -> In i (indep_atoms nlp N act) -> In j (indep_atoms nlp N act) -> t < nlp -> act t i = j -> i = j.
  Proof. intros Hi Hii Hij Ht E. apply (indep_unique_in_orbit nlp N act) with (t := t); grp. Qed.

  (** the greedy scan written in the source returns the orbit minima *)
  Lemma indep_scan_t : indep_scan nlp N act = indep_atoms nlp N act.
  Proof. apply indep_scan_eq; grp. Qed.

  Lemma omin_le_self_t i : i < N -> omin nlp act i <= i.
  Proof. intros Hi. apply omin_le_self with (N := N); grp. Qed.
  Lemma omin_in_orbit_t i : i < N -> exists t, t < nlp /\ omin nlp act i = act t i.
  Proof. intros Hi. apply omin_in_orbit with (N := N); grp. Qed.

  Lemma orbit_nodup_t i : i < N -> NoDup (orbit nlp act i).
  Proof. intros Hi. apply orbit_nodup with (N := N); grp. Qed.

  Lemma sclass_complete_t a a' : a <> [] -> in_range N a -> in_range N a' -> length a = length a' ->
    (sclass_t a = sclass_t a' <-> exists t, t < nlp /\ shift act t a = a').
  Proof.
    apply sclass_complete; grp.
  Qed.

  Theorem elem_tab_inv n tau t : 0 < n -> tau < nlp -> wf_t n t -> elem_tab (map (tshift_tab tau) t) = elem_tab t.
  Proof.
    intros Hn Ht Hw. unfold elem_tab, elem_code. rewrite carts_tshift, atoms_tshift. f_equal. f_equal.
    unfold cls_code.
    assert (E : sclass_t (shift act tau (atoms_of t)) = sclass_t (atoms_of t)).
    { symmetry. apply sclass_complete_t.
      - destruct Hw as [Hl _]. destruct t; [simpl in Hl; lia | discriminate].
      - eapply atoms_range; eauto.
      - apply shift_range_t; [exact Ht | eapply atoms_range; eauto].
      - unfold shift. rewrite map_length. reflexivity.
      - exists tau. auto. }
    rewrite E. reflexivity.
  Qed.

  Lemma sclass_range a : a <> [] -> in_range N a -> in_range N (sclass_t a).
  Proof.
    intros Hne Ha. unfold sclass_t, sclass. apply shift_range_t; [|exact Ha].
    destruct a as [|i r]; [congruence|]. simpl. inversion Ha; subst.
    apply tinv_spec_t. assumption.
  Qed.

  Theorem elem_tab_complete n t t' : 0 < n -> wf_t n t -> wf_t n t' -> elem_tab t = elem_tab t' ->
    exists tau, tau < nlp /\ map (tshift_tab tau) t = t'.
  Proof.
    intros Hn Hw Hw' E. unfold elem_tab in E.
    apply (f_equal Pos.pred_N) in E. rewrite !N.pos_pred_succ in E. unfold elem_code in E.
    pose proof (atoms_range n t Hw) as Ha. pose proof (atoms_range n t' Hw') as Ha'.
    destruct Hw as [Hl Hr]. destruct Hw' as [Hl' Hr'].
    assert (Hc3 : forall u, Forall (fun d => (N.of_nat d < 3)%N) (carts_of u)).
    { intros u. unfold carts_of. apply Forall_forall. intros x Hx. apply in_map_iff in Hx. destruct Hx as [p [<- _]].
      pose proof (Nat.mod_upper_bound p 3). lia. }
    assert (Hlc : length (carts_of t) = length (carts_of t')) by (unfold carts_of; rewrite !map_length; lia).
    assert (H3 : (0 < 3)%N) by lia.
    destruct (ravel_acc_inj 3%N H3 (carts_of t) (carts_of t') _ _ Hlc (Hc3 t) (Hc3 t') E) as [Ecls Ecart].
    unfold cls_code in Ecls.
    assert (Hne : atoms_of t <> []) by (unfold atoms_of; destruct t; [simpl in Hl; lia | discriminate]).
    assert (Hne' : atoms_of t' <> []) by (unfold atoms_of; destruct t'; [simpl in Hl'; lia | discriminate]).
    pose proof (sclass_range _ Hne Ha) as Hs. pose proof (sclass_range _ Hne' Ha') as Hs'.
    assert (HlenS : length (sclass_t (atoms_of t)) = length (sclass_t (atoms_of t')))
      by (unfold sclass_t, sclass, shift, atoms_of; rewrite !map_length; lia).
    assert (HN : forall l, in_range N l -> Forall (fun d => (N.of_nat d < N.of_nat N)%N) l)
      by (intros l Hlr; unfold in_range in Hlr; eapply Forall_impl; [|exact Hlr]; intros; simpl in *; lia).
    assert (Htl : forall l, in_range N l -> in_range N (tl l)) by (intros l Hlr; destruct l; [exact Hlr | inversion Hlr; assumption]).
    assert (HNpos : (0 < N.of_nat N)%N) by (pose proof v_N_pos; lia).
    assert (Hltl : length (tl (sclass_t (atoms_of t))) = length (tl (sclass_t (atoms_of t'))))
      by (destruct (sclass_t (atoms_of t)), (sclass_t (atoms_of t')); simpl in *; lia).
    destruct (ravel_acc_inj (N.of_nat N) HNpos (tl (sclass_t (atoms_of t))) (tl (sclass_t (atoms_of t'))) _ _
                Hltl (HN _ (Htl _ Hs)) (HN _ (Htl _ Hs')) Ecls) as [Erank Etl].
    apply Nat2N.inj in Erank.
    (* heads are orbit minima, hence members of indep_t *)
    assert (Hhd : forall a, a <> [] -> in_range N a -> In (hd 0 (sclass_t a)) indep_t).
    { intros a Hna Hra. destruct a as [|i r]; [congruence|]. inversion Hra; subst.
      unfold sclass_t. rewrite sclass_head_t by assumption.
      apply omin_is_indep_t. assumption. }
    pose proof (index_of_inj _ _ _ (Hhd _ Hne Ha) (Hhd _ Hne' Ha') Erank) as Ehd.
    assert (Esc : sclass_t (atoms_of t) = sclass_t (atoms_of t')).
    { destruct (sclass_t (atoms_of t)) as [|x xs] eqn:E1; destruct (sclass_t (atoms_of t')) as [|y ys] eqn:E2;
        simpl in *; try lia; try reflexivity. congruence. }
    apply sclass_complete_t in Esc; try assumption; [|unfold atoms_of; rewrite !map_length; lia].
    destruct Esc as [tau [Htau Esh]]. exists tau. split; [exact Htau|].
    (* rebuild indices from atoms and carts *)
    clear - Esh Ecart Hl Hl'. Local Opaque Nat.div Nat.modulo.
    revert t' Hl' Esh Ecart. revert n Hl. induction t as [|p t IH]; intros n Hl t' Hl' Esh Ecart.
    - destruct t'; [reflexivity | simpl in *; lia].
    - destruct t' as [|p' t']; [simpl in *; lia|].
      unfold shift, atoms_of, carts_of in Esh, Ecart. cbn [map] in Esh, Ecart.
      injection Esh as Ea Et. injection Ecart as Ec Ect. cbn [map]. f_equal.
      + unfold tshift_tab. rewrite Ea, Ec. symmetry. apply Nat.div_mod_eq.
      + apply (IH (length t) eq_refl); auto. cbn [length] in Hl, Hl'. lia.
  Qed.

  (** ** C08: compact rows.  For a tuple whose first atom is translationally independent the class code
      is (rank of that atom) * N^(n-1) + ravel(rest): row [r, J] of the compact array is the element
      (p2s[r], J) of the full tensor. *)
  Lemma tinv_indep i : i < N -> In i indep_t -> tinv nlp act i = 0.
  Proof.
    intros Hi Hin. unfold indep_t, indep_atoms in Hin. apply filter_In in Hin. destruct Hin as [_ Hm].
    unfold is_indep in Hm. apply Nat.eqb_eq in Hm.
    destruct (tinv_spec_t i Hi) as [Ht Et].
    apply (v_free (tinv nlp act i) 0 i); [exact Ht | exact v_nlp_pos | exact Hi |].
    rewrite Et, Hm. symmetry. apply v_act_id. exact Hi.
  Qed.

  Lemma shift0 a : in_range N a -> shift act 0 a = a.
  Proof.
    intros Ha. unfold shift. rewrite <- (map_id a) at 2. apply map_ext_in. intros x Hx.
    unfold in_range in Ha. rewrite Forall_forall in Ha. apply v_act_id. auto.
  Qed.

  Theorem cls_indep_first i rest : i < N -> In i indep_t -> in_range N rest ->
    cls_code (i :: rest) = ravel_acc (N.of_nat N) (N.of_nat (index_of i indep_t)) rest.
  Proof.
    intros Hi Hin Hr. unfold cls_code, sclass_t, sclass. cbn [hd]. rewrite (tinv_indep i Hi Hin).
    rewrite shift0 by (constructor; assumption). reflexivity.
  Qed.

  (** every tuple has the code of its canonical translate, whose first atom is independent *)
  Theorem cls_canonical a : a <> [] -> in_range N a ->
    cls_code a = cls_code (sclass_t a) /\ In (hd 0 (sclass_t a)) indep_t /\
    exists t, t < nlp /\ sclass_t a = shift act t a.
  Proof.
    intros Hne Ha. destruct a as [|i r]; [congruence|]. inversion Ha as [|? ? Hi Hr]; subst.
    destruct (tinv_spec_t i Hi) as [Ht Et].
    assert (Hin : In (hd 0 (sclass_t (i :: r))) indep_t).
    { unfold sclass_t. rewrite sclass_head_t by assumption. apply omin_is_indep_t. assumption. }
    split; [|split; [exact Hin|]].
    - unfold cls_code at 1. f_equal.
      symmetry. unfold cls_code.
      assert (E : sclass_t (sclass_t (i :: r)) = sclass_t (i :: r)).
      { apply sclass_complete_t.
        - unfold sclass_t, sclass, shift. simpl. discriminate.
        - apply sclass_range; [discriminate | exact Ha].
        - exact Ha.
        - unfold sclass_t, sclass, shift. rewrite map_length. reflexivity.
        - destruct (v_inverse (tinv nlp act i) Ht) as [u [Hu Hinv]]. exists u. split; [exact Hu|].
          unfold sclass_t, sclass. cbn [hd]. unfold shift. rewrite map_map.
          rewrite <- (map_id (i :: r)) at 2. apply map_ext_in. intros x Hx.
          unfold in_range in Ha. rewrite Forall_forall in Ha. apply Hinv. auto. }
      rewrite E. reflexivity.
    - exists (tinv nlp act i). split; [exact Ht | reflexivity].
  Qed.

  (** ** C09/C14: every class has exactly nlp members (free action): the nlp translates of a tuple are
      pairwise distinct, and they are exactly the tuples with the same class code. *)
  Theorem class_translates_distinct a : a <> [] -> in_range N a ->
    NoDup (map (fun t => shift act t a) (seq 0 nlp)).
  Proof.
    intros Hne Ha. apply (map_nodup_in).
    - intros s t Hs Ht E. apply in_seq in Hs, Ht. destruct a as [|i r]; [congruence|]. inversion Ha; subst.
      unfold shift in E. cbn [map] in E. injection E as E _. apply (v_free s t i); auto; lia.
    - apply seq_NoDup.
  Qed.
End Tab.
