(** C01 assembled: for the executable model of the orbit routine (exact numpy write order, any
    batch counts), with the row minimum as representative, on every valid translation table, for every
    list of in-range combinations: the label of an element is invariant under every position
    permutation of its index tuple; hence every vector in the column space of c_pt -- every basis
    vector and every fit, whatever the data -- expands to a permutation-symmetric tensor. *)
From Coq Require Import List Arith Lia Bool NArith PArith ZArith FMapPositive.
Import ListNotations.
From SymfcV Require Import PyPrelude Tuples PermModel PermExec Group Concrete TableFacts Cutoff Pipeline.
From SymfcG Require Import Tables.
Local Open Scope nat_scope.

Section Assemble.
  Variable n : nat.
  Variable blocks : list block.
  Hypothesis Hn : order_ok n = true.
  Hypothesis Hpos : 0 < n.
  Hypothesis Ht : tables_ok n blocks = true.

  Variable N : nat.
  Variable tp : table.
  Hypothesis Hv : valid_tp N tp = true.

  (** the input of the routine: blocks of the table with arbitrary in-range combinations and batch counts *)
  Variable inp : list (block * list (list nat) * Z).
  Hypothesis inp_blocks : forall b cs nb, In (b, cs, nb) inp -> In b blocks.
  Hypothesis inp_combos : forall b cs nb c, In (b, cs, nb) inp -> In c cs -> length c = bk_k b /\ Forall (fun p => p < 3 * N) c.
  Hypothesis inp_batches : forall b cs nb, In (b, cs, nb) inp -> (0 < Z.of_nat (length cs) / nb)%Z.

  Let elem := elem_tab N tp.
  Let bc := map fst inp.

  Lemma bc_blocks b : In b (map fst bc) -> In b blocks.
  Proof.
    intros H. apply in_map_iff in H. destruct H as [[b' cs] [<- H]]. unfold bc in H.
    apply in_map_iff in H. destruct H as [[[b'' cs'] nb] [E H]]. simpl in E. inversion E; subst. eapply inp_blocks; eauto.
  Qed.

  Theorem assembled_label_invariant W t pi :
    all_writes elem RepRowMin inp = Ok W ->
    wf_t N n t -> is_perm n pi ->
    PositiveMap.find (elem (permute pi t)) (ptr_of W) = PositiveMap.find (elem t) (ptr_of W).
  Proof.
    intros HW Hw Hp.
    apply (label_perm_invariant n (3 * N) (length tp) (tshift_tab tp) elem bc) with (W := W).
    - intros tau t0 Htau Hw0. apply (elem_tab_inv N tp Hv n); assumption.
    - intros t0 t1 Hw0 Hw1 E. apply (elem_tab_complete N tp Hv n); assumption.
    - apply (r_perms_range n Hn).
    - apply (r_perms_inverse n Hn).
    - intros b g a Hb. apply (r_T0 n blocks Ht). apply bc_blocks. exact Hb.
    - intros b g pi0 a Hb. apply (r_T1 n blocks Ht). apply bc_blocks. exact Hb.
    - intros b g a a' Hb. apply (r_T2 n blocks Ht). apply bc_blocks. exact Hb.
    - intros b cs c Hbc Hc. unfold bc in Hbc. apply in_map_iff in Hbc. destruct Hbc as [[[b' cs'] nb] [E Hin]].
      simpl in E. inversion E; subst. eapply inp_combos; eauto.
    - apply (exec_writes_ok elem inp).
      + intros b cs nb g Hin Hg. apply (r_widths n blocks Ht); [eapply inp_blocks; eauto | exact Hg].
      + exact inp_batches.
      + exact HW.
    - exact Hw.
    - exact Hp.
  Qed.

  (** Whatever value is attached to a label, the resulting tensor is symmetric (fact (L): every vector in
      the column space of c_pt is a function of the label; rows of eliminated elements are zero). *)
  Theorem assembled_tensor_symmetric {A} (zero : A) (y : positive -> A) W t pi :
    all_writes elem RepRowMin inp = Ok W -> wf_t N n t -> is_perm n pi ->
    let Phi := fun u => match PositiveMap.find (elem u) (ptr_of W) with Some l => y l | None => zero end in
    Phi (permute pi t) = Phi t.
  Proof. intros HW Hw Hp Phi. unfold Phi. rewrite (assembled_label_invariant W t pi HW Hw Hp). reflexivity. Qed.
End Assemble.
