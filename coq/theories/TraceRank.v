(** Trace and the number of unit eigenvalues (C15).  For a symmetric matrix with spectrum in [0,1] the number of eigenvalues equal to 1
    is at most the trace (the sum of the eigenvalues), with equality exactly for projectors (all eigenvalues 0 or 1).  So
    round(trace) is an upper bound for the dimension of the unit eigenspace, not its value: a connected block of
    "identity minus a scaled positive semidefinite matrix" can have trace 1 and no unit eigenvalue (eigenvalues 3/4 and 1/4).
    The eigenvalues are given as a list; that a symmetric matrix has such a list is LAPACK's part (trusted base). *)
From Coq Require Import Reals Lra List.
Import ListNotations.
Open Scope R_scope.

Fixpoint tsum (l : list R) : R := match l with [] => 0 | x :: l' => x + tsum l' end.
Fixpoint count1 (l : list R) : nat :=
  match l with [] => O | x :: l' => ((if Req_EM_T x 1 then 1 else 0) + count1 l')%nat end.

Lemma count1_cons x l : INR (count1 (x :: l)) = (if Req_EM_T x 1 then 1 else 0) + INR (count1 l).
Proof. cbn [count1]. rewrite plus_INR. destruct (Req_EM_T x 1); simpl; lra. Qed.

Theorem unit_count_le_trace l : Forall (fun x => 0 <= x <= 1) l -> INR (count1 l) <= tsum l.
Proof.
  induction 1 as [|x l Hx _ IH]; [simpl; lra|].
  rewrite count1_cons. cbn [tsum]. destruct (Req_EM_T x 1); lra.
Qed.

Theorem unit_count_eq_trace_iff_projector l :
  Forall (fun x => 0 <= x <= 1) l -> (INR (count1 l) = tsum l <-> Forall (fun x => x = 0 \/ x = 1) l).
Proof.
  induction 1 as [|x l Hx Hl IH]; [split; [constructor | reflexivity]|].
  pose proof (unit_count_le_trace l Hl) as Hle.
  rewrite count1_cons. cbn [tsum]. split.
  - intros E. destruct (Req_EM_T x 1) as [E1|N1].
    + constructor; [right; exact E1 | apply IH; lra].
    + assert (x = 0) by lra. constructor; [left; assumption | apply IH; lra].
  - intros F. inversion F as [|? ? Hx01 Fl]; subst. apply IH in Fl.
    destruct (Req_EM_T x 1) as [E1|N1]; destruct Hx01; lra.
Qed.

(** the shortcut "trace 1 => rank-one projector => take the top eigenvector" is wrong: spectrum within [0,1], trace 1, no unit eigenvalue *)
Example unit_trace_without_unit_eigenvalue :
  Forall (fun x => 0 <= x <= 1) [3 / 4; 1 / 4] /\ tsum [3 / 4; 1 / 4] = 1 /\ count1 [3 / 4; 1 / 4] = O.
Proof.
  split; [repeat constructor; lra|]. split; [simpl; lra|].
  cbn [count1]. destruct (Req_EM_T (3 / 4) 1); [lra|]. destruct (Req_EM_T (1 / 4) 1); [lra|]. reflexivity.
Qed.
