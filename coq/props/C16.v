(** C16 — invalid requests are rejected instead of producing partial or stale results.
    Statements only; proofs live in theories/OrdersThm.v and theories/Api.v and talk about the
    definitions regenerated from /repo/src/symfc/api_symfc.py (gen/Orders.v). *)
From Coq Require Import ZArith List Bool Permutation.
Import ListNotations.
From SymfcV Require Import PyPrelude OrdersThm Api.
From SymfcG Require Import Orders.
Open Scope Z_scope.

(** Which order specifications are accepted, and what they are normalised to. *)
Theorem c16_accept_iff (m : option Z) (os : option (list Z)) (o : list Z) :
  check_orders m os = Ok o <->
  (exists k, m = Some k /\ In k [2; 3; 4] /\ o = upto k) \/
  (m = None /\ exists l, os = Some l /\ o = zsorted l /\ In o whitelist).
Proof. exact (check_orders_accept_iff m os o). Qed.
Print Assumptions c16_accept_iff.

(** Lists: accepted iff a rearrangement of one of (2),(3),(4),(2,3),(3,4),(2,3,4) — duplicates, the
    empty list, 0/1/5 and (2,4) are rejected. *)
Theorem c16_accept_multiset l :
  is_ok (check_orders None (Some l)) = true <-> exists w, In w whitelist /\ Permutation l w.
Proof. exact (orders_accept_multiset l). Qed.
Print Assumptions c16_accept_multiset.

Theorem c16_max_order_equiv k os :
  In k [2; 3; 4] -> check_orders (Some k) os = check_orders None (Some (upto k)).
Proof. exact (max_order_equiv k os). Qed.
Print Assumptions c16_max_order_equiv.

Theorem c16_max_order_out_of_range k os : ~ In k [2; 3; 4] -> check_orders (Some k) os = Err NotImplementedError.
Proof. exact (max_order_out_of_range k os). Qed.
Print Assumptions c16_max_order_out_of_range.

Theorem c16_both_missing : check_orders None None = Err RuntimeError.
Proof. exact both_missing. Qed.

(** Datasets: accepted iff both arrays are present with shape (n, natom, 3). *)
Theorem c16_dataset_accept_iff natom d f :
  check_dataset natom d f = Ok tt <-> exists n, d = Some [n; natom; 3] /\ f = Some [n; natom; 3].
Proof. exact (check_dataset_accept_iff natom d f). Qed.
Print Assumptions c16_dataset_accept_iff.

(** The ladder of solve(): validation first; per branch all look-ups and the solver call precede the
    first assignment; exactly the requested orders are read and written. *)
Theorem c16_dispatch_wellformed : dispatch_wf = true /\ solve_prelude = [PreCheckDataset; PreCheckOrders].
Proof. exact (conj dispatch_wellformed solve_validates_first). Qed.
Print Assumptions c16_dispatch_wellformed.

(** Whatever the object went through before (any state [st]): a solve that raises leaves the result
    dictionary, the basis sets and the dataset exactly as they were. *)
Theorem c16_reject_preserves_state natom st m os c st' e :
  solve natom st m os c = (st', Err e) -> st' = st.
Proof. exact (solve_error_preserves_state natom st m os c st' e). Qed.
Print Assumptions c16_reject_preserves_state.

Theorem c16_bad_dataset_rejected natom st m os c :
  (forall n, ~ (shape_of (s_disp st) = Some [n; natom; 3] /\ shape_of (s_forces st) = Some [n; natom; 3])) ->
  solve natom st m os c = (st, Err RuntimeError).
Proof. exact (solve_rejects_bad_dataset natom st m os c). Qed.
Print Assumptions c16_bad_dataset_rejected.

Theorem c16_bad_orders_rejected natom st m os c e :
  check_orders m os = Err e -> exists e', solve natom st m os c = (st, Err e').
Proof. exact (solve_rejects_bad_orders natom st m os c e). Qed.
Print Assumptions c16_bad_orders_rejected.

Theorem c16_missing_basis_rejected natom st m os c o k :
  check_orders m os = Ok o -> In k o -> alist_get k (s_basis st) = None ->
  exists e, solve natom st m os c = (st, Err e).
Proof. exact (solve_missing_basis natom st m os c o k). Qed.
Print Assumptions c16_missing_basis_rejected.

(** A successful solve on an object without earlier results holds exactly the requested orders. *)
Theorem c16_result_keys natom st m os c st' :
  s_fc st = [] -> solve natom st m os c = (st', Ok tt) ->
  exists o, check_orders m os = Ok o /\ forall k, In k (alist_keys (s_fc st')) <-> In k o.
Proof. exact (solve_result_keys natom st m os c st'). Qed.
Print Assumptions c16_result_keys.

Theorem c16_run_without_data_noop natom fresh_bid st m os c :
  s_disp st = None \/ s_forces st = None -> run natom fresh_bid st m os c = (st, Ok tt).
Proof. exact (run_without_data_noop natom fresh_bid st m os c). Qed.
Print Assumptions c16_run_without_data_noop.

(** The remaining source this property rests on is the recorded one (the Symfc facade): whole-function match,
    regenerated on every run (closes the gap between "the expected statements are present" and "nothing else was added"). *)
From SymfcG Require Import ShapesApi.
Theorem c16_recorded_sources2_in_force : ShapesApi_as_recorded = true.
Proof. repeat split; reflexivity. Qed.

(** What the modules on this property's path consist of besides the function bodies is the recorded one: every signature with its
    defaults and keyword-only arguments, decorators, class bases, method lists and module-level statements (imports, constants) --
    regenerated on every run. *)
From SymfcG Require Import SkelApi.
Theorem c16_module_skeletons_in_force : SkelApi_as_recorded = true.
Proof. repeat split; reflexivity. Qed.
