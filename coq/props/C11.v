(** C11 — results do not depend on batching, thresholds or other evaluation paths (bookkeeping part). *)
From Coq Require Import ZArith List Bool Reals PArith FMapPositive.
Import ListNotations.
From SymfcV Require Import PyPrelude Batch Tuples TableFacts PermModel PermExec IPS SolverModel EigModel GroupAvg.
From SymfcG Require Import BatchGen Tables LogIndep.
Open Scope Z_scope.

(** every batch loop of the form [for begin, end in zip( *get_batch_slice(n, b))] visits every item exactly
    once, in order, for every n >= 0 and b >= 1 (snapshot batches, atom batches, combination batches,
    sum-rule batches, COO-entry batches of the reshapers) *)
Theorem c11_batches_partition {A} (l : list A) b :
  0 < b -> exists bs es, get_batch_slice (Z.of_nat (length l)) b = Ok (bs, es) /\ concat (batches l bs es) = l.
Proof. exact (batches_concat l b). Qed.
Print Assumptions c11_batches_partition.

(** orbit labels do not depend on the number of combination batches nor on the order of the writes:
    any two write sequences satisfying the specification give the same pointer *)
Theorem c11_labels_independent_of_batching n bound nlp tshift elem bc :
  (forall tau t, (tau < nlp)%nat -> wf n bound t -> elem (tmap tshift tau t) = elem t) ->
  (forall t t', wf n bound t -> wf n bound t' -> elem t = elem t' -> exists tau, (tau < nlp)%nat /\ tmap tshift tau t = t') ->
  (forall pi, In pi (all_perms n) -> Forall (fun s => (s < n)%nat) pi) ->
  (forall b g a, In b (map fst bc) -> In g (groups b) -> In a g -> length a = n /\ Forall (fun s => (s < bk_k b)%nat) a) ->
  (forall b g pi a, In b (map fst bc) -> In g (groups b) -> In pi (all_perms n) -> In a g -> In (permute pi a) g) ->
  (forall b g a a', In b (map fst bc) -> In g (groups b) -> In a g -> In a' g -> exists pi, In pi (all_perms n) /\ a' = permute pi a) ->
  (forall b cs c, In (b, cs) bc -> In c cs -> length c = bk_k b /\ Forall (fun p => (p < bound)%nat) c) ->
  forall W1 W2 e, writes_ok elem bc W1 -> writes_ok elem bc W2 ->
  PositiveMap.find e (ptr_of W1) = PositiveMap.find e (ptr_of W2).
Proof.
  intros H1 H2 H3 H4 H5 H6 H7 W1 W2 e Hw1 Hw2.
  destruct (PositiveMap.find e (ptr_of W1)) as [r|] eqn:F.
  - apply (update_min_spec n bound nlp tshift elem bc H1 H2 H3 H4 H5 H6 H7 W1 e Hw1) in F.
    symmetry. apply (update_min_spec n bound nlp tshift elem bc H1 H2 H3 H4 H5 H6 H7 W2 e Hw2). exact F.
  - apply (update_min_none n bound nlp tshift elem bc H1 H2 H3 H4 H5 H6 H7 W1 e Hw1) in F.
    symmetry. apply (update_min_none n bound nlp tshift elem bc H1 H2 H3 H4 H5 H6 H7 W2 e Hw2). exact F.
Qed.
Print Assumptions c11_labels_independent_of_batching.

(** the reference (projector-based) permutation routines read the same arrangement groups as the fast ones *)
Theorem c11_reference_tables_same :
  same_groups blocks_O2 ref_blocks_O2 = true /\ same_groups blocks_O3 ref_blocks_O3 = true /\ same_groups blocks_O4 ref_blocks_O4 = true.
Proof. exact (conj ref_tables_same_O2 (conj ref_tables_same_O3 ref_tables_same_O4)). Qed.

(** accumulated normal equations are independent of the snapshot batch size *)
Theorem c11_gram_independent_of_batch_size (C O : IPS) (Snap : Type) (Xs : Snap -> C -> O) ds ys c (b : Z) : 0 < b ->
  exists bs es, get_batch_slice (Z.of_nat (length ds)) b = Ok (bs, es) /\
    (normal_eqs C O Snap Xs ds ys c <->
     forall d, rsum (map (fun batch => rsum (map (term C O Snap Xs ys c d) batch)) (batches ds bs es)) = 0%R).
Proof. exact (normal_eqs_batches C O Snap Xs ds ys c b). Qed.
Print Assumptions c11_gram_independent_of_batch_size.

(** sum-rule scaling (1/N vs 1/(n_lp N); fast vs stable variants) does not change the unit eigenspace *)
Theorem c11_sumrule_scale_irrelevant (U W : IPS) (B : U -> W) (Bt : W -> U) (c1 c2 : R) :
  (forall x w, ip (B x) w = ip x (Bt w)) -> (0 < c1)%R -> (0 < c2)%R ->
  forall z, sumrule_op U W B Bt c1 z = z <-> sumrule_op U W B Bt c2 z = z.
Proof.
  intros Hadj H1 H2 z. rewrite (unit_eig_of_constraints U W B Bt Hadj c1 H1 z), (unit_eig_of_constraints U W B Bt Hadj c2 H2 z). reflexivity.
Qed.
Print Assumptions c11_sumrule_scale_irrelevant.

(** eigen-solver paths: the block-divided path returns exactly the unit eigenvectors (C15) *)
Theorem c11_eig_paths_same_space (W F K : IPS) (Fm : F -> W) (Fmt : W -> F) (Km : K -> W) (Kmt : W -> K) (M : W -> W) :
  (forall x y, ip (Km x) (Km y) = ip x y) -> (forall x w, ip (Km x) w = ip x (Kmt w)) ->
  (forall x w, ip (Fm x) w = ip x (Fmt w)) -> (forall x y, ip (Fm x) (Km y) = 0%R) ->
  (forall w, w = vadd (Fm (Fmt w)) (Km (Kmt w))) ->
  (forall x y, M (vadd x y) = vadd (M x) (M y)) -> (forall a x, M (vscale a x) = vscale a (M x)) ->
  (forall x y, ip (M x) y = ip x (M y)) -> (forall x, (ip x (M x) <= ip x x)%R) ->
  forall v, (M v = v /\ Fmt v = vzero) <-> exists z, v = Km z /\ Kmt (M (Km z)) = z.
Proof. exact (complement_complete W F K Fm Fmt Km Kmt M). Qed.

(** symmetry operations supplied in any order, and whichever operation of a rotation class comes first in the listing (the
    unique-rotation scan keeps the first): the averaged operator applied to a translation-invariant vector is the same *)
From SymfcV Require CosetAvg.
Theorem c11_operation_order_irrelevant (W : IPS) (ops ops' : list (W -> W)) v :
  Permutation.Permutation ops ops' -> avg W ops v = avg W ops' v.
Proof. exact (CosetAvg.avg_order_irrelevant W ops ops' v). Qed.
Print Assumptions c11_operation_order_irrelevant.
Theorem c11_choice_of_representative_irrelevant (W : IPS) (reps reps' trans : list (W -> W)) v :
  (forall t, In t trans -> t v = v) ->
  Forall2 (fun r r' : W -> W => exists t, In t trans /\ forall w, r' w = r (t w)) reps reps' ->
  avg W reps' v = avg W reps v.
Proof. exact (CosetAvg.avg_choice_of_representative W reps reps' trans v). Qed.
Print Assumptions c11_choice_of_representative_irrelevant.

(** Log level: every statement of the library guarded by a test on `verbose` / `log_level` is a print (regenerated
    from all source files on every run), so the log level cannot change a result. *)
Theorem c11_log_level_in_force : log_level_guards_only_prints = true.
Proof. reflexivity. Qed.

(** Hand-modelled code this property's model and correspondences were written against is unchanged (the reference (projector-based, stable) variants):
    whole-function match against the recorded source, regenerated on every run. *)
From SymfcG Require Import ShapesRef.
Theorem c11_recorded_sources_in_force : ShapesRef_as_recorded = true.
Proof. repeat split; reflexivity. Qed.

(** The remaining source this property rests on is the recorded one (the six solver modules and solver_funcs; the orbit routines; the sum-rule builders): whole-function match,
    regenerated on every run (closes the gap between "the expected statements are present" and "nothing else was added"). *)
From SymfcG Require Import ShapesSolvers ShapesPerm ShapesSumRule.
Theorem c11_recorded_sources2_in_force : ShapesSolvers_as_recorded = true /\ ShapesPerm_as_recorded = true /\ ShapesSumRule_as_recorded = true.
Proof. repeat split; reflexivity. Qed.

(** Auxiliary code on this property's path is the recorded source (the batch-size rule of the second-order sum-rule projector; the unique-index form of the third-order permutation projector):
    whole-function match, regenerated on every run. *)
From SymfcG Require Import ShapesAuxBatch ShapesAuxPerm3.
Theorem c11_recorded_sources3_in_force : ShapesAuxBatch_as_recorded = true /\ ShapesAuxPerm3_as_recorded = true.
Proof. repeat split; reflexivity. Qed.

(** What the modules on this property's path consist of besides the function bodies is the recorded one: every signature with its
    defaults and keyword-only arguments, decorators, class bases, method lists and module-level statements (imports, constants) --
    regenerated on every run. *)
From SymfcG Require Import SkelSolvers SkelMat SkelPerm.
Theorem c11_module_skeletons_in_force : SkelSolvers_as_recorded = true /\ SkelMat_as_recorded = true /\ SkelPerm_as_recorded = true.
Proof. repeat split; reflexivity. Qed.

(** Further recorded sources this property's statement depends on (one object or separately, fast or reference coset projectors, either eigen-solver path): whole-function / skeleton match, regenerated on every run. *)
From SymfcG Require Import ShapesBasis SkelBasis ShapesCoset SkelEig ShapesAuxEig SkelIdx.
Theorem c11_recorded_sources4_in_force : ShapesBasis_as_recorded = true /\ SkelBasis_as_recorded = true /\ ShapesCoset_as_recorded = true /\ SkelEig_as_recorded = true /\ ShapesAuxEig_as_recorded = true /\ SkelIdx_as_recorded = true.
Proof. repeat split; reflexivity. Qed.

(** The Symfc facade (the entry point through which every returned force constant and basis set of this property is obtained) is the
    recorded source: whole-function and skeleton match, regenerated on every run. *)
From SymfcG Require Import ShapesApi SkelApi.
Theorem c11_facade_in_force : ShapesApi_as_recorded = true /\ SkelApi_as_recorded = true.
Proof. repeat split; reflexivity. Qed.

(** Operations supplied explicitly or found by spglib: the symmetry search and the representation classes are the recorded source. *)
From SymfcG Require Import ShapesSpg ShapesReps SkelSpg.
Theorem c11_code_path_in_force : ShapesSpg_as_recorded = true /\ ShapesReps_as_recorded = true /\ SkelSpg_as_recorded = true.
Proof. repeat split; reflexivity. Qed.
