(** C02 — invariance under every space-group operation. *)
From Coq Require Import List Arith Reals ZArith.
Import ListNotations.
From SymfcV Require Import IPS GroupAvg Spg Tuples Group Concrete.
Open Scope R_scope.

(** Basis vectors are unit eigenvectors of C^T P C (C = c_pt, orthonormal columns; P the averaged
    operator).  They are exactly the y with P (C y) = C y ... *)
Theorem c02_unit_eig_of_compressed_projector (U W : IPS) (Cm : U -> W) (Ct : W -> U) (P : W -> W) :
  (forall x y, ip (Cm x) (Cm y) = ip x y) -> (forall x w, ip (Cm x) w = ip x (Ct w)) ->
  (forall x y, ip (P x) y = ip x (P y)) -> (forall x, P (P x) = P x) ->
  forall y, Ct (P (Cm y)) = y <-> P (Cm y) = Cm y.
Proof. exact (unit_eig_of_compression U W Cm Ct P). Qed.
Print Assumptions c02_unit_eig_of_compressed_projector.

(** ... and the fixed vectors of the average over a list of operators closed under left multiplication
    (one operation per distinct rotation; any choice and any order) are exactly the vectors fixed by every
    operator of the list. *)
Theorem c02_average_fixes_iff_all_fix (W : IPS) (ops : list (W -> W)) :
  (forall g, In g ops -> forall x y, g (vadd x y) = vadd (g x) (g y)) ->
  (forall g, In g ops -> forall a x, g (vscale a x) = vscale a (g x)) ->
  ops <> [] ->
  (forall h, In h ops -> exists l', Permutation.Permutation l' ops /\
      Forall2 (fun a b => forall v : W, a v = b v) (map (fun g v => h (g v)) ops) l') ->
  forall v, avg W ops v = v <-> forall g, In g ops -> g v = v.
Proof. exact (avg_fixed_iff W ops). Qed.
Print Assumptions c02_average_fixes_iff_all_fix.

(** Both steps together, with the projector hypotheses discharged: the average of a list of isometries closed under products
    and inverses (as operators) IS an orthogonal projector (avg_sym, avg_idem in GroupAvg.v), so the unit eigenvectors of
    C^T P C are exactly the y whose expansion is fixed by every operator of the list.  Non-vacuity: GroupAvgInst.v. *)
Theorem c02_compressed_unit_eigs_are_invariants (U W : IPS) (Cm : U -> W) (Ct : W -> U) (ops : list (W -> W)) :
  (forall x y, ip (Cm x) (Cm y) = ip x y) -> (forall x w, ip (Cm x) w = ip x (Ct w)) ->
  (forall g, In g ops -> forall x y, g (vadd x y) = vadd (g x) (g y)) ->
  (forall g, In g ops -> forall a x, g (vscale a x) = vscale a (g x)) ->
  ops <> [] ->
  (forall h, In h ops -> exists l', Permutation.Permutation l' ops /\
      Forall2 (fun a b => forall v : W, a v = b v) (map (fun g v => h (g v)) ops) l') ->
  (forall g, In g ops -> forall x y, ip (g x) (g y) = ip x y) ->
  (exists l', Permutation.Permutation l' ops /\ Forall2 (fun a b => forall v : W, a (b v) = v) ops l') ->
  forall y, Ct (avg W ops (Cm y)) = y <-> forall g, In g ops -> g (Cm y) = Cm y.
Proof. exact (compressed_unit_eigs_are_invariants U W Cm Ct ops). Qed.
Print Assumptions c02_compressed_unit_eigs_are_invariants.
(** its hypotheses are satisfiable and its two sides both occur (instances in IPSInst.v / GroupAvgInst.v, rebuilt with this file) *)
From SymfcV Require IPSInst GroupAvgInst.
Theorem c02_group_average_nonvacuous :
  (forall g, In g GroupAvgInst.ops_ex -> g (IPSInst.Cm_ex 1) = IPSInst.Cm_ex 1) /\
  GroupAvgInst.op_swap (GroupAvgInst.Caxis_ex 1) <> GroupAvgInst.Caxis_ex 1.
Proof. split; [exact (proj1 GroupAvgInst.diag_is_invariant) | exact (proj1 GroupAvgInst.axis_is_not_invariant)]. Qed.

(** The code averages ONE operation per distinct rotation, not the whole group.  On translation-invariant vectors (everything
    expanded from translation classes, next theorem) that is the full-group average: the products r o t enumerate the group,
    every representative appears |T| times.  All groups, all listings.  Instance: CosetAvg.coset_instance. *)
From SymfcV Require CosetAvg.
Theorem c02_coset_average_is_group_average (W : IPS) (reps trans : list (W -> W)) v :
  reps <> [] -> trans <> [] -> (forall t, In t trans -> t v = v) ->
  avg W (CosetAvg.products W reps trans) v = avg W reps v.
Proof. exact (CosetAvg.coset_avg_eq_full_avg W reps trans v). Qed.
Print Assumptions c02_coset_average_is_group_average.

(** ... and "invariant under every operation of the space group" splits into "invariant under the representatives" and
    "invariant under the pure translations" *)
Theorem c02_group_invariance_splits (W : IPS) (reps trans : list (W -> W)) v :
  (exists e, In e reps /\ forall w, e w = w) -> (exists e, In e trans /\ forall w, e w = w) ->
  ((forall g, In g (CosetAvg.products W reps trans) -> g v = v) <->
   (forall r, In r reps -> r v = v) /\ (forall t, In t trans -> t v = v)).
Proof. exact (CosetAvg.full_fixed_iff W reps trans v). Qed.
Print Assumptions c02_group_invariance_splits.

(** Pure translations are covered for free: anything expanded from translation classes is translation
    invariant (the class code does not change under a lattice translation), for every valid table. *)
Theorem c02_translation_invariance N tp n tau t :
  valid_tp N tp = true -> (0 < n)%nat -> (tau < length tp)%nat -> wf_t N n t ->
  elem_tab N tp (map (tshift_tab tp tau) t) = elem_tab N tp t.
Proof. intros Hv. exact (elem_tab_inv N tp Hv n tau t). Qed.
Print Assumptions c02_translation_invariance.

(** The class of the image of an atom tuple under an operation depends only on the class of the tuple:
    operations conjugate translations into translations (exact matching model of C14). *)
Theorem c02_operations_act_on_classes D (pos : nat -> vec) (num : nat -> nat) N g s sg st st' i :
  (0 < D)%Z -> (forall i j, (i < N)%nat -> (j < N)%nat -> modv D (pos i) = modv D (pos j) -> i = j) ->
  represents D pos num N g sg -> represents D pos num N (ident, s) st -> represents D pos num N (ident, mulmv (fst g) s) st' ->
  (i < N)%nat -> sg (st i) = st' (sg i).
Proof. intros HD Hd. exact (normalises_translations D HD pos num N Hd g s sg st st' i). Qed.
Print Assumptions c02_operations_act_on_classes.

(** Hand-modelled code this property's model and correspondences were written against is unchanged (the permutation search and the representation classes; the coset projectors / coset sums; the first-order classes):
    whole-function match against the recorded source, regenerated on every run. *)
From SymfcG Require Import ShapesSpg ShapesCoset ShapesO1.
Theorem c02_recorded_sources_in_force : ShapesSpg_as_recorded = true /\ ShapesCoset_as_recorded = true /\ ShapesO1_as_recorded = true.
Proof. repeat split; reflexivity. Qed.

(** The remaining source this property rests on is the recorded one (the basis-set classes of orders 2-4): whole-function match,
    regenerated on every run (closes the gap between "the expected statements are present" and "nothing else was added"). *)
From SymfcG Require Import ShapesBasis.
Theorem c02_recorded_sources2_in_force : ShapesBasis_as_recorded = true.
Proof. repeat split; reflexivity. Qed.

(** Auxiliary code on this property's path is the recorded source (the accessors and base constructor of the first-order basis-set class and the first-order atomic index table; the representation classes of orders 1-4 (constructors, r_reps, the sigma representations), the accessors of SpgRepsBase, position rounding and the SymfcAtoms container):
    whole-function match, regenerated on every run. *)
From SymfcG Require Import ShapesAuxO1 ShapesReps.
Theorem c02_recorded_sources3_in_force : ShapesAuxO1_as_recorded = true /\ ShapesReps_as_recorded = true.
Proof. repeat split; reflexivity. Qed.

(** What the modules on this property's path consist of besides the function bodies is the recorded one: every signature with its
    defaults and keyword-only arguments, decorators, class bases, method lists and module-level statements (imports, constants) --
    regenerated on every run. *)
From SymfcG Require Import SkelSpg SkelBasis SkelIdx.
Theorem c02_module_skeletons_in_force : SkelSpg_as_recorded = true /\ SkelBasis_as_recorded = true /\ SkelIdx_as_recorded = true.
Proof. repeat split; reflexivity. Qed.

(** Further recorded sources this property's statement depends on (invariance of the result also needs the later stages to keep it: the sum-rule builders, the orbit routines and the eigen-solver): whole-function / skeleton match, regenerated on every run. *)
From SymfcG Require Import ShapesSumRule ShapesPerm SkelMat SkelPerm ShapesAuxEig SkelEig.
Theorem c02_recorded_sources4_in_force : ShapesSumRule_as_recorded = true /\ ShapesPerm_as_recorded = true /\ SkelMat_as_recorded = true /\ SkelPerm_as_recorded = true /\ ShapesAuxEig_as_recorded = true /\ SkelEig_as_recorded = true.
Proof. repeat split; reflexivity. Qed.

(** The Symfc facade (the entry point through which every returned force constant and basis set of this property is obtained) is the
    recorded source: whole-function and skeleton match, regenerated on every run. *)
From SymfcG Require Import ShapesApi SkelApi.
Theorem c02_facade_in_force : ShapesApi_as_recorded = true /\ SkelApi_as_recorded = true.
Proof. repeat split; reflexivity. Qed.

(** The rest of the code path of this property's statement (the solvers that assemble the returned force constants from the basis) is the recorded source: whole-function / skeleton match,
    regenerated on every run. *)
From SymfcG Require Import ShapesSolvers SkelSolvers.
Theorem c02_code_path_in_force : ShapesSolvers_as_recorded = true /\ SkelSolvers_as_recorded = true.
Proof. repeat split; reflexivity. Qed.

(** Further code on this property's path (invariance is demanded also with a cutoff: the cutoff geometry and the combination tables) is the recorded source: whole-function / skeleton match, regenerated on every run. *)
From SymfcG Require Import ShapesCombos ShapesGeom ShapesAuxCut SkelCut.
Theorem c02_code_path3_in_force : ShapesCombos_as_recorded = true /\ ShapesGeom_as_recorded = true /\ ShapesAuxCut_as_recorded = true /\ SkelCut_as_recorded = true.
Proof. repeat split; reflexivity. Qed.
