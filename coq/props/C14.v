(** C14 — atom permutations and rotation matrices faithfully represent the space group. *)
From Coq Require Import List Arith ZArith.
Import ListNotations.
From SymfcV Require Import Spg Group Concrete.
From SymfcG Require Import IndepGen.
Open Scope Z_scope.

(** positions p_i / D, operations (r, s / D), matching modulo D: the permutation of an operation is
    unique when the sites are distinct *)
Theorem c14_unique D (pos : nat -> vec) (num : nat -> nat) N g s1 s2 i :
  (forall i j, (i < N)%nat -> (j < N)%nat -> modv D (pos i) = modv D (pos j) -> i = j) ->
  represents D pos num N g s1 -> represents D pos num N g s2 -> (i < N)%nat -> s1 i = s2 i.
Proof. intros Hd. exact (represents_unique D pos num N Hd g s1 s2 i). Qed.
Print Assumptions c14_unique.

(** permutations compose like the operations: sigma_(g h) = sigma_g o sigma_h *)
Theorem c14_homomorphism D (pos : nat -> vec) (num : nat -> nat) N g h sg sh :
  0 < D -> represents D pos num N g sg -> represents D pos num N h sh ->
  represents D pos num N (compose g h) (fun i => sg (sh i)).
Proof. intros HD. exact (represents_compose D HD pos num N g h sg sh). Qed.
Print Assumptions c14_homomorphism.

(** pure translations that are not lattice vectors of the supercell act freely *)
Theorem c14_translations_free D (pos : nat -> vec) (num : nat -> nat) N s sigma i :
  0 < D -> represents D pos num N (ident, s) sigma -> (i < N)%nat -> sigma i = i -> modv D s = (0, 0, 0).
Proof. intros HD. exact (translation_free D HD pos num N s sigma i). Qed.
Print Assumptions c14_translations_free.

(** every operation conjugates translations into translations *)
Theorem c14_normalises_translations D (pos : nat -> vec) (num : nat -> nat) N g s sg st st' i :
  0 < D -> (forall i j, (i < N)%nat -> (j < N)%nat -> modv D (pos i) = modv D (pos j) -> i = j) ->
  represents D pos num N g sg -> represents D pos num N (ident, s) st -> represents D pos num N (ident, mulmv (fst g) s) st' ->
  (i < N)%nat -> sg (st i) = st' (sg i).
Proof. intros HD Hd. exact (normalises_translations D HD pos num N Hd g s sg st st' i). Qed.
Print Assumptions c14_normalises_translations.

(** consequences of a valid translation table (checked by evaluation on every table the implementation
    returns): orbits have n_lp distinct members; one lowest-index independent atom per orbit *)
Theorem c14_orbit_size N tp i :
  valid_tp N tp = true -> (i < N)%nat -> NoDup (orbit (length tp) (act tp) i) /\ length (orbit (length tp) (act tp) i) = length tp.
Proof.
  intros Hv Hi. split.
  - exact (orbit_nodup_t N tp Hv i Hi).
  - apply orbit_length.
Qed.
Print Assumptions c14_orbit_size.

(** p2s_map = get_indep_atoms_by_lat_trans(translation permutations) (regenerated), and that greedy scan lists exactly
    one atom per orbit of the translations: the lowest index, in increasing order. *)
Theorem c14_p2s_map_in_force : indep_atoms_is_greedy_column_scan = true.
Proof. reflexivity. Qed.
Theorem c14_p2s_map_is_orbit_minima N tp :
  valid_tp N tp = true -> indep_scan (length tp) N (act tp) = indep_atoms (length tp) N (act tp).
Proof. exact (indep_scan_t N tp). Qed.
Print Assumptions c14_p2s_map_is_orbit_minima.

(** Hand-modelled code this property's model and correspondences were written against is unchanged (the permutation search and the representation classes):
    whole-function match against the recorded source, regenerated on every run. *)
From SymfcG Require Import ShapesSpg.
Theorem c14_recorded_sources_in_force : ShapesSpg_as_recorded = true.
Proof. repeat split; reflexivity. Qed.

(** Auxiliary code on this property's path is the recorded source (the representation classes of orders 1-4 (constructors, r_reps, the sigma representations), the accessors of SpgRepsBase, position rounding and the SymfcAtoms container):
    whole-function match, regenerated on every run. *)
From SymfcG Require Import ShapesReps.
Theorem c14_recorded_sources3_in_force : ShapesReps_as_recorded = true.
Proof. repeat split; reflexivity. Qed.

(** What the modules on this property's path consist of besides the function bodies is the recorded one: every signature with its
    defaults and keyword-only arguments, decorators, class bases, method lists and module-level statements (imports, constants) --
    regenerated on every run. *)
From SymfcG Require Import SkelSpg SkelIdx.
Theorem c14_module_skeletons_in_force : SkelSpg_as_recorded = true /\ SkelIdx_as_recorded = true.
Proof. repeat split; reflexivity. Qed.
