(** C13 — the fit is linear in the forces and depends on the dataset as a multiset. *)
From Coq Require Import Reals ZArith List Permutation.
Import ListNotations.
From SymfcV Require Import PyPrelude IPS SolverModel.
Open Scope R_scope.

Theorem c13_linear_in_forces (C O : IPS) (Snap : Type) (Xs : Snap -> C -> O) :
  (forall s c d, Xs s (vadd c d) = vadd (Xs s c) (Xs s d)) -> (forall s a c, Xs s (vscale a c) = vscale a (Xs s c)) ->
  forall ds ys1 ys2 c1 c2 a b,
  normal_eqs C O Snap Xs ds ys1 c1 -> normal_eqs C O Snap Xs ds ys2 c2 ->
  normal_eqs C O Snap Xs ds (fun s => vadd (vscale a (ys1 s)) (vscale b (ys2 s))) (vadd (vscale a c1) (vscale b c2)).
Proof. intros Ha Hs. exact (normal_eqs_linear C O Snap Xs Ha Hs). Qed.
Print Assumptions c13_linear_in_forces.

Theorem c13_snapshot_permutation (C O : IPS) (Snap : Type) (Xs : Snap -> C -> O) ds ds' ys c :
  Permutation ds ds' -> (normal_eqs C O Snap Xs ds ys c <-> normal_eqs C O Snap Xs ds' ys c).
Proof. exact (normal_eqs_permutation C O Snap Xs ds ds' ys c). Qed.
Print Assumptions c13_snapshot_permutation.

Theorem c13_duplication (C O : IPS) (Snap : Type) (Xs : Snap -> C -> O) ds ys c :
  normal_eqs C O Snap Xs (ds ++ ds) ys c <-> normal_eqs C O Snap Xs ds ys c.
Proof. exact (normal_eqs_duplication C O Snap Xs ds ys c). Qed.
Print Assumptions c13_duplication.

Theorem c13_scaling (C O : IPS) (Snap : Type) (Xs Xs' : Snap -> C -> O) ds ys ys' k c :
  k <> 0 -> (forall s c0, Xs' s c0 = vscale k (Xs s c0)) -> (forall s, ys' s = vscale k (ys s)) ->
  (normal_eqs C O Snap Xs ds ys c <-> forall d, rsum (map (fun s => ip (Xs' s d) (vsub (ys' s) (Xs' s c))) ds) = 0).
Proof. exact (normal_eqs_scaling C O Snap Xs Xs' ds ys ys' k c). Qed.
Print Assumptions c13_scaling.

Theorem c13_zero_forces (C O : IPS) (Snap : Type) (Xs : Snap -> C -> O) :
  (forall s c d, Xs s (vadd c d) = vadd (Xs s c) (Xs s d)) ->
  forall ds, normal_eqs C O Snap Xs ds (fun _ => vzero) vzero.
Proof. intros Ha. exact (normal_eqs_zero C O Snap Xs Ha). Qed.
Print Assumptions c13_zero_forces.

(** The undisplaced supercell in a dataset (design rows all zero) is irrelevant wherever it stands and whatever residual forces it
    carries ... *)
Theorem c13_undisplaced_snapshot_irrelevant (C O : IPS) (Snap : Type) (Xs : Snap -> C -> O) s0 ds1 ds2 ys c :
  (forall d, Xs s0 d = vzero) ->
  (normal_eqs C O Snap Xs (ds1 ++ s0 :: ds2) ys c <-> normal_eqs C O Snap Xs (ds1 ++ ds2) ys c).
Proof. exact (normal_eqs_null_snapshot C O Snap Xs s0 ds1 ds2 ys c). Qed.
Print Assumptions c13_undisplaced_snapshot_irrelevant.

(** ... whereas a snapshot with zero FORCES and non-zero displacements is an equation like any other: dropping it changes the fit
    (one coefficient, snapshots (x, y) = (1, 1), (1, 0): 1/2 with both, 1 without the second). *)
Theorem c13_zero_force_snapshot_matters :
  normal_eqs IPSInst.R_IPS IPSInst.R_IPS (R * R) zx [(1, 1); (1, 0)]%R zy (/ 2)%R /\
  normal_eqs IPSInst.R_IPS IPSInst.R_IPS (R * R) zx [(1, 1)]%R zy 1%R /\
  ~ normal_eqs IPSInst.R_IPS IPSInst.R_IPS (R * R) zx [(1, 1); (1, 0)]%R zy 1%R.
Proof. exact zero_force_snapshot_matters. Qed.
Print Assumptions c13_zero_force_snapshot_matters.

(** With an injective design the minimiser is unique, so "fit" is a function and the statements above
    are statements about it. *)
Theorem c13_unique (C O : IPS) (X : C -> O) :
  (forall c d, X (vadd c d) = vadd (X c) (X d)) -> (forall a c, X (vscale a c) = vscale a (X c)) ->
  forall y c c', (forall d, X d = vzero -> d = vzero) -> normal_eq C O X y c -> normal_eq C O X y c' -> c = c'.
Proof. intros Ha Hs y c c'. exact (minimiser_unique C O X Ha Hs y c c'). Qed.
Print Assumptions c13_unique.

(** The remaining source this property rests on is the recorded one (the six solver modules and solver_funcs): whole-function match,
    regenerated on every run (closes the gap between "the expected statements are present" and "nothing else was added"). *)
From SymfcG Require Import ShapesSolvers.
Theorem c13_recorded_sources2_in_force : ShapesSolvers_as_recorded = true.
Proof. repeat split; reflexivity. Qed.

(** What the modules on this property's path consist of besides the function bodies is the recorded one: every signature with its
    defaults and keyword-only arguments, decorators, class bases, method lists and module-level statements (imports, constants) --
    regenerated on every run. *)
From SymfcG Require Import SkelSolvers.
Theorem c13_module_skeletons_in_force : SkelSolvers_as_recorded = true.
Proof. repeat split; reflexivity. Qed.

(** The Symfc facade (the entry point through which every returned force constant and basis set of this property is obtained) is the
    recorded source: whole-function and skeleton match, regenerated on every run. *)
From SymfcG Require Import ShapesApi SkelApi.
Theorem c13_facade_in_force : ShapesApi_as_recorded = true /\ SkelApi_as_recorded = true.
Proof. repeat split; reflexivity. Qed.
