(** C04 — the three eigen stages compose: the columns of F = c_pt . c_rpt . Z span exactly
    range(c_pt) /\ Fix(coset projector) /\ ker(sum-rule rows), given that each eigen stage returns a complete set of
    unit eigenvectors (C15) and c_pt has orthonormal columns (C09). *)
From Coq Require Import Reals.
From SymfcV Require Import IPS Span.
Open Scope R_scope.

Theorem c04_pipeline_span (U1 U2 U3 W V : IPS) (C1 : U1 -> W) (C1t : W -> U1) (C2 : U2 -> U1) (Z : U3 -> U2)
    (P : W -> W) (A : W -> V) (Bt : V -> U2) (c : R) :
  (forall x y, ip (C1 x) (C1 y) = ip x y) -> (forall x w, ip (C1 x) w = ip x (C1t w)) ->
  (forall x y, ip (P x) y = ip x (P y)) -> (forall x, P (P x) = P x) ->
  (forall y, (exists z, C2 z = y) <-> C1t (P (C1 y)) = y) ->
  (forall x v, ip (A (C1 (C2 x))) v = ip x (Bt v)) -> 0 < c ->
  (forall y, (exists z, Z z = y) <-> sumrule_op U2 V (fun x => A (C1 (C2 x))) Bt c y = y) ->
  forall w, (exists z, C1 (C2 (Z z)) = w) <-> (exists y, C1 y = w) /\ P w = w /\ A w = vzero.
Proof. intros H1 H2 H3 H4 H5 H6 H7 H8. exact (pipeline_span U1 U2 U3 W V C1 C1t C2 Z P A Bt H1 H2 H3 H4 H5 H6 c H7 H8). Qed.
Print Assumptions c04_pipeline_span.
