(** C08 — compact and full outputs describe the same tensor. *)
From Coq Require Import List Arith Bool NArith.
Import ListNotations.
From SymfcV Require Import Tuples Group Concrete AtomIdx ElemIdx.
From SymfcG Require Import SolverStruct IndepGen.
Local Open Scope nat_scope.

(** Row numbering of the compact array: for a tuple whose first atom is translationally independent
    the class code is rank(first atom) * N^(n-1) + ravel(other atoms): compact[r, J] is the class of
    (p2s[r], J).  Every valid table, every tuple length. *)
Theorem c08_compact_row_is_indep_first N tp i rest :
  valid_tp N tp = true -> i < N -> In i (indep_t N tp) -> in_range N rest ->
  cls_code N tp (i :: rest) = ravel_acc (N.of_nat N) (N.of_nat (index_of i (indep_t N tp))) rest.
Proof. intros Hv. exact (cls_indep_first N tp Hv i rest). Qed.
Print Assumptions c08_compact_row_is_indep_first.

(** The full tensor is recovered from the compact one by lattice translations: every atom tuple has the
    class of a translate whose first atom is independent. *)
Theorem c08_full_from_compact N tp a :
  valid_tp N tp = true -> a <> [] -> in_range N a ->
  cls_code N tp a = cls_code N tp (sclass_t tp a) /\ In (hd 0 (sclass_t tp a)) (indep_t N tp) /\
  exists t, t < length tp /\ sclass_t tp a = shift (act tp) t a.
Proof. intros Hv. exact (cls_canonical N tp Hv a). Qed.
Print Assumptions c08_full_from_compact.

(** p2s_map: exactly one atom per translation orbit, the lowest index of the orbit, increasing. *)
Theorem c08_p2s_one_per_orbit N tp i j t :
  valid_tp N tp = true -> i < N -> In i (indep_t N tp) -> In j (indep_t N tp) -> t < length tp -> act tp t i = j -> i = j.
Proof. intros Hv. exact (indep_unique_t N tp Hv i j t). Qed.
Print Assumptions c08_p2s_one_per_orbit.

Theorem c08_p2s_lowest_of_orbit N tp i t :
  valid_tp N tp = true -> i < N -> t < length tp ->
  omin (length tp) (act tp) i <= act tp t i /\ In (omin (length tp) (act tp) i) (indep_t N tp).
Proof.
  intros Hv Hi Ht. split; [exact (omin_le_orbit_t N tp Hv i t Ht) | exact (omin_is_indep_t N tp Hv i Hi)].
Qed.
Print Assumptions c08_p2s_lowest_of_orbit.

(** p2s_map as the source computes it: `get_indep_atoms_by_lat_trans` is the greedy column scan (whole-function match,
    regenerated) and that scan returns exactly the orbit minima in increasing order, for every valid table; all nine
    orbit / index routines and p2s_map take their independent atoms from it. *)
Theorem c08_p2s_algorithm_in_force : indep_atoms_is_greedy_column_scan = true.
Proof. reflexivity. Qed.
Theorem c08_p2s_scan_returns_orbit_minima N tp :
  valid_tp N tp = true -> indep_scan (length tp) N (act tp) = indep_t N tp.
Proof. exact (indep_scan_t N tp). Qed.
Print Assumptions c08_p2s_scan_returns_orbit_minima.
Example c08_scan_ex : indep_scan 2 4 (act [[0; 1; 2; 3]; [2; 3; 0; 1]]) = [0; 1].
Proof. reflexivity. Qed.

(** The atom-level index table that maps every tuple of the full tensor to its row of the compact one
    (`get_atomic_lat_trans_decompr_indices_O3/_O4`: nested loops with one running counter, each counter value written at
    all translates; whole-function match, regenerated) IS the class code, for every valid table and nesting depth:
    whatever write order numpy uses, the finished table holds cls_code at every in-range tuple. *)
Theorem c08_atomic_indices_in_force : atomic_indices_O3_O4_are_counter_loops = true.
Proof. reflexivity. Qed.
Theorem c08_atomic_index_table_is_class_code NA tp k a :
  valid_tp NA tp = true -> length a = S k -> in_range NA a ->
  lookup a (atomic_writes NA tp k) = Some (cls_code NA tp a).
Proof. intros Hv. exact (atomic_table_is_cls_code NA tp Hv k a). Qed.
Print Assumptions c08_atomic_index_table_is_class_code.
Example c08_atomic_ex : map snd (atomic_writes 2 [[0; 1]; [1; 0]] 1) = [0; 0; 1; 1]%N
  /\ map fst (atomic_writes 2 [[0; 1]; [1; 0]] 1) = [[0; 0]; [1; 1]; [0; 1]; [1; 0]].
Proof. split; reflexivity. Qed.

(** The element-level table behind C_trans / the full output (`get_lat_trans_decompr_indices`, `_O3`, `_O4`: the same
    loops with an innermost loop over the 3^n Cartesian components; whole-function match, regenerated): every write
    at (translated atoms, component ab) carries  class code of the atoms * K + ab,  and every in-range (atoms, ab) is
    written -- so full[atoms, ab] is read from compact row/column (class of the atoms, ab): compact == full[p2s_map] and
    the full tensor is the compact one moved by the translations.  Every valid table, depth and K. *)
Theorem c08_element_indices_in_force : element_indices_are_counter_loops = true.
Proof. reflexivity. Qed.
Theorem c08_element_index_table NA tp K k atoms ab v :
  valid_tp NA tp = true -> In ((atoms, ab), v) (elem_writes NA tp K k) ->
  v = (cls_code NA tp atoms * N.of_nat K + N.of_nat ab)%N /\ length atoms = S k /\ in_range NA atoms /\ ab < K.
Proof. intros Hv. exact (elem_writes_sound NA tp Hv K k atoms ab v). Qed.
Print Assumptions c08_element_index_table.
Theorem c08_element_index_table_total NA tp K k atoms ab :
  valid_tp NA tp = true -> length atoms = S k -> in_range NA atoms -> ab < K -> exists v, In ((atoms, ab), v) (elem_writes NA tp K k).
Proof. intros Hv. exact (elem_writes_complete NA tp Hv K k atoms ab). Qed.
Print Assumptions c08_element_index_table_total.
Example c08_elem_ex : map snd (elem_writes 2 [[0; 1]; [1; 0]] 2 0) = [0; 0; 1; 1]%N.
Proof. reflexivity. Qed.

(** Both outputs are comp @ (basis @ coefs) with the same coefficients; the compact matrix is the
    translation-compressed matrix scaled by 1/sqrt(n_lp), the same factor that C_trans carries. *)
Theorem c08_structure : compact_matrix_is_fresh_and_scaled_by_inv_sqrt_nlp = true /\ recover_fcs_is_comp_times_basis_times_coefs = true.
Proof. split; reflexivity. Qed.

(** The remaining source this property rests on is the recorded one (the basis-set classes of orders 2-4): whole-function match,
    regenerated on every run (closes the gap between "the expected statements are present" and "nothing else was added"). *)
From SymfcG Require Import ShapesBasis.
Theorem c08_recorded_sources2_in_force : ShapesBasis_as_recorded = true.
Proof. repeat split; reflexivity. Qed.

(** Auxiliary code on this property's path is the recorded source (the representation classes of orders 1-4 (constructors, r_reps, the sigma representations), the accessors of SpgRepsBase, position rounding and the SymfcAtoms container):
    whole-function match, regenerated on every run. *)
From SymfcG Require Import ShapesReps.
Theorem c08_recorded_sources3_in_force : ShapesReps_as_recorded = true.
Proof. repeat split; reflexivity. Qed.

(** What the modules on this property's path consist of besides the function bodies is the recorded one: every signature with its
    defaults and keyword-only arguments, decorators, class bases, method lists and module-level statements (imports, constants) --
    regenerated on every run. *)
From SymfcG Require Import SkelSpg SkelBasis SkelIdx.
Theorem c08_module_skeletons_in_force : SkelSpg_as_recorded = true /\ SkelBasis_as_recorded = true /\ SkelIdx_as_recorded = true.
Proof. repeat split; reflexivity. Qed.

(** The Symfc facade (the entry point through which every returned force constant and basis set of this property is obtained) is the
    recorded source: whole-function and skeleton match, regenerated on every run. *)
From SymfcG Require Import ShapesApi SkelApi.
Theorem c08_facade_in_force : ShapesApi_as_recorded = true /\ SkelApi_as_recorded = true.
Proof. repeat split; reflexivity. Qed.

(** The rest of the code path of this property's statement (the solvers that produce the compact and the full arrays) is the recorded source: whole-function / skeleton match,
    regenerated on every run. *)
From SymfcG Require Import ShapesSolvers SkelSolvers.
Theorem c08_code_path_in_force : ShapesSolvers_as_recorded = true /\ SkelSolvers_as_recorded = true.
Proof. repeat split; reflexivity. Qed.

(** Further code on this property's path (compact and full arrays come from the same construction: every stage) is the recorded source: whole-function / skeleton match, regenerated on every run. *)
From SymfcG Require Import ShapesCombos ShapesPerm ShapesCoset ShapesSumRule ShapesSpg ShapesO1 ShapesAuxO1 ShapesAuxEig ShapesAuxBatch ShapesGeom ShapesAuxCut SkelEig SkelMat SkelPerm SkelCut.
Theorem c08_code_path3_in_force : ShapesCombos_as_recorded = true /\ ShapesPerm_as_recorded = true /\ ShapesCoset_as_recorded = true /\ ShapesSumRule_as_recorded = true /\ ShapesSpg_as_recorded = true /\ ShapesO1_as_recorded = true /\ ShapesAuxO1_as_recorded = true /\ ShapesAuxEig_as_recorded = true /\ ShapesAuxBatch_as_recorded = true /\ ShapesGeom_as_recorded = true /\ ShapesAuxCut_as_recorded = true /\ SkelEig_as_recorded = true /\ SkelMat_as_recorded = true /\ SkelPerm_as_recorded = true /\ SkelCut_as_recorded = true.
Proof. repeat split; reflexivity. Qed.
