(** C03 — translational (acoustic) sum rule. *)
From Coq Require Import List Arith Reals PArith.
Import ListNotations.
From SymfcV Require Import Tuples Group Concrete SolverModel SumRule IPS.
From SymfcG Require Import EigStruct.
Local Open Scope nat_scope.

(** structure of the sum-rule builders read off the source: every batch is processed (batches without rows are skipped
    with `continue`, never `break`), contributions are accumulated, the result is I - A^T A / c *)
Theorem c03_in_force : sumrule_batches_skip_empty_and_accumulate = true.
Proof. reflexivity. Qed.

(** Unit eigenvectors of the sum-rule matrix I - B^T B / c (c > 0) are exactly the solutions of B z = 0:
    nothing that violates a constraint row is kept, no solution is dropped. *)
Theorem c03_unit_eig_iff_constraints (U W : IPS) (B : U -> W) (Bt : W -> U) (c : R) :
  (forall x w, ip (B x) w = ip x (Bt w)) -> (0 < c)%R ->
  forall z, sumrule_op U W B Bt c z = z <-> B z = vzero.
Proof. intros Hadj Hc z. exact (unit_eig_of_constraints U W B Bt Hadj c Hc z). Qed.
Print Assumptions c03_unit_eig_iff_constraints.

(** Rows are only built for trailing-atom tuples J whose first atom is translationally independent.
    That is enough: the first-index sum of the expanded tensor for any J equals the sum for every
    translate of J, and every J has a translate with independent first atom.  (Any valid table, any
    order n >= 1, any coefficient function.) *)
Theorem c03_rows_for_independent_atoms_suffice N tp x J carts tau n :
  valid_tp N tp = true -> tau < length tp -> 0 < n -> length J + 1 = n -> length carts = n ->
  in_range N J -> Forall (fun c => c < 3) carts ->
  sum_first N tp x (shift (act tp) tau J) carts = sum_first N tp x J carts.
Proof. intros Hv. exact (sum_first_translate N tp Hv x J carts tau n). Qed.
Print Assumptions c03_rows_for_independent_atoms_suffice.

Theorem c03_every_J_has_independent_translate N tp J :
  valid_tp N tp = true -> J <> [] -> in_range N J ->
  exists tau, tau < length tp /\ In (hd 0 (shift (act tp) tau J)) (indep_t N tp).
Proof. intros Hv. exact (J_has_indep_translate N tp Hv J). Qed.
Print Assumptions c03_every_J_has_independent_translate.

(** With permutation symmetry (C01) the sum over the first index position implies the sum over every
    position. *)
Theorem c03_sum_rule_all_index_positions N (Phi : tuple -> R) n :
  (forall m t k, length t = m -> k < m -> Phi (permute (transp m k) t) = Phi t) ->
  (forall a t, length t = n -> pos_sum N Phi 0 a t = 0%R) ->
  forall k a t, length t = n -> k < n -> pos_sum N Phi k a t = 0%R.
Proof. intros Hsym. exact (sum_rule_all_positions N Phi Hsym n). Qed.
Print Assumptions c03_sum_rule_all_index_positions.

(** The sum-rule matrix I - A^T A / N lies between 0 and I: rows built for trailing tuples with an
    independent first atom are duplicate-free, have at most N entries, and are pairwise disjoint; hence
    |A x|^2 <= N |x|^2 (Cauchy-Schwarz per row).  So its eigenvalues are in [0,1] for every valid table,
    every order and every cutoff mask [keep] (the eigen-solvers' window check cannot fire, and the hypothesis
    0 <= M <= I of the C15 theorems holds). *)
Theorem c03_rows_duplicate_free N tp n keep J carts :
  valid_tp N tp = true -> 0 < n -> in_range N J -> length J + 1 = n -> length carts = n ->
  Forall (fun c => c < 3) carts -> J <> [] -> In (hd 0 J) (indep_t N tp) ->
  NoDup (srow N tp keep J carts) /\ length (srow N tp keep J carts) <= N.
Proof. intros Hv Hn. exact (srow_nodup N tp Hv n Hn keep J carts). Qed.
Print Assumptions c03_rows_duplicate_free.

Theorem c03_rows_disjoint N tp n keep keep' J carts J' carts' e :
  valid_tp N tp = true -> 0 < n ->
  in_range N J -> in_range N J' -> length J + 1 = n -> length J' + 1 = n -> length carts = n -> length carts' = n ->
  Forall (fun c => c < 3) carts -> Forall (fun c => c < 3) carts' -> J <> [] ->
  In (hd 0 J) (indep_t N tp) -> In (hd 0 J') (indep_t N tp) ->
  In e (srow N tp keep J carts) -> In e (srow N tp keep' J' carts') -> J = J' /\ carts = carts'.
Proof. intros Hv Hn. exact (srows_disjoint N tp Hv n Hn keep keep' J carts J' carts' e). Qed.
Print Assumptions c03_rows_disjoint.

Theorem c03_quadratic_bound (N : nat) (rows : list (list positive)) (E : list positive) (x : positive -> R) :
  NoDup (concat rows) -> incl (concat rows) E -> (forall r, In r rows -> length r <= N) ->
  (rsum (map (fun r => rsum (map x r) * rsum (map x r)) rows) <= INR N * rsum (map (fun e => x e * x e) E))%R.
Proof. exact (sumrule_quadratic_bound N rows E x). Qed.
Print Assumptions c03_quadratic_bound.

(** Hand-modelled code this property's model and correspondences were written against is unchanged (the first-order classes):
    whole-function match against the recorded source, regenerated on every run. *)
From SymfcG Require Import ShapesO1.
Theorem c03_recorded_sources_in_force : ShapesO1_as_recorded = true.
Proof. repeat split; reflexivity. Qed.

(** The remaining source this property rests on is the recorded one (the basis-set classes of orders 2-4; the sum-rule builders): whole-function match,
    regenerated on every run (closes the gap between "the expected statements are present" and "nothing else was added"). *)
From SymfcG Require Import ShapesBasis ShapesSumRule.
Theorem c03_recorded_sources2_in_force : ShapesBasis_as_recorded = true /\ ShapesSumRule_as_recorded = true.
Proof. repeat split; reflexivity. Qed.

(** Auxiliary code on this property's path is the recorded source (the accessors and base constructor of the first-order basis-set class and the first-order atomic index table; the CSR block container DataCSR and the block extraction of the eigen-solvers; the batch-size rule of the second-order sum-rule projector; the rotational-sum-rule projector of order 2):
    whole-function match, regenerated on every run. *)
From SymfcG Require Import ShapesAuxO1 ShapesAuxEig ShapesAuxBatch ShapesAuxRot.
Theorem c03_recorded_sources3_in_force : ShapesAuxO1_as_recorded = true /\ ShapesAuxEig_as_recorded = true /\ ShapesAuxBatch_as_recorded = true /\ ShapesAuxRot_as_recorded = true.
Proof. repeat split; reflexivity. Qed.

(** What the modules on this property's path consist of besides the function bodies is the recorded one: every signature with its
    defaults and keyword-only arguments, decorators, class bases, method lists and module-level statements (imports, constants) --
    regenerated on every run. *)
From SymfcG Require Import SkelBasis SkelEig SkelMat.
Theorem c03_module_skeletons_in_force : SkelBasis_as_recorded = true /\ SkelEig_as_recorded = true /\ SkelMat_as_recorded = true.
Proof. repeat split; reflexivity. Qed.

(** Further recorded sources this property's statement depends on (the sum rule over ANY index rests on the index-permutation stage): whole-function / skeleton match, regenerated on every run. *)
From SymfcG Require Import ShapesPerm SkelPerm.
Theorem c03_recorded_sources4_in_force : ShapesPerm_as_recorded = true /\ SkelPerm_as_recorded = true.
Proof. repeat split; reflexivity. Qed.

(** The Symfc facade (the entry point through which every returned force constant and basis set of this property is obtained) is the
    recorded source: whole-function and skeleton match, regenerated on every run. *)
From SymfcG Require Import ShapesApi SkelApi.
Theorem c03_facade_in_force : ShapesApi_as_recorded = true /\ SkelApi_as_recorded = true.
Proof. repeat split; reflexivity. Qed.

(** The rest of the code path of this property's statement (the solvers that assemble the returned force constants from the basis, and the symmetry search that supplies the translation table) is the recorded source: whole-function / skeleton match,
    regenerated on every run. *)
From SymfcG Require Import ShapesSolvers SkelSolvers ShapesSpg ShapesReps SkelSpg.
Theorem c03_code_path_in_force : ShapesSolvers_as_recorded = true /\ SkelSolvers_as_recorded = true /\ ShapesSpg_as_recorded = true /\ ShapesReps_as_recorded = true /\ SkelSpg_as_recorded = true.
Proof. repeat split; reflexivity. Qed.

(** Further code on this property's path (the sum rule is demanded of the result of the whole basis construction, with and without cutoff) is the recorded source: whole-function / skeleton match, regenerated on every run. *)
From SymfcG Require Import ShapesCombos ShapesCoset ShapesGeom ShapesAuxCut SkelIdx SkelCut.
Theorem c03_code_path3_in_force : ShapesCombos_as_recorded = true /\ ShapesCoset_as_recorded = true /\ ShapesGeom_as_recorded = true /\ ShapesAuxCut_as_recorded = true /\ SkelIdx_as_recorded = true /\ SkelCut_as_recorded = true.
Proof. repeat split; reflexivity. Qed.
