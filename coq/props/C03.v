(** C03 — translational (acoustic) sum rule. *)
From Coq Require Import List Arith Reals PArith.
Import ListNotations.
From SymfcV Require Import Tuples Group Concrete SolverModel SumRule IPS.
Local Open Scope nat_scope.

(** Unit eigenvectors of the sum-rule matrix I - B^T B / c (c > 0) are exactly the solutions of B z = 0:
    nothing that violates a constraint row is kept, no solution is dropped. *)
Theorem c03_unit_eig_iff_constraints (U W : IPS) (B : U -> W) (Bt : W -> U) (c : R) :
  (forall x w, ip (B x) w = ip x (Bt w)) -> (0 < c)%R ->
  forall z, sumrule_op U W B Bt c z = z <-> B z = vzero.
Proof. intros Hadj Hc z. exact (unit_eig_of_constraints U W B Bt Hadj c Hc z). Qed.
Print Assumptions c03_unit_eig_iff_constraints.

(** Rows are only built for trailing-atom tuples J whose first atom is translationally independent.
    That is enough: the first-index sum of the expanded tensor for any J equals the sum for every
    translate of J, and every J has a translate with independent first atom.  (Any valid table, any
    order n >= 1, any coefficient function.) *)
Theorem c03_rows_for_independent_atoms_suffice N tp x J carts tau n :
  valid_tp N tp = true -> tau < length tp -> 0 < n -> length J + 1 = n -> length carts = n ->
  in_range N J -> Forall (fun c => c < 3) carts ->
  sum_first N tp x (shift (act tp) tau J) carts = sum_first N tp x J carts.
Proof. intros Hv. exact (sum_first_translate N tp Hv x J carts tau n). Qed.
Print Assumptions c03_rows_for_independent_atoms_suffice.

Theorem c03_every_J_has_independent_translate N tp J :
  valid_tp N tp = true -> J <> [] -> in_range N J ->
  exists tau, tau < length tp /\ In (hd 0 (shift (act tp) tau J)) (indep_t N tp).
Proof. intros Hv. exact (J_has_indep_translate N tp Hv J). Qed.
Print Assumptions c03_every_J_has_independent_translate.

(** With permutation symmetry (C01) the sum over the first index position implies the sum over every
    position. *)
Theorem c03_sum_rule_all_index_positions N (Phi : tuple -> R) n :
  (forall m t k, length t = m -> k < m -> Phi (permute (transp m k) t) = Phi t) ->
  (forall a t, length t = n -> pos_sum N Phi 0 a t = 0%R) ->
  forall k a t, length t = n -> k < n -> pos_sum N Phi k a t = 0%R.
Proof. intros Hsym. exact (sum_rule_all_positions N Phi Hsym n). Qed.
Print Assumptions c03_sum_rule_all_index_positions.
