(** C12 — a solve depends only on its inputs, not on the object's history; nothing the caller owns is
    modified. *)
From Coq Require Import ZArith List Bool.
Import ListNotations.
From SymfcV Require Import PyPrelude OrdersThm Api SolverObj.
From SymfcG Require Import Orders SolverStruct.
Open Scope Z_scope.

(** After ANY history of operations, the entries a successful solve writes for the requested orders
    are those a fresh object (same dataset, same basis sets, empty result dictionary) obtains. *)
Theorem c12_solve_is_function_of_inputs natom fresh_bid (h : list op) st0 m os c :
  let st := exec natom fresh_bid st0 h in
  let fresh := mk (s_disp st) (s_forces st) (s_basis st) [] in
  forall st' o, check_orders m os = Ok o -> solve natom st m os c = (st', Ok tt) ->
  exists fresh', solve natom fresh m os c = (fresh', Ok tt) /\
                 forall k, In k o -> alist_get k (s_fc st') = alist_get k (s_fc fresh').
Proof. exact (solve_history_independent natom fresh_bid h st0 m os c). Qed.
Print Assumptions c12_solve_is_function_of_inputs.

(** Two objects in arbitrary states with the same dataset and the same basis sets for the requested
    orders obtain the same entries. *)
Theorem c12_same_inputs_same_result natom st1 st2 m os c st1' o :
  check_orders m os = Ok o -> s_disp st1 = s_disp st2 -> s_forces st1 = s_forces st2 ->
  (forall k, In k o -> alist_get k (s_basis st1) = alist_get k (s_basis st2)) ->
  solve natom st1 m os c = (st1', Ok tt) ->
  exists st2', solve natom st2 m os c = (st2', Ok tt) /\ forall k, In k o -> alist_get k (s_fc st1') = alist_get k (s_fc st2').
Proof. exact (solve_depends_only_on_inputs natom st1 st2 m os c st1' o). Qed.
Print Assumptions c12_same_inputs_same_result.

(** Solving never changes the dataset or the basis sets held by the object, over any history of solves. *)
Theorem c12_solves_leave_inputs_untouched natom fresh_bid (h : list op) st :
  forallb (fun p => negb (touches_inputs p)) h = true ->
  s_disp (exec natom fresh_bid st h) = s_disp st /\ s_forces (exec natom fresh_bid st h) = s_forces st /\
  s_basis (exec natom fresh_bid st h) = s_basis st.
Proof. exact (history_frame natom fresh_bid h st). Qed.
Print Assumptions c12_solves_leave_inputs_untouched.

(** Repeating a call reproduces its result. *)
Theorem c12_repeat natom st m os c st' st'' :
  solve natom st m os c = (st', Ok tt) -> solve natom st' m os c = (st'', Ok tt) ->
  forall k, alist_get k (s_fc st'') = alist_get k (s_fc st').
Proof. exact (solve_repeat natom st m os c st' st''). Qed.
Print Assumptions c12_repeat.

(** Aliasing facts read off the source on every run: the matrices the solvers scale in place are fresh
    objects (compact_compression_matrix returns n_a / sqrt(n_lp)), are the only in-place targets and are
    restored; the stored basis sets and the caller's arrays are therefore never the target of an in-place
    operation. *)
Theorem c12_no_inplace_on_shared_state :
  compact_matrix_is_fresh_and_scaled_by_inv_sqrt_nlp = true /\
  inplace_scaling_only_on_fresh_compact_matrices_and_restored = true /\
  dispatch_wf = true /\ object_state_is_per_instance = true.
Proof. exact (conj eq_refl (conj eq_refl (conj dispatch_wellformed eq_refl))). Qed.

(** FCSolver objects (the quantifier names them): with `full_fc` / `compact_fc` plain properties over the current
    coefficients (regenerated: SolverStruct), a solver reused after ANY history of solves and reads returns, for dataset
    d, exactly what a fresh solver returns; a read always reflects the last solve. *)
Theorem c12_reused_solver_equals_fresh (dataset coefs tensor : Type) (fit : dataset -> coefs) (expand : bool -> coefs -> tensor)
    (h : list (sop dataset)) d (compact : bool) :
  snd (sstep dataset coefs tensor fit expand (fst (sstep dataset coefs tensor fit expand (srun dataset coefs tensor fit expand h None) (Solve dataset d)))
             (if compact then ReadCompact dataset else ReadFull dataset))
  = snd (sstep dataset coefs tensor fit expand (fst (sstep dataset coefs tensor fit expand None (Solve dataset d)))
             (if compact then ReadCompact dataset else ReadFull dataset)).
Proof. exact (reused_solver_equals_fresh dataset coefs tensor fit expand h d compact). Qed.
Print Assumptions c12_reused_solver_equals_fresh.

Theorem c12_read_returns_last_solve (dataset coefs tensor : Type) (fit : dataset -> coefs) (expand : bool -> coefs -> tensor)
    (h : list (sop dataset)) (compact : bool) :
  snd (sstep dataset coefs tensor fit expand (srun dataset coefs tensor fit expand h None) (if compact then ReadCompact dataset else ReadFull dataset))
  = option_map (fun d => expand compact (fit d)) (last_solve dataset h None).
Proof. exact (read_returns_last_solve dataset coefs tensor fit expand h compact). Qed.
Print Assumptions c12_read_returns_last_solve.

(** The remaining source this property rests on is the recorded one (the six solver modules and solver_funcs; the basis-set classes of orders 2-4; the Symfc facade): whole-function match,
    regenerated on every run (closes the gap between "the expected statements are present" and "nothing else was added"). *)
From SymfcG Require Import ShapesSolvers ShapesBasis ShapesApi.
Theorem c12_recorded_sources2_in_force : ShapesSolvers_as_recorded = true /\ ShapesBasis_as_recorded = true /\ ShapesApi_as_recorded = true.
Proof. repeat split; reflexivity. Qed.

(** What the modules on this property's path consist of besides the function bodies is the recorded one: every signature with its
    defaults and keyword-only arguments, decorators, class bases, method lists and module-level statements (imports, constants) --
    regenerated on every run. *)
From SymfcG Require Import SkelBasis SkelSolvers SkelApi.
Theorem c12_module_skeletons_in_force : SkelBasis_as_recorded = true /\ SkelSolvers_as_recorded = true /\ SkelApi_as_recorded = true.
Proof. repeat split; reflexivity. Qed.

(** The rest of the code path of this property's statement (history independence is a statement about the whole computation: every stage of the basis construction) is the recorded source: whole-function / skeleton match,
    regenerated on every run. *)
From SymfcG Require Import ShapesCombos ShapesPerm ShapesCoset ShapesSumRule ShapesSpg ShapesReps ShapesO1 ShapesAuxO1 ShapesAuxEig ShapesAuxBatch ShapesGeom ShapesAuxCut SkelSpg SkelEig SkelMat SkelPerm SkelIdx SkelCut.
Theorem c12_code_path_in_force : ShapesCombos_as_recorded = true /\ ShapesPerm_as_recorded = true /\ ShapesCoset_as_recorded = true /\ ShapesSumRule_as_recorded = true /\ ShapesSpg_as_recorded = true /\ ShapesReps_as_recorded = true /\ ShapesO1_as_recorded = true /\ ShapesAuxO1_as_recorded = true /\ ShapesAuxEig_as_recorded = true /\ ShapesAuxBatch_as_recorded = true /\ ShapesGeom_as_recorded = true /\ ShapesAuxCut_as_recorded = true /\ SkelSpg_as_recorded = true /\ SkelEig_as_recorded = true /\ SkelMat_as_recorded = true /\ SkelPerm_as_recorded = true /\ SkelIdx_as_recorded = true /\ SkelCut_as_recorded = true.
Proof. repeat split; reflexivity. Qed.
