(** C01 — returned force constants are invariant under index permutation.
    Statements only.  [blocks_On] and [rep_choice_On] are regenerated from
    permutation_tools_O{2,3,4}.py on every run. *)
From Coq Require Import List Arith Bool NArith PArith ZArith FMapPositive.
Import ListNotations.
From SymfcV Require Import PyPrelude Tuples PermModel PermExec Concrete TableFacts C01Thm.
From SymfcG Require Import Tables.
Local Open Scope nat_scope.

(** The source uses the orbit-canonical representative (row minimum) in all three routines; with the
    first row entry as representative the theorem below does not apply (see c01_first_rep_splits_orbits
    in props/C01_refuted.v). *)
Theorem c01_in_force : rep_choice_O2 = RepRowMin /\ rep_choice_O3 = RepRowMin /\ rep_choice_O4 = RepRowMin.
Proof. repeat split; reflexivity. Qed.

(** Finite facts about the regenerated tables, all n! position permutations (n <= 4): every arrangement
    group is exactly one orbit of position permutations, of the declared width. *)
Theorem c01_tables_are_orbits :
  tables_ok 2 blocks_O2 = true /\ tables_ok 3 blocks_O3 = true /\ tables_ok 4 blocks_O4 = true /\
  order_ok 2 = true /\ order_ok 3 = true /\ order_ok 4 = true.
Proof. exact (conj tables_O2_ok (conj tables_O3_ok (conj tables_O4_ok (conj order2_ok (conj order3_ok order4_ok))))). Qed.
Print Assumptions c01_tables_are_orbits.

Definition input_ok (blocks : list block) (N : nat) (inp : list (block * list (list nat) * Z)) : Prop :=
  (forall b cs nb, In (b, cs, nb) inp -> In b blocks) /\
  (forall b cs nb c, In (b, cs, nb) inp -> In c cs -> length c = bk_k b /\ Forall (fun p => p < 3 * N) c) /\
  (forall b cs nb, In (b, cs, nb) inp -> (0 < Z.of_nat (length cs) / nb)%Z).

(** Orders 2, 3, 4: for every number of atoms, every valid translation table (any group, any atom
    labelling), every list of in-range combinations per block (so: every cutoff), every batch count,
    every index tuple and every position permutation, the label of the permuted tuple's element equals
    the label of the tuple's element -- including "eliminated". *)
Theorem c01_label_perm_invariant_O2 N tp inp W t pi :
  valid_tp N tp = true -> input_ok blocks_O2 N inp ->
  all_writes (elem_tab N tp) RepRowMin inp = Ok W -> wf_t N 2 t -> is_perm 2 pi ->
  PositiveMap.find (elem_tab N tp (permute pi t)) (ptr_of W) = PositiveMap.find (elem_tab N tp t) (ptr_of W).
Proof.
  intros Hv [H1 [H2 H3]]. exact (assembled_label_invariant 2 blocks_O2 order2_ok (Nat.lt_0_succ 1) tables_O2_ok N tp Hv inp H1 H2 H3 W t pi).
Qed.
Print Assumptions c01_label_perm_invariant_O2.

Theorem c01_label_perm_invariant_O3 N tp inp W t pi :
  valid_tp N tp = true -> input_ok blocks_O3 N inp ->
  all_writes (elem_tab N tp) RepRowMin inp = Ok W -> wf_t N 3 t -> is_perm 3 pi ->
  PositiveMap.find (elem_tab N tp (permute pi t)) (ptr_of W) = PositiveMap.find (elem_tab N tp t) (ptr_of W).
Proof.
  intros Hv [H1 [H2 H3]]. exact (assembled_label_invariant 3 blocks_O3 order3_ok (Nat.lt_0_succ 2) tables_O3_ok N tp Hv inp H1 H2 H3 W t pi).
Qed.
Print Assumptions c01_label_perm_invariant_O3.

Theorem c01_label_perm_invariant_O4 N tp inp W t pi :
  valid_tp N tp = true -> input_ok blocks_O4 N inp ->
  all_writes (elem_tab N tp) RepRowMin inp = Ok W -> wf_t N 4 t -> is_perm 4 pi ->
  PositiveMap.find (elem_tab N tp (permute pi t)) (ptr_of W) = PositiveMap.find (elem_tab N tp t) (ptr_of W).
Proof.
  intros Hv [H1 [H2 H3]]. exact (assembled_label_invariant 4 blocks_O4 order4_ok (Nat.lt_0_succ 3) tables_O4_ok N tp Hv inp H1 H2 H3 W t pi).
Qed.
Print Assumptions c01_label_perm_invariant_O4.

(** Hence, whatever coefficients are attached to the columns of c_pt (basis vectors, fits of any
    dataset), the expanded tensor is permutation symmetric. *)
Theorem c01_output_perm_sym_O4 {A} (zero : A) (y : positive -> A) N tp inp W t pi :
  valid_tp N tp = true -> input_ok blocks_O4 N inp ->
  all_writes (elem_tab N tp) RepRowMin inp = Ok W -> wf_t N 4 t -> is_perm 4 pi ->
  let Phi := fun u => match PositiveMap.find (elem_tab N tp u) (ptr_of W) with Some l => y l | None => zero end in
  Phi (permute pi t) = Phi t.
Proof.
  intros Hv [H1 [H2 H3]]. exact (assembled_tensor_symmetric 4 blocks_O4 order4_ok (Nat.lt_0_succ 3) tables_O4_ok N tp Hv inp H1 H2 H3 zero y W t pi).
Qed.
Print Assumptions c01_output_perm_sym_O4.

(** Regression: with the FIRST row entry as representative (the source before fix 1a30c68) the components
    of the pointer graph are not permutation invariant -- order 4, translation group Z2 x Z2, tuple
    [0;3;6;10] and its transposition (0 1) end in different components; with the row minimum they share
    their pointer. *)
From SymfcV Require Import Refute.
Theorem c01_first_rep_splits_orbits :
  valid_tp 4 tp_z2z2 = true /\
  exists W, witness_writes RepFirst = Ok W /\ ~ connected (ptr_of W) witness_e1 witness_e2.
Proof. exact first_rep_splits_orbits. Qed.
Print Assumptions c01_first_rep_splits_orbits.

Theorem c01_row_minimum_keeps_them_together : same_pointer (witness_writes RepRowMin) witness_e1 witness_e2 = true.
Proof. exact rowmin_same_pointer. Qed.

(** Hand-modelled code this property's model and correspondences were written against is unchanged (the combination tables and index helpers):
    whole-function match against the recorded source, regenerated on every run. *)
From SymfcG Require Import ShapesCombos.
Theorem c01_recorded_sources_in_force : ShapesCombos_as_recorded = true.
Proof. repeat split; reflexivity. Qed.

(** The remaining source this property rests on is the recorded one (the basis-set classes of orders 2-4; the orbit routines): whole-function match,
    regenerated on every run (closes the gap between "the expected statements are present" and "nothing else was added"). *)
From SymfcG Require Import ShapesBasis ShapesPerm.
Theorem c01_recorded_sources2_in_force : ShapesBasis_as_recorded = true /\ ShapesPerm_as_recorded = true.
Proof. repeat split; reflexivity. Qed.

(** Auxiliary code on this property's path is the recorded source (the unique-index form of the third-order permutation projector):
    whole-function match, regenerated on every run. *)
From SymfcG Require Import ShapesAuxPerm3.
Theorem c01_recorded_sources3_in_force : ShapesAuxPerm3_as_recorded = true.
Proof. repeat split; reflexivity. Qed.

(** What the modules on this property's path consist of besides the function bodies is the recorded one: every signature with its
    defaults and keyword-only arguments, decorators, class bases, method lists and module-level statements (imports, constants) --
    regenerated on every run. *)
From SymfcG Require Import SkelBasis SkelMat SkelPerm.
Theorem c01_module_skeletons_in_force : SkelBasis_as_recorded = true /\ SkelMat_as_recorded = true /\ SkelPerm_as_recorded = true.
Proof. repeat split; reflexivity. Qed.

(** The Symfc facade (the entry point through which every returned force constant and basis set of this property is obtained) is the
    recorded source: whole-function and skeleton match, regenerated on every run. *)
From SymfcG Require Import ShapesApi SkelApi.
Theorem c01_facade_in_force : ShapesApi_as_recorded = true /\ SkelApi_as_recorded = true.
Proof. repeat split; reflexivity. Qed.

(** The rest of the code path of this property's statement (the solvers that assemble the returned force constants from the basis, and the symmetry search that supplies the translation table) is the recorded source: whole-function / skeleton match,
    regenerated on every run. *)
From SymfcG Require Import ShapesSolvers SkelSolvers ShapesSpg ShapesReps SkelSpg.
Theorem c01_code_path_in_force : ShapesSolvers_as_recorded = true /\ SkelSolvers_as_recorded = true /\ ShapesSpg_as_recorded = true /\ ShapesReps_as_recorded = true /\ SkelSpg_as_recorded = true.
Proof. repeat split; reflexivity. Qed.
