(** C07 — the distance oracle against which the implementation's minimum-image distances are compared searches a
    box that provably contains every lattice image not longer than the reference distance (any lattice). *)
From Coq Require Import Reals.
From SymfcV Require Import MinImage.
Open Scope R_scope.

Theorem c07_oracle_search_box_complete (b1 b2 b3 d1 d2 d3 : v3) s1 s2 s3 t1 t2 t3 (r : R) :
  dot3 b1 d1 = 1 -> dot3 b2 d1 = 0 -> dot3 b3 d1 = 0 ->
  dot3 b1 d2 = 0 -> dot3 b2 d2 = 1 -> dot3 b3 d2 = 0 ->
  dot3 b1 d3 = 0 -> dot3 b2 d3 = 0 -> dot3 b3 d3 = 1 ->
  0 <= r ->
  let v := comb3 (s1 - t1) (s2 - t2) (s3 - t3) b1 b2 b3 in
  dot3 v v <= r ^ 2 ->
  Rabs (s1 - t1) <= r * sqrt (dot3 d1 d1) /\ Rabs (s2 - t2) <= r * sqrt (dot3 d2 d2) /\ Rabs (s3 - t3) <= r * sqrt (dot3 d3 d3).
Proof. intros D11 D21 D31 D12 D22 D32 D13 D23 D33. exact (search_box_complete b1 b2 b3 d1 d2 d3 D11 D21 D31 D12 D22 D32 D13 D23 D33 s1 s2 s3 t1 t2 t3 r). Qed.
Print Assumptions c07_oracle_search_box_complete.
