(** C04 — the basis set spans the whole admissible space (table part; see theories/Complete.v for the
    row-coverage theorem). *)
From Coq Require Import List Arith Bool.
Import ListNotations.
From SymfcV Require Import Tuples TableFacts.
From SymfcG Require Import Tables.
Local Open Scope nat_scope.

(** Orders 2 and 3: every index-equality pattern (every surjection [n] -> [k], k <= n: all 2 resp. 5 set
    partitions with all their labelled arrangements) occurs in the regenerated arrangement tables. *)
Theorem c04_tables_cover_all_patterns_n23 : covers 2 blocks_O2 = true /\ covers 3 blocks_O3 = true.
Proof. exact (conj covers_O2 covers_O3). Qed.
Print Assumptions c04_tables_cover_all_patterns_n23.

(** Order 4, current source: the pattern (ia,ia,jb,jb) is absent -- exactly its six arrangements are
    missing, nothing else.  Elements with that index pattern are never written and are forced to zero
    (known finding C04/order4/pattern-aabb). *)
Theorem c04_tables_O4_incomplete :
  covers 4 blocks_O4 = false /\
  missing 4 blocks_O4 = [[1; 1; 0; 0]; [1; 0; 1; 0]; [0; 1; 1; 0]; [1; 0; 0; 1]; [0; 1; 0; 1]; [0; 0; 1; 1]].
Proof. split; vm_compute; reflexivity. Qed.
Print Assumptions c04_tables_O4_incomplete.

(** no pattern is covered twice (no degree of freedom duplicated): arrangements are pairwise distinct *)
Definition nodup_arrs (blocks : list block) : bool :=
  let all := flat_map bk_arrs blocks in
  forallb (fun a => Nat.eqb (length (filter (nl_eqb a) all)) 1) all.
Theorem c04_no_arrangement_twice : nodup_arrs blocks_O2 = true /\ nodup_arrs blocks_O3 = true /\ nodup_arrs blocks_O4 = true.
Proof. repeat split; vm_compute; reflexivity. Qed.

From Coq Require Import ZArith PArith.
From SymfcV Require Import Group Concrete Cutoff PermModel Complete.

(** Row coverage.  For every valid translation table, every symmetric, reflexive, translation-invariant
    cutoff relation (or none) and every order n whose patterns are all covered by the tables: every index
    tuple whose atoms are mutually inside the cutoff has its element in some row of the orbit routine --
    it is written, hence (C07: c07_eliminated_iff_in_no_row) NOT eliminated.  Argument: translate the tuple
    so that its smallest atom is the smallest over all translates; that atom is an orbit minimum, hence
    translationally independent, so the sorted distinct indices form a listed combination. *)
Theorem c04_every_near_tuple_in_some_row n blocks N tp nr t :
  0 < n -> (forall b, In b blocks -> 0 < group_width b) -> valid_tp N tp = true ->
  (forall r, nr = Some r -> forall i j, nearb r i j = nearb r j i) ->
  (forall r, nr = Some r -> forall i, i < N -> nearb r i i = true) ->
  (forall r, nr = Some r -> forall tau i j, tau < length tp -> i < N -> j < N -> nearb r (act tp tau i) (act tp tau j) = nearb r i j) ->
  covers n blocks = true ->
  wf_t N n t -> tuple_near nr t ->
  in_some_row (elem_tab N tp) (bc blocks N tp nr) (elem_tab N tp t).
Proof. intros Hn Hw Hv S R I Hc. exact (covered_near_tuple_in_some_row n blocks Hn Hw N tp Hv nr S R I t Hc). Qed.
Print Assumptions c04_every_near_tuple_in_some_row.

(** Order 4 (tables incomplete): the same conclusion for every tuple all of whose translates have their
    arrangement in the tables, i.e. for every index-equality pattern except (ia,ia,jb,jb). *)
Theorem c04_every_near_tuple_in_some_row_partial n blocks N tp nr t :
  0 < n -> (forall b, In b blocks -> 0 < group_width b) -> valid_tp N tp = true ->
  (forall r, nr = Some r -> forall i j, nearb r i j = nearb r j i) ->
  (forall r, nr = Some r -> forall i, i < N -> nearb r i i = true) ->
  (forall r, nr = Some r -> forall tau i j, tau < length tp -> i < N -> j < N -> nearb r (act tp tau i) (act tp tau j) = nearb r i j) ->
  wf_t N n t -> tuple_near nr t ->
  (forall tau, tau < length tp -> In (arr_of (map (tshift_tab tp tau) t))
                                     (arrangements_of (length (sdistinct (map (tshift_tab tp tau) t))) blocks)) ->
  in_some_row (elem_tab N tp) (bc blocks N tp nr) (elem_tab N tp t).
Proof. intros Hn Hw Hv S R I. exact (near_tuple_in_some_row n blocks Hn Hw N tp Hv nr S R I t). Qed.
Print Assumptions c04_every_near_tuple_in_some_row_partial.

(** group widths of the regenerated tables are positive (hypothesis of the two theorems above) *)
Definition widths_pos (blocks : list block) : bool := forallb (fun b => 0 <? group_width b) blocks.
Theorem c04_group_widths_positive : widths_pos blocks_O2 = true /\ widths_pos blocks_O3 = true /\ widths_pos blocks_O4 = true.
Proof. repeat split; vm_compute; reflexivity. Qed.

(** Hand-modelled code this property's model and correspondences were written against is unchanged (the combination tables and index helpers; the first-order classes):
    whole-function match against the recorded source, regenerated on every run. *)
From SymfcG Require Import ShapesCombos ShapesO1.
Theorem c04_recorded_sources_in_force : ShapesCombos_as_recorded = true /\ ShapesO1_as_recorded = true.
Proof. repeat split; reflexivity. Qed.

(** The remaining source this property rests on is the recorded one (the basis-set classes of orders 2-4; the orbit routines): whole-function match,
    regenerated on every run (closes the gap between "the expected statements are present" and "nothing else was added"). *)
From SymfcG Require Import ShapesBasis ShapesPerm.
Theorem c04_recorded_sources2_in_force : ShapesBasis_as_recorded = true /\ ShapesPerm_as_recorded = true.
Proof. repeat split; reflexivity. Qed.

(** Auxiliary code on this property's path is the recorded source (the accessors and base constructor of the first-order basis-set class and the first-order atomic index table):
    whole-function match, regenerated on every run. *)
From SymfcG Require Import ShapesAuxO1.
Theorem c04_recorded_sources3_in_force : ShapesAuxO1_as_recorded = true.
Proof. repeat split; reflexivity. Qed.

(** What the modules on this property's path consist of besides the function bodies is the recorded one: every signature with its
    defaults and keyword-only arguments, decorators, class bases, method lists and module-level statements (imports, constants) --
    regenerated on every run. *)
From SymfcG Require Import SkelBasis SkelPerm SkelIdx.
Theorem c04_module_skeletons_in_force : SkelBasis_as_recorded = true /\ SkelPerm_as_recorded = true /\ SkelIdx_as_recorded = true.
Proof. repeat split; reflexivity. Qed.

(** Further recorded sources this property's statement depends on (the span is the product of every stage: coset projectors, sum-rule builders, symmetry search and representations, eigen-solver, cutoff geometry): whole-function / skeleton match, regenerated on every run. *)
From SymfcG Require Import ShapesCoset ShapesSumRule ShapesSpg ShapesReps ShapesAuxEig SkelSpg SkelEig SkelMat ShapesGeom ShapesAuxCut SkelCut.
Theorem c04_recorded_sources4_in_force : ShapesCoset_as_recorded = true /\ ShapesSumRule_as_recorded = true /\ ShapesSpg_as_recorded = true /\ ShapesReps_as_recorded = true /\ ShapesAuxEig_as_recorded = true /\ SkelSpg_as_recorded = true /\ SkelEig_as_recorded = true /\ SkelMat_as_recorded = true /\ ShapesGeom_as_recorded = true /\ ShapesAuxCut_as_recorded = true /\ SkelCut_as_recorded = true.
Proof. repeat split; reflexivity. Qed.

(** The Symfc facade (the entry point through which every returned force constant and basis set of this property is obtained) is the
    recorded source: whole-function and skeleton match, regenerated on every run. *)
From SymfcG Require Import ShapesApi SkelApi.
Theorem c04_facade_in_force : ShapesApi_as_recorded = true /\ SkelApi_as_recorded = true.
Proof. repeat split; reflexivity. Qed.
