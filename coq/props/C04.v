(** C04 — the basis set spans the whole admissible space (table part; see theories/Complete.v for the
    row-coverage theorem). *)
From Coq Require Import List Arith Bool.
Import ListNotations.
From SymfcV Require Import Tuples TableFacts.
From SymfcG Require Import Tables.
Local Open Scope nat_scope.

(** Orders 2 and 3: every index-equality pattern (every surjection [n] -> [k], k <= n: all 2 resp. 5 set
    partitions with all their labelled arrangements) occurs in the regenerated arrangement tables. *)
Theorem c04_tables_cover_all_patterns_n23 : covers 2 blocks_O2 = true /\ covers 3 blocks_O3 = true.
Proof. exact (conj covers_O2 covers_O3). Qed.
Print Assumptions c04_tables_cover_all_patterns_n23.

(** Order 4, current source: the pattern (ia,ia,jb,jb) is absent -- exactly its six arrangements are
    missing, nothing else.  Elements with that index pattern are never written and are forced to zero
    (known finding C04/order4/pattern-aabb). *)
Theorem c04_tables_O4_incomplete :
  covers 4 blocks_O4 = false /\
  missing 4 blocks_O4 = [[1; 1; 0; 0]; [1; 0; 1; 0]; [0; 1; 1; 0]; [1; 0; 0; 1]; [0; 1; 0; 1]; [0; 0; 1; 1]].
Proof. split; vm_compute; reflexivity. Qed.
Print Assumptions c04_tables_O4_incomplete.

(** no pattern is covered twice (no degree of freedom duplicated): arrangements are pairwise distinct *)
Definition nodup_arrs (blocks : list block) : bool :=
  let all := flat_map bk_arrs blocks in
  forallb (fun a => Nat.eqb (length (filter (nl_eqb a) all)) 1) all.
Theorem c04_no_arrangement_twice : nodup_arrs blocks_O2 = true /\ nodup_arrs blocks_O3 = true /\ nodup_arrs blocks_O4 = true.
Proof. repeat split; vm_compute; reflexivity. Qed.
