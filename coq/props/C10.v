(** C10 — results do not depend on how the same crystal is described (spec-level part). *)
From Coq Require Import List Arith ZArith.
Import ListNotations.
From SymfcV Require Import Spg.
Open Scope Z_scope.

(** In the exact matching model the relation "operation g sends atom i to atom j" -- from which the
    translation table, the classes, the masks and the group representation are all derived -- is unchanged
    by adding integers to fractional coordinates ... *)
Theorem c10_integer_wraps D (pos : nat -> vec) (num : nat -> nat) (wrap : nat -> vec) g i j :
  0 < D ->
  (matches D (fun a => addv (pos a) (let '(k1, k2, k3) := wrap a in (D * k1, D * k2, D * k3))) num g i j <-> matches D pos num g i j).
Proof. intros HD. exact (matches_invariant_under_wraps D HD pos num wrap g i j). Qed.
Print Assumptions c10_integer_wraps.

(** ... by shifting the origin (the operation's translation part changes to s + c - r c, its atom
    permutation does not) ... *)
Theorem c10_origin_shift D (pos : nat -> vec) (num : nat -> nat) c g i j :
  matches D (fun a => addv (pos a) c) num (shift_op c g) i j <-> matches D pos num g i j.
Proof. exact (matches_invariant_under_origin_shift D pos num c g i j). Qed.
Print Assumptions c10_origin_shift.

(** ... and relabelling the atoms conjugates it. *)
Theorem c10_relabelling D (pos : nat -> vec) (num : nat -> nat) (phi psi : nat -> nat) g i j :
  (forall a, psi (phi a) = a) ->
  (matches D (fun a => pos (psi a)) (fun a => num (psi a)) g (phi i) (phi j) <-> matches D pos num g i j).
Proof. exact (matches_under_relabelling D pos num phi psi g i j). Qed.
Print Assumptions c10_relabelling.

(** A unimodular change of the lattice basis (numerators p -> A p, operation (r, s) -> (A r B, A s) with B the
    integer inverse of A) leaves the relation unchanged as well: the same atom permutation represents the operation
    in both descriptions, for every integer A with an integer inverse (shears of any size included). *)
Theorem c10_unimodular_basis_change D (pos : nat -> vec) (num : nat -> nat) (A B : mat) g i j :
  0 < D -> mulmm B A = ident ->
  (matches D (fun a => mulmv A (pos a)) num (conj_op A B g) i j <-> matches D pos num g i j).
Proof. intros HD. exact (matches_invariant_under_unimodular D HD pos num A B g i j). Qed.
Print Assumptions c10_unimodular_basis_change.

(** non-vacuity: a shear with its inverse *)
Example c10_unimodular_ex : mulmm ((1, 0, 0), (-2, 1, 0), (-7, 3, 1)) ((1, 0, 0), (2, 1, 0), (1, -3, 1)) = ident.
Proof. reflexivity. Qed.

(** Isometric changes of description (an orthogonal rotation of crystal and data, a relabelling of the atoms) act on coefficient and
    force spaces by isometries.  When the second description's design is the transported one (X' o qC = qO o X, which the metamorphic
    oracle checks on the implementation) the admissible least-squares minimisers of the second description are exactly the transported
    minimisers of the first ... *)
From Coq Require Import Reals.
From SymfcV Require Import IPS Covariance.
Theorem c10_transported_fit (C C' O O' : IPS) (X : C -> O) (X' : C' -> O') (qC : C -> C') (qO : O -> O') (Adm : C -> Prop) (y : O) :
  (forall a b, ip (qO a) (qO b) = ip a b) -> (forall a b, qO (vsub a b) = vsub (qO a) (qO b)) ->
  (forall c, X' (qC c) = qO (X c)) ->
  (forall c, cmin C O X Adm y c -> cmin' C C' O O' X' qC qO Adm y (qC c)) /\
  (forall c', cmin' C C' O O' X' qC qO Adm y c' -> exists c, cmin C O X Adm y c /\ c' = qC c).
Proof.
  intros H1 H2 H3. split.
  - exact (minimiser_transported C C' O O' X X' qC qO H1 H2 H3 Adm y).
  - exact (minimiser_only_transported C C' O O' X X' qC qO H1 H2 H3 Adm y).
Qed.
Print Assumptions c10_transported_fit.

(** ... and the invariant (admissible) space of the transported operators is the transported invariant space. *)
Theorem c10_transported_invariants (W W' : IPS) (q : W -> W') (qi : W' -> W) (ops : list ((W -> W) * (W' -> W'))) :
  (forall v, qi (q v) = v) -> (forall g g', In (g, g') ops -> forall v, g' (q v) = q (g v)) ->
  forall v, (forall g g', In (g, g') ops -> g v = v) <-> (forall g g', In (g, g') ops -> g' (q v) = q v).
Proof. intros H1 H2. exact (fixed_space_transported W W' q qi H1 ops H2). Qed.
Print Assumptions c10_transported_invariants.

(** non-vacuity: on R with the design c |-> 2c and the inversion as the orthogonal map, 3 is the minimiser for y = 6 and -3 for y = -6 *)
Theorem c10_transported_fit_nonvacuous :
  cmin IPSInst.R_IPS IPSInst.R_IPS X_ex (fun _ => True) 6%R 3%R /\
  cmin' IPSInst.R_IPS IPSInst.R_IPS IPSInst.R_IPS IPSInst.R_IPS X_ex neg_ex neg_ex (fun _ => True) 6%R (-3)%R.
Proof. exact (proj2 (proj2 (proj2 covariance_hypotheses_hold))). Qed.

(** Hand-modelled code this property's model and correspondences were written against is unchanged (the permutation search and the representation classes; the distance computation of FCCutoff):
    whole-function match against the recorded source, regenerated on every run. *)
From SymfcG Require Import ShapesSpg ShapesGeom.
Theorem c10_recorded_sources_in_force : ShapesSpg_as_recorded = true /\ ShapesGeom_as_recorded = true.
Proof. repeat split; reflexivity. Qed.

(** Auxiliary code on this property's path is the recorded source (the representation classes of orders 1-4 (constructors, r_reps, the sigma representations), the accessors of SpgRepsBase, position rounding and the SymfcAtoms container):
    whole-function match, regenerated on every run. *)
From SymfcG Require Import ShapesReps.
Theorem c10_recorded_sources3_in_force : ShapesReps_as_recorded = true.
Proof. repeat split; reflexivity. Qed.

(** What the modules on this property's path consist of besides the function bodies is the recorded one: every signature with its
    defaults and keyword-only arguments, decorators, class bases, method lists and module-level statements (imports, constants) --
    regenerated on every run. *)
From SymfcG Require Import SkelSpg SkelCut.
Theorem c10_module_skeletons_in_force : SkelSpg_as_recorded = true /\ SkelCut_as_recorded = true.
Proof. repeat split; reflexivity. Qed.

(** The Symfc facade (the entry point through which every returned force constant and basis set of this property is obtained) is the
    recorded source: whole-function and skeleton match, regenerated on every run. *)
From SymfcG Require Import ShapesApi SkelApi.
Theorem c10_facade_in_force : ShapesApi_as_recorded = true /\ SkelApi_as_recorded = true.
Proof. repeat split; reflexivity. Qed.

(** The rest of the code path of this property's statement (independence of the description is a statement about the whole computation: every stage of the basis construction and the solvers) is the recorded source: whole-function / skeleton match,
    regenerated on every run. *)
From SymfcG Require Import ShapesSolvers SkelSolvers ShapesCombos ShapesPerm ShapesCoset ShapesSumRule ShapesBasis ShapesO1 ShapesAuxO1 ShapesAuxEig ShapesAuxBatch ShapesAuxCut SkelBasis SkelEig SkelMat SkelPerm SkelIdx.
Theorem c10_code_path_in_force : ShapesSolvers_as_recorded = true /\ SkelSolvers_as_recorded = true /\ ShapesCombos_as_recorded = true /\ ShapesPerm_as_recorded = true /\ ShapesCoset_as_recorded = true /\ ShapesSumRule_as_recorded = true /\ ShapesBasis_as_recorded = true /\ ShapesO1_as_recorded = true /\ ShapesAuxO1_as_recorded = true /\ ShapesAuxEig_as_recorded = true /\ ShapesAuxBatch_as_recorded = true /\ ShapesAuxCut_as_recorded = true /\ SkelBasis_as_recorded = true /\ SkelEig_as_recorded = true /\ SkelMat_as_recorded = true /\ SkelPerm_as_recorded = true /\ SkelIdx_as_recorded = true.
Proof. repeat split; reflexivity. Qed.
