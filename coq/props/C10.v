(** C10 — results do not depend on how the same crystal is described (spec-level part). *)
From Coq Require Import List Arith ZArith.
Import ListNotations.
From SymfcV Require Import Spg.
Open Scope Z_scope.

(** In the exact matching model the relation "operation g sends atom i to atom j" -- from which the
    translation table, the classes, the masks and the group representation are all derived -- is unchanged
    by adding integers to fractional coordinates ... *)
Theorem c10_integer_wraps D (pos : nat -> vec) (num : nat -> nat) (wrap : nat -> vec) g i j :
  0 < D ->
  (matches D (fun a => addv (pos a) (let '(k1, k2, k3) := wrap a in (D * k1, D * k2, D * k3))) num g i j <-> matches D pos num g i j).
Proof. intros HD. exact (matches_invariant_under_wraps D HD pos num wrap g i j). Qed.
Print Assumptions c10_integer_wraps.

(** ... by shifting the origin (the operation's translation part changes to s + c - r c, its atom
    permutation does not) ... *)
Theorem c10_origin_shift D (pos : nat -> vec) (num : nat -> nat) c g i j :
  matches D (fun a => addv (pos a) c) num (shift_op c g) i j <-> matches D pos num g i j.
Proof. exact (matches_invariant_under_origin_shift D pos num c g i j). Qed.
Print Assumptions c10_origin_shift.

(** ... and relabelling the atoms conjugates it. *)
Theorem c10_relabelling D (pos : nat -> vec) (num : nat -> nat) (phi psi : nat -> nat) g i j :
  (forall a, psi (phi a) = a) ->
  (matches D (fun a => pos (psi a)) (fun a => num (psi a)) g (phi i) (phi j) <-> matches D pos num g i j).
Proof. exact (matches_under_relabelling D pos num phi psi g i j). Qed.
Print Assumptions c10_relabelling.

(** A unimodular change of the lattice basis (numerators p -> A p, operation (r, s) -> (A r B, A s) with B the
    integer inverse of A) leaves the relation unchanged as well: the same atom permutation represents the operation
    in both descriptions, for every integer A with an integer inverse (shears of any size included). *)
Theorem c10_unimodular_basis_change D (pos : nat -> vec) (num : nat -> nat) (A B : mat) g i j :
  0 < D -> mulmm B A = ident ->
  (matches D (fun a => mulmv A (pos a)) num (conj_op A B g) i j <-> matches D pos num g i j).
Proof. intros HD. exact (matches_invariant_under_unimodular D HD pos num A B g i j). Qed.
Print Assumptions c10_unimodular_basis_change.

(** non-vacuity: a shear with its inverse *)
Example c10_unimodular_ex : mulmm ((1, 0, 0), (-2, 1, 0), (-7, 3, 1)) ((1, 0, 0), (2, 1, 0), (1, -3, 1)) = ident.
Proof. reflexivity. Qed.

(** Hand-modelled code this property's model and correspondences were written against is unchanged (the permutation search and the representation classes; the distance computation of FCCutoff):
    whole-function match against the recorded source, regenerated on every run. *)
From SymfcG Require Import ShapesSpg ShapesGeom.
Theorem c10_recorded_sources_in_force : ShapesSpg_as_recorded = true /\ ShapesGeom_as_recorded = true.
Proof. repeat split; reflexivity. Qed.

(** Auxiliary code on this property's path is the recorded source (the representation classes of orders 1-4 (constructors, r_reps, the sigma representations), the accessors of SpgRepsBase, position rounding and the SymfcAtoms container):
    whole-function match, regenerated on every run. *)
From SymfcG Require Import ShapesReps.
Theorem c10_recorded_sources3_in_force : ShapesReps_as_recorded = true.
Proof. repeat split; reflexivity. Qed.

(** What the modules on this property's path consist of besides the function bodies is the recorded one: every signature with its
    defaults and keyword-only arguments, decorators, class bases, method lists and module-level statements (imports, constants) --
    regenerated on every run. *)
From SymfcG Require Import SkelSpg SkelCut.
Theorem c10_module_skeletons_in_force : SkelSpg_as_recorded = true /\ SkelCut_as_recorded = true.
Proof. repeat split; reflexivity. Qed.
