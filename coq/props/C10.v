(** C10 — results do not depend on how the same crystal is described (spec-level part). *)
From Coq Require Import List Arith ZArith.
Import ListNotations.
From SymfcV Require Import Spg.
Open Scope Z_scope.

(** In the exact matching model the relation "operation g sends atom i to atom j" -- from which the
    translation table, the classes, the masks and the group representation are all derived -- is unchanged
    by adding integers to fractional coordinates ... *)
Theorem c10_integer_wraps D (pos : nat -> vec) (num : nat -> nat) (wrap : nat -> vec) g i j :
  0 < D ->
  (matches D (fun a => addv (pos a) (let '(k1, k2, k3) := wrap a in (D * k1, D * k2, D * k3))) num g i j <-> matches D pos num g i j).
Proof. intros HD. exact (matches_invariant_under_wraps D HD pos num wrap g i j). Qed.
Print Assumptions c10_integer_wraps.

(** ... by shifting the origin (the operation's translation part changes to s + c - r c, its atom
    permutation does not) ... *)
Theorem c10_origin_shift D (pos : nat -> vec) (num : nat -> nat) c g i j :
  matches D (fun a => addv (pos a) c) num (shift_op c g) i j <-> matches D pos num g i j.
Proof. exact (matches_invariant_under_origin_shift D pos num c g i j). Qed.
Print Assumptions c10_origin_shift.

(** ... and relabelling the atoms conjugates it. *)
Theorem c10_relabelling D (pos : nat -> vec) (num : nat -> nat) (phi psi : nat -> nat) g i j :
  (forall a, psi (phi a) = a) ->
  (matches D (fun a => pos (psi a)) (fun a => num (psi a)) g (phi i) (phi j) <-> matches D pos num g i j).
Proof. exact (matches_under_relabelling D pos num phi psi g i j). Qed.
Print Assumptions c10_relabelling.
