(** C07 — cutoff zeroes exactly the out-of-range elements (structure part; the combination
    generators' specification is in theories/CutoffThm.v). *)
From Coq Require Import List Arith Bool PArith FMapPositive.
Import ListNotations.
From SymfcV Require Import Tuples PermModel.
Local Open Scope nat_scope.

(** An element is eliminated (label None: its row of c_pt is structurally empty, so every basis vector
    and every fit is exactly zero there) iff it lies in no row; which elements lie in rows is decided only
    by the combination lists (the cutoff), never by the write order or batching. *)
Theorem c07_eliminated_iff_in_no_row n bound nlp tshift elem bc :
  (forall tau t, tau < nlp -> wf n bound t -> elem (tmap tshift tau t) = elem t) ->
  (forall t t', wf n bound t -> wf n bound t' -> elem t = elem t' -> exists tau, tau < nlp /\ tmap tshift tau t = t') ->
  (forall pi, In pi (all_perms n) -> Forall (fun s => s < n) pi) ->
  (forall b g a, In b (map fst bc) -> In g (groups b) -> In a g -> length a = n /\ Forall (fun s => s < bk_k b) a) ->
  (forall b g pi a, In b (map fst bc) -> In g (groups b) -> In pi (all_perms n) -> In a g -> In (permute pi a) g) ->
  (forall b g a a', In b (map fst bc) -> In g (groups b) -> In a g -> In a' g -> exists pi, In pi (all_perms n) /\ a' = permute pi a) ->
  (forall b cs c, In (b, cs) bc -> In c cs -> length c = bk_k b /\ Forall (fun p => p < bound) c) ->
  forall W e, writes_ok elem bc W ->
  (PositiveMap.find e (ptr_of W) = None <-> ~ in_some_row elem bc e).
Proof. intros H1 H2 H3 H4 H5 H6 H7 W e. exact (update_min_none n bound nlp tshift elem bc H1 H2 H3 H4 H5 H6 H7 W e). Qed.
Print Assumptions c07_eliminated_iff_in_no_row.

From SymfcV Require Import Cutoff CutoffThm.
From SymfcG Require Import CutoffGen.

(** FCCutoff.combinations2 / combinations3_all / combinations4_all (model Cutoff.cut_combos, compared with
    the implementation entry by entry) list exactly the strictly increasing index tuples of the requested
    length below 3N whose atoms are mutually near -- for every symmetric reflexive relation, every N, every
    k >= 1. *)
Theorem c07_combinations_spec (nr : near) N k c :
  (forall i j, nearb nr i j = nearb nr j i) -> (forall i, i < N -> nearb nr i i = true) -> 1 <= k ->
  (In c (cut_combos nr N k) <-> length c = k /\ increasing c /\ in_range3 N c /\ mutually_near nr c).
Proof. intros S R Hk. exact (cut_combos_spec nr N S R k c Hk). Qed.
Print Assumptions c07_combinations_spec.

(** The generators (what the permutation stage writes) and the element masks (what the coset projector and the sum rules keep)
    are separate code; they describe the same set: an increasing in-range tuple is listed <-> the mask keeps its atom tuple.
    Every relation, N and order.  Instance with both sides: MaskCombos.mask_combos_instance. *)
From SymfcV Require MaskCombos.
Theorem c07_mask_agrees_with_combinations (nr : near) N k c :
  (forall i j, nearb nr i j = nearb nr j i) -> (forall i, i < N -> nearb nr i i = true) ->
  1 <= k -> length c = k -> increasing c -> in_range3 N c ->
  (In c (cut_combos nr N k) <-> atoms_mutually_near nr (map (fun p => p / 3) c) = true).
Proof. intros S R. exact (MaskCombos.mask_agrees_with_combos nr N S R k c). Qed.
Print Assumptions c07_mask_agrees_with_combinations.

(** enlarging the cutoff never removes a combination ... *)
Theorem c07_monotone (nr nr' : near) N k c : 1 <= k ->
  (forall i j, nearb nr i j = nearb nr j i) -> (forall i, i < N -> nearb nr i i = true) ->
  (forall i j, nearb nr' i j = nearb nr' j i) -> (forall i, i < N -> nearb nr' i i = true) ->
  (forall i j, nearb nr i j = true -> nearb nr' i j = true) ->
  In c (cut_combos nr N k) -> In c (cut_combos nr' N k).
Proof. exact (cut_combos_monotone nr nr' N k c). Qed.
Print Assumptions c07_monotone.

(** ... and a cutoff beyond every distance gives exactly the combinations used without cutoff *)
Theorem c07_large_cutoff (nr : near) N k c : 1 <= k -> (forall i j, nearb nr i j = true) ->
  (In c (cut_combos nr N k) <-> In c (entire_combos N k)).
Proof. exact (cut_combos_all_near nr N k c). Qed.
Print Assumptions c07_large_cutoff.

(** The methods of FCCutoff that decide which elements exist -- neighbour lists (strict <), the three combination
    generators and the three masks -- are the shapes the model was written from (whole-method match, regenerated). *)
Theorem c07_cutoff_methods_in_force : cutoff_methods_as_modelled = true /\ cutoff_comparison_is_strict_less = true.
Proof. split; reflexivity. Qed.

(** Hand-modelled code this property's model and correspondences were written against is unchanged (the distance computation of FCCutoff; the combination tables and index helpers):
    whole-function match against the recorded source, regenerated on every run. *)
From SymfcG Require Import ShapesGeom ShapesCombos.
Theorem c07_recorded_sources_in_force : ShapesGeom_as_recorded = true /\ ShapesCombos_as_recorded = true.
Proof. repeat split; reflexivity. Qed.

(** The remaining source this property rests on is the recorded one (the basis-set classes of orders 2-4; the orbit routines; the Symfc facade): whole-function match,
    regenerated on every run (closes the gap between "the expected statements are present" and "nothing else was added"). *)
From SymfcG Require Import ShapesBasis ShapesPerm ShapesApi.
Theorem c07_recorded_sources2_in_force : ShapesBasis_as_recorded = true /\ ShapesPerm_as_recorded = true /\ ShapesApi_as_recorded = true.
Proof. repeat split; reflexivity. Qed.

(** Auxiliary code on this property's path is the recorded source (the remaining accessors of FCCutoff):
    whole-function match, regenerated on every run. *)
From SymfcG Require Import ShapesAuxCut.
Theorem c07_recorded_sources3_in_force : ShapesAuxCut_as_recorded = true.
Proof. repeat split; reflexivity. Qed.

(** What the modules on this property's path consist of besides the function bodies is the recorded one: every signature with its
    defaults and keyword-only arguments, decorators, class bases, method lists and module-level statements (imports, constants) --
    regenerated on every run. *)
From SymfcG Require Import SkelBasis SkelApi SkelCut SkelPerm.
Theorem c07_module_skeletons_in_force : SkelBasis_as_recorded = true /\ SkelApi_as_recorded = true /\ SkelCut_as_recorded = true /\ SkelPerm_as_recorded = true.
Proof. repeat split; reflexivity. Qed.

(** The rest of the code path of this property's statement (the solvers that assemble the returned force constants from the basis) is the recorded source: whole-function / skeleton match,
    regenerated on every run. *)
From SymfcG Require Import ShapesSolvers SkelSolvers.
Theorem c07_code_path_in_force : ShapesSolvers_as_recorded = true /\ SkelSolvers_as_recorded = true.
Proof. repeat split; reflexivity. Qed.

(** "Everything inside the cutoff remains free up to the symmetry constraints; a large cutoff gives the no-cutoff space; enlarging never
    shrinks" are statements about the whole basis construction with a cutoff: every stage is the recorded source. *)
From SymfcG Require Import ShapesCoset ShapesSumRule ShapesSpg ShapesReps ShapesO1 ShapesAuxO1 ShapesAuxEig ShapesAuxBatch SkelSpg SkelEig SkelMat SkelIdx.
Theorem c07_code_path2_in_force : ShapesCoset_as_recorded = true /\ ShapesSumRule_as_recorded = true /\ ShapesSpg_as_recorded = true /\ ShapesReps_as_recorded = true /\ ShapesO1_as_recorded = true /\ ShapesAuxO1_as_recorded = true /\ ShapesAuxEig_as_recorded = true /\ ShapesAuxBatch_as_recorded = true /\ SkelSpg_as_recorded = true /\ SkelEig_as_recorded = true /\ SkelMat_as_recorded = true /\ SkelIdx_as_recorded = true.
Proof. repeat split; reflexivity. Qed.
