(** C07 — cutoff zeroes exactly the out-of-range elements (structure part; the combination
    generators' specification is in theories/CutoffThm.v). *)
From Coq Require Import List Arith Bool PArith FMapPositive.
Import ListNotations.
From SymfcV Require Import Tuples PermModel.
Local Open Scope nat_scope.

(** An element is eliminated (label None: its row of c_pt is structurally empty, so every basis vector
    and every fit is exactly zero there) iff it lies in no row; which elements lie in rows is decided only
    by the combination lists (the cutoff), never by the write order or batching. *)
Theorem c07_eliminated_iff_in_no_row n bound nlp tshift elem bc :
  (forall tau t, tau < nlp -> wf n bound t -> elem (tmap tshift tau t) = elem t) ->
  (forall t t', wf n bound t -> wf n bound t' -> elem t = elem t' -> exists tau, tau < nlp /\ tmap tshift tau t = t') ->
  (forall pi, In pi (all_perms n) -> Forall (fun s => s < n) pi) ->
  (forall b g a, In b (map fst bc) -> In g (groups b) -> In a g -> length a = n /\ Forall (fun s => s < bk_k b) a) ->
  (forall b g pi a, In b (map fst bc) -> In g (groups b) -> In pi (all_perms n) -> In a g -> In (permute pi a) g) ->
  (forall b g a a', In b (map fst bc) -> In g (groups b) -> In a g -> In a' g -> exists pi, In pi (all_perms n) /\ a' = permute pi a) ->
  (forall b cs c, In (b, cs) bc -> In c cs -> length c = bk_k b /\ Forall (fun p => p < bound) c) ->
  forall W e, writes_ok elem bc W ->
  (PositiveMap.find e (ptr_of W) = None <-> ~ in_some_row elem bc e).
Proof. intros H1 H2 H3 H4 H5 H6 H7 W e. exact (update_min_none n bound nlp tshift elem bc H1 H2 H3 H4 H5 H6 H7 W e). Qed.
Print Assumptions c07_eliminated_iff_in_no_row.
