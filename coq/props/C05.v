(** C05 — noise-free data from admissible force constants are recovered exactly (index/layout part). *)
From Coq Require Import ZArith List QArith Reals String.
From SymfcV Require Import Reshape SolverModel IPS DesignPre Design DesignIdx.
From SymfcG Require Import ReshapeGen SolverStruct DesignGen.
Import ListNotations.
Open Scope Z_scope.

(** The regenerated reshape chains place the compact compression-matrix entry of element
    (i, j.., a, b..) and column x at row = flat (3j+b, ...) index of the displacement product and column
    (3i+a)*nx + x, for all N, nx (no bound). *)
Theorem c05_reshape_O2 N nx i j a b x :
  0 < N -> 0 <= j < N -> 0 <= a < 3 -> 0 <= b < 3 ->
  reshape_O2 N nx ((i * N + j) * 9 + (a * 3 + b)) x = (3 * j + b, (3 * i + a) * nx + x).
Proof. exact (reshape_O2_spec N nx i j a b x). Qed.
Print Assumptions c05_reshape_O2.

Theorem c05_reshape_O3 N nx i j k a b c x :
  0 < N -> 0 <= j < N -> 0 <= k < N -> 0 <= a < 3 -> 0 <= b < 3 -> 0 <= c < 3 ->
  reshape_O3 N nx (((i * N + j) * N + k) * 27 + (a * 9 + b * 3 + c)) x
  = ((3 * j + b) * (3 * N) + (3 * k + c), (3 * i + a) * nx + x).
Proof. exact (reshape_O3_spec N nx i j k a b c x). Qed.
Print Assumptions c05_reshape_O3.

Theorem c05_reshape_O4 N nx i j k l a b c d x :
  0 < N -> 0 <= j < N -> 0 <= k < N -> 0 <= l < N -> 0 <= a < 3 -> 0 <= b < 3 -> 0 <= c < 3 -> 0 <= d < 3 ->
  reshape_O4 N nx ((((i * N + j) * N + k) * N + l) * 81 + (a * 27 + b * 9 + c * 3 + d)) x
  = (((3 * j + b) * (3 * N) + (3 * k + c)) * (3 * N) + (3 * l + d), (3 * i + a) * nx + x).
Proof. exact (reshape_O4_spec N nx i j k l a b c d x). Qed.
Print Assumptions c05_reshape_O4.

(** Taylor prefactors -1/(m-1)! in every solver file. *)
Theorem c05_taylor_consts : taylor_ok = true.
Proof. exact taylor_consts_ok. Qed.

(** Structure read off the source: compact matrices handed to the solvers are fresh, scaled in place by
    the Taylor constant and restored; fc = comp @ (basis @ coefs); coefficient blocks are split in the
    order they were stacked. *)
Theorem c05_structure :
  compact_matrix_is_fresh_and_scaled_by_inv_sqrt_nlp = true /\ recover_fcs_is_comp_times_basis_times_coefs = true /\
  inplace_scaling_only_on_fresh_compact_matrices_and_restored = true /\ compress_is_cpt_times_crpt = true.
Proof. repeat split; reflexivity. Qed.

(** The design blocks as the source builds them (regenerated: gen/DesignGen.v): which displacement product every
    solver multiplies with which reshaped, row-gathered compact matrix. *)
Theorem c05_design_in_force :
  design_kinds =
  [((2, "O2"%string), DLinear); ((3, "O3"%string), DKron2); ((4, "O4"%string), DKron3);
   ((2, "O2O3"%string), DLinear); ((3, "O2O3"%string), DKron2);
   ((3, "O3O4"%string), DKron2); ((4, "O3O4"%string), DKron3From2);
   ((2, "O2O3O4"%string), DLinear); ((3, "O2O3O4"%string), DKron2); ((4, "O2O3O4"%string), DKron3From2)].
Proof. reflexivity. Qed.

(** "Row of X = Taylor force": entry ((3 i + a) nx + x) of  D_n(u) @ reshape_n(compact[decompr_idx])  is the
    contraction of column x of the compact matrix -- row addressed through atomic_decompr_idx, first atom
    begin_i + i, first Cartesian index a -- with n-1 copies of the displacement vector u.  For every N, nx, u, every
    entry list of the compact matrix, every index table and batch start. *)
Theorem c05_design_row_O2 N nx (u : Z -> R) aidx begin_i Mc (nrows : nat) i a x :
  0 < N -> Forall (fun e => 0 <= ecol e < nx) Mc -> 0 <= x < nx -> 0 <= a < 3 ->
  dense_times_coo u (reshape_entries (reshape_O2 N nx) (gather nrows (gather_row 9 N aidx begin_i) Mc)) ((3 * i + a) * nx + x)
  = rsumf (fun r => if (d2_i N r =? i) && (d2_a r =? a) then
             (u (3 * d2_j N r + d2_b r)%Z *
              rsumf (fun e => if (erow e =? gather_row 9 N aidx begin_i r) && (ecol e =? x) then eval e else 0%R) Mc)%R
           else 0%R) (zrange nrows).
Proof. intros HN Hc. exact (taylor_row_O2 N nx u aidx begin_i Mc HN Hc nrows i a x). Qed.
Print Assumptions c05_design_row_O2.

Theorem c05_design_row_O3 N nx (u : Z -> R) aidx begin_i Mc (nrows : nat) i a x :
  0 < N -> Forall (fun e => 0 <= ecol e < nx) Mc -> 0 <= x < nx -> 0 <= a < 3 ->
  dense_times_coo (disps_2nd (3 * N) u) (reshape_entries (reshape_O3 N nx) (gather nrows (gather_row 27 (N * N) aidx begin_i) Mc)) ((3 * i + a) * nx + x)
  = rsumf (fun r => if (d3_i N r =? i) && (d3_a r =? a) then
             (u (3 * d3_j N r + d3_b r)%Z * u (3 * d3_k N r + d3_c r)%Z *
              rsumf (fun e => if (erow e =? gather_row 27 (N * N) aidx begin_i r) && (ecol e =? x) then eval e else 0%R) Mc)%R
           else 0%R) (zrange nrows).
Proof. intros HN Hc. exact (taylor_row_O3 N nx u aidx begin_i Mc HN Hc nrows i a x). Qed.
Print Assumptions c05_design_row_O3.

Theorem c05_design_row_O4 N nx (u : Z -> R) aidx begin_i Mc (nrows : nat) i a x :
  0 < N -> Forall (fun e => 0 <= ecol e < nx) Mc -> 0 <= x < nx -> 0 <= a < 3 ->
  dense_times_coo (disps_3rd (3 * N) u) (reshape_entries (reshape_O4 N nx) (gather nrows (gather_row 81 (N * N * N) aidx begin_i) Mc)) ((3 * i + a) * nx + x)
  = rsumf (fun r => if (d4_i N r =? i) && (d4_a r =? a) then
             (u (3 * d4_j N r + d4_b r)%Z * u (3 * d4_k N r + d4_c r)%Z * u (3 * d4_l N r + d4_d r)%Z *
              rsumf (fun e => if (erow e =? gather_row 81 (N * N * N) aidx begin_i r) && (ecol e =? x) then eval e else 0%R) Mc)%R
           else 0%R) (zrange nrows).
Proof. intros HN Hc. exact (taylor_row_O4 N nx u aidx begin_i Mc HN Hc nrows i a x). Qed.
Print Assumptions c05_design_row_O4.

(** ... and the compact row it reads is the one of the canonical translate: with an index table that holds the class code of
    every atom tuple (what AtomIdx.atomic_table_is_cls_code / C08 prove of `atomic_decompr_idx`), gathered row
    ((i' N + j) N + k) 27 + abc is compact row  code(begin_i + i', j, k) * 27 + abc. *)
Theorem c05_gathered_row_is_canonical_translate_O3 N (code3 : Z -> Z -> Z -> Z) (aidx : Z -> Z) begin_i i' j k abc :
  0 < N -> (forall i j k, 0 <= i -> 0 <= j < N -> 0 <= k < N -> aidx ((i * N + j) * N + k) = code3 i j k) ->
  0 <= begin_i -> 0 <= i' -> 0 <= j < N -> 0 <= k < N -> 0 <= abc < 27 ->
  gather_row 27 (N * N) aidx begin_i (((i' * N + j) * N + k) * 27 + abc) = code3 (begin_i + i') j k * 27 + abc.
Proof. intros HN H. exact (gather_row_O3 N code3 aidx H begin_i i' j k abc). Qed.
Print Assumptions c05_gathered_row_is_canonical_translate_O3.

(** the (3,4) and (2,3,4) solvers build the third-order products from the second-order ones: same numbers *)
Theorem c05_kron_variants_agree N3 (u : Z -> R) r : 0 < N3 -> disps_3rd_from_2nd N3 (disps_2nd N3 u) u r = disps_3rd N3 u r.
Proof. exact (disps_3rd_from_2nd_eq N3 u r). Qed.
Print Assumptions c05_kron_variants_agree.

(** the flat row index of the gathered matrix decodes to (first atom, other atoms, Cartesian digits): non-vacuity *)
Example c05_decode3_ex : d3_i 4 ((((2 * 4 + 1) * 4 + 3) * 27) + (1 * 9 + 2 * 3 + 0)) = 2 /\ d3_j 4 ((((2 * 4 + 1) * 4 + 3) * 27) + 15) = 1
  /\ d3_k 4 ((((2 * 4 + 1) * 4 + 3) * 27) + 15) = 3 /\ d3_a 1068 = 1 /\ d3_b 1068 = 2 /\ d3_c 1068 = 0.
Proof. repeat split; reflexivity. Qed.

(** If the design map is injective and the data are exactly X c*, the normal equations have c* as
    their only solution. *)
Theorem c05_recovers_truth (C O : IPS) (X : C -> O) :
  (forall c d, X (vadd c d) = vadd (X c) (X d)) -> (forall a c, X (vscale a c) = vscale a (X c)) ->
  (forall d, X d = vzero -> d = vzero) ->
  forall cstar c, normal_eq C O X (X cstar) c -> c = cstar.
Proof.
  intros Ha Hs Hinj cstar c Hn. apply (minimiser_unique C O X Ha Hs (X cstar) c cstar Hinj Hn).
  intro d. unfold resid.
  assert (E : vsub (X cstar) (X cstar) = vzero) by (unfold vsub; apply vadd_neg).
  rewrite E. apply ip_zero_r.
Qed.
Print Assumptions c05_recovers_truth.

(** The same at the level of the property's statement: forces produced exactly by an ADMISSIBLE TENSOR phi0 (y = D phi0), E the
    expansion onto the admissible space (C04), snapshots that determine the fit (X = D o E injective): every solution of the normal
    equations expands to phi0. *)
From SymfcV Require Admissible.
Theorem c05_admissible_tensor_recovered (C F O : IPS) (E : C -> F) (D : F -> O) (Adm : F -> Prop) :
  (forall c d, E (vadd c d) = vadd (E c) (E d)) -> (forall a c, E (vscale a c) = vscale a (E c)) ->
  (forall p q, D (vadd p q) = vadd (D p) (D q)) -> (forall a p, D (vscale a p) = vscale a (D p)) ->
  (forall phi, Adm phi <-> exists c, phi = E c) ->
  (forall d, Admissible.Xd C F O E D d = vzero -> d = vzero) ->
  forall phi0 c, Adm phi0 -> normal_eq C O (Admissible.Xd C F O E D) (D phi0) c -> E c = phi0.
Proof.
  intros Ea Es Da Ds Hs Hinj phi0 c Hadm Hn.
  exact (Admissible.exact_data_recovered C F O E D Adm Ea Es Da Ds Hs (D phi0) Hinj phi0 c Hadm eq_refl Hn).
Qed.
Print Assumptions c05_admissible_tensor_recovered.

(** The remaining source this property rests on is the recorded one (the six solver modules and solver_funcs): whole-function match,
    regenerated on every run (closes the gap between "the expected statements are present" and "nothing else was added"). *)
From SymfcG Require Import ShapesSolvers.
Theorem c05_recorded_sources2_in_force : ShapesSolvers_as_recorded = true.
Proof. repeat split; reflexivity. Qed.

(** What the modules on this property's path consist of besides the function bodies is the recorded one: every signature with its
    defaults and keyword-only arguments, decorators, class bases, method lists and module-level statements (imports, constants) --
    regenerated on every run. *)
From SymfcG Require Import SkelSolvers.
Theorem c05_module_skeletons_in_force : SkelSolvers_as_recorded = true.
Proof. repeat split; reflexivity. Qed.

(** The Symfc facade (the entry point through which every returned force constant and basis set of this property is obtained) is the
    recorded source: whole-function and skeleton match, regenerated on every run. *)
From SymfcG Require Import ShapesApi SkelApi.
Theorem c05_facade_in_force : ShapesApi_as_recorded = true /\ SkelApi_as_recorded = true.
Proof. repeat split; reflexivity. Qed.

(** The rest of the code path of this property's statement (exact recovery needs the complete basis: every stage of the basis construction) is the recorded source: whole-function / skeleton match,
    regenerated on every run. *)
From SymfcG Require Import ShapesCombos ShapesPerm ShapesCoset ShapesSumRule ShapesSpg ShapesReps ShapesBasis ShapesO1 ShapesAuxO1 ShapesAuxEig ShapesAuxBatch ShapesGeom ShapesAuxCut SkelSpg SkelBasis SkelEig SkelMat SkelPerm SkelIdx SkelCut.
Theorem c05_code_path_in_force : ShapesCombos_as_recorded = true /\ ShapesPerm_as_recorded = true /\ ShapesCoset_as_recorded = true /\ ShapesSumRule_as_recorded = true /\ ShapesSpg_as_recorded = true /\ ShapesReps_as_recorded = true /\ ShapesBasis_as_recorded = true /\ ShapesO1_as_recorded = true /\ ShapesAuxO1_as_recorded = true /\ ShapesAuxEig_as_recorded = true /\ ShapesAuxBatch_as_recorded = true /\ ShapesGeom_as_recorded = true /\ ShapesAuxCut_as_recorded = true /\ SkelSpg_as_recorded = true /\ SkelBasis_as_recorded = true /\ SkelEig_as_recorded = true /\ SkelMat_as_recorded = true /\ SkelPerm_as_recorded = true /\ SkelIdx_as_recorded = true /\ SkelCut_as_recorded = true.
Proof. repeat split; reflexivity. Qed.
