(** C05 — noise-free data from admissible force constants are recovered exactly (index/layout part). *)
From Coq Require Import ZArith List QArith.
From SymfcV Require Import Reshape SolverModel IPS.
From SymfcG Require Import ReshapeGen SolverStruct.
Open Scope Z_scope.

(** The regenerated reshape chains place the compact compression-matrix entry of element
    (i, j.., a, b..) and column x at row = flat (3j+b, ...) index of the displacement product and column
    (3i+a)*nx + x, for all N, nx (no bound). *)
Theorem c05_reshape_O2 N nx i j a b x :
  0 < N -> 0 <= j < N -> 0 <= a < 3 -> 0 <= b < 3 ->
  reshape_O2 N nx ((i * N + j) * 9 + (a * 3 + b)) x = (3 * j + b, (3 * i + a) * nx + x).
Proof. exact (reshape_O2_spec N nx i j a b x). Qed.
Print Assumptions c05_reshape_O2.

Theorem c05_reshape_O3 N nx i j k a b c x :
  0 < N -> 0 <= j < N -> 0 <= k < N -> 0 <= a < 3 -> 0 <= b < 3 -> 0 <= c < 3 ->
  reshape_O3 N nx (((i * N + j) * N + k) * 27 + (a * 9 + b * 3 + c)) x
  = ((3 * j + b) * (3 * N) + (3 * k + c), (3 * i + a) * nx + x).
Proof. exact (reshape_O3_spec N nx i j k a b c x). Qed.
Print Assumptions c05_reshape_O3.

Theorem c05_reshape_O4 N nx i j k l a b c d x :
  0 < N -> 0 <= j < N -> 0 <= k < N -> 0 <= l < N -> 0 <= a < 3 -> 0 <= b < 3 -> 0 <= c < 3 -> 0 <= d < 3 ->
  reshape_O4 N nx ((((i * N + j) * N + k) * N + l) * 81 + (a * 27 + b * 9 + c * 3 + d)) x
  = (((3 * j + b) * (3 * N) + (3 * k + c)) * (3 * N) + (3 * l + d), (3 * i + a) * nx + x).
Proof. exact (reshape_O4_spec N nx i j k l a b c d x). Qed.
Print Assumptions c05_reshape_O4.

(** Taylor prefactors -1/(m-1)! in every solver file. *)
Theorem c05_taylor_consts : taylor_ok = true.
Proof. exact taylor_consts_ok. Qed.

(** Structure read off the source: compact matrices handed to the solvers are fresh, scaled in place by
    the Taylor constant and restored; fc = comp @ (basis @ coefs); coefficient blocks are split in the
    order they were stacked. *)
Theorem c05_structure :
  compact_matrix_is_fresh_and_scaled_by_inv_sqrt_nlp = true /\ recover_fcs_is_comp_times_basis_times_coefs = true /\
  inplace_scaling_only_on_fresh_compact_matrices_and_restored = true /\ compress_is_cpt_times_crpt = true.
Proof. repeat split; reflexivity. Qed.

(** If the design map is injective and the data are exactly X c*, the normal equations have c* as
    their only solution. *)
Theorem c05_recovers_truth (C O : IPS) (X : C -> O) :
  (forall c d, X (vadd c d) = vadd (X c) (X d)) -> (forall a c, X (vscale a c) = vscale a (X c)) ->
  (forall d, X d = vzero -> d = vzero) ->
  forall cstar c, normal_eq C O X (X cstar) c -> c = cstar.
Proof.
  intros Ha Hs Hinj cstar c Hn. apply (minimiser_unique C O X Ha Hs (X cstar) c cstar Hinj Hn).
  intro d. unfold resid.
  assert (E : vsub (X cstar) (X cstar) = vzero) by (unfold vsub; apply vadd_neg).
  rewrite E. apply ip_zero_r.
Qed.
Print Assumptions c05_recovers_truth.
