(** C11 (batching part) — the translated get_batch_slice partitions the data for every size. *)
From Coq Require Import ZArith List.
Import ListNotations.
From SymfcV Require Import PyPrelude Batch.
From SymfcG Require Import BatchGen.
Open Scope Z_scope.

Theorem c11_batch_slice_partition n b :
  0 <= n -> 0 < b -> exists bs es, get_batch_slice n b = Ok (bs, es) /\ slices_spec n b bs es.
Proof. exact (get_batch_slice_spec n b). Qed.
Print Assumptions c11_batch_slice_partition.

Theorem c11_batches_concat {A} (l : list A) b :
  0 < b -> exists bs es, get_batch_slice (Z.of_nat (length l)) b = Ok (bs, es) /\ concat (batches l bs es) = l.
Proof. exact (batches_concat l b). Qed.
Print Assumptions c11_batches_concat.

Theorem c11_batch_zero_is_error n : get_batch_slice n 0 = Err ValueError.
Proof. exact (get_batch_slice_zero n). Qed.
