(** C15 — projector eigen-solvers return an orthonormal basis of the unit eigenspace. *)
From Coq Require Import Reals.
From SymfcV Require Import IPS EigModel.
From SymfcG Require Import EigStruct.
Open Scope R_scope.

(** Obligations on the regenerated structure of eig_tools.py: 1x1 blocks are kept iff their entry is 1;
    sub-blocks skipped by the block-divided solver contribute their coordinates to the complement. *)
Theorem c15_in_force : one_by_one_rule = KeepIfOne /\ skipped_subblock_in_complement = true /\
                       unit_selection_is_isclose_one_with_window_check = true.
Proof. repeat split; reflexivity. Qed.

Theorem c15_one_by_one m : keep_1x1 one_by_one_rule m <-> m * 1 = 1.
Proof. destruct c15_in_force as [-> _]. exact (one_by_one_rule_correct m). Qed.
Print Assumptions c15_one_by_one.

Theorem c15_one_by_one_nonzero_rule_refuted : exists m, 0 <= m <= 1 /\ keep_1x1 KeepIfNonzero m /\ m * 1 <> 1.
Proof. exact one_by_one_nonzero_rule_refuted. Qed.

(** Block structure: for a block-diagonal matrix the unit eigenvectors are exactly the vectors whose
    block components are unit eigenvectors of the blocks (so solving block by block, in any order, with
    repeated blocks solved once, loses and adds nothing). *)
Theorem c15_blocks (W W1 W2 : IPS) (J1 : W1 -> W) (J1t : W -> W1) (J2 : W2 -> W) (J2t : W -> W2) (M : W -> W) (M1 : W1 -> W1) (M2 : W2 -> W2) :
  (forall x y, ip (J1 x) (J1 y) = ip x y) -> (forall x y, ip (J2 x) (J2 y) = ip x y) ->
  (forall x w, ip (J1 x) w = ip x (J1t w)) -> (forall x w, ip (J2 x) w = ip x (J2t w)) ->
  (forall x y, ip (J1 x) (J2 y) = 0) -> (forall w, w = vadd (J1 (J1t w)) (J2 (J2t w))) ->
  (forall x, M (J1 x) = J1 (M1 x)) -> (forall y, M (J2 y) = J2 (M2 y)) ->
  (forall x y, M (vadd x y) = vadd (M x) (M y)) ->
  forall v, M v = v <-> M1 (J1t v) = J1t v /\ M2 (J2t v) = J2t v.
Proof. exact (block_unit_eigenvectors W W1 W2 J1 J1t J2 J2t M M1 M2). Qed.
Print Assumptions c15_blocks.

(** Principal sub-blocks: a unit eigenvector of J^T M J lifts to a unit eigenvector of M (0 <= M <= I). *)
Theorem c15_subblock_lift (S W : IPS) (J : S -> W) (Jt : W -> S) (M : W -> W) :
  (forall x y, ip (J x) (J y) = ip x y) -> (forall x w, ip (J x) w = ip x (Jt w)) ->
  (forall x y, M (vadd x y) = vadd (M x) (M y)) -> (forall a x, M (vscale a x) = vscale a (M x)) ->
  (forall x y, ip (M x) y = ip x (M y)) -> (forall x, ip x (M x) <= ip x x) ->
  forall w, Jt (M (J w)) = w -> M (J w) = J w.
Proof. exact (subblock_unit_vectors_lift S W J Jt M). Qed.
Print Assumptions c15_subblock_lift.

(** Complement step of the block-divided solver: when found vectors and complement columns together
    form a complete orthonormal system, the remaining unit eigenvectors are exactly K z with
    (K^T M K) z = z. *)
Theorem c15_complement (W F K : IPS) (Fm : F -> W) (Fmt : W -> F) (Km : K -> W) (Kmt : W -> K) (M : W -> W) :
  (forall x y, ip (Km x) (Km y) = ip x y) -> (forall x w, ip (Km x) w = ip x (Kmt w)) ->
  (forall x w, ip (Fm x) w = ip x (Fmt w)) -> (forall x y, ip (Fm x) (Km y) = 0) ->
  (forall w, w = vadd (Fm (Fmt w)) (Km (Kmt w))) ->
  (forall x y, M (vadd x y) = vadd (M x) (M y)) -> (forall a x, M (vscale a x) = vscale a (M x)) ->
  (forall x y, ip (M x) y = ip x (M y)) -> (forall x, ip x (M x) <= ip x x) ->
  forall v, (M v = v /\ Fmt v = vzero) <-> exists z, v = Km z /\ Kmt (M (Km z)) = z.
Proof. exact (complement_complete W F K Fm Fmt Km Kmt M). Qed.
Print Assumptions c15_complement.

(** Trace and rank: with the spectrum in [0,1] the number of unit eigenvalues is at most the trace, with equality exactly for projectors;
    a block can have trace 1 and no unit eigenvalue, so round(trace) bounds the dimension of the unit eigenspace but does not give it
    (the eigen-solvers use it only as a bound / early exit for trace 0; the selection itself is by eigenvalue). *)
From Coq Require Import List.
From SymfcV Require Import TraceRank.
Theorem c15_unit_count_le_trace l : Forall (fun x => 0 <= x <= 1) l -> INR (count1 l) <= tsum l.
Proof. exact (unit_count_le_trace l). Qed.
Print Assumptions c15_unit_count_le_trace.
Theorem c15_unit_count_eq_trace_iff_projector l :
  Forall (fun x => 0 <= x <= 1) l -> (INR (count1 l) = tsum l <-> Forall (fun x => x = 0 \/ x = 1) l).
Proof. exact (unit_count_eq_trace_iff_projector l). Qed.
Print Assumptions c15_unit_count_eq_trace_iff_projector.
Theorem c15_unit_trace_without_unit_eigenvalue :
  Forall (fun x => 0 <= x <= 1) (3 / 4 :: 1 / 4 :: nil) /\ tsum (3 / 4 :: 1 / 4 :: nil) = 1 /\ count1 (3 / 4 :: 1 / 4 :: nil) = O.
Proof. exact unit_trace_without_unit_eigenvalue. Qed.

(** Auxiliary code on this property's path is the recorded source (the CSR block container DataCSR and the block extraction of the eigen-solvers):
    whole-function match, regenerated on every run. *)
From SymfcG Require Import ShapesAuxEig.
Theorem c15_recorded_sources3_in_force : ShapesAuxEig_as_recorded = true.
Proof. repeat split; reflexivity. Qed.

(** What the modules on this property's path consist of besides the function bodies is the recorded one: every signature with its
    defaults and keyword-only arguments, decorators, class bases, method lists and module-level statements (imports, constants) --
    regenerated on every run. *)
From SymfcG Require Import SkelEig.
Theorem c15_module_skeletons_in_force : SkelEig_as_recorded = true.
Proof. repeat split; reflexivity. Qed.
