(** C06 — the fit is the least-squares minimiser over the admissible space. *)
From Coq Require Import Reals ZArith List.
Import ListNotations.
From SymfcV Require Import PyPrelude IPS SolverModel Batch.
From SymfcG Require Import BatchGen SolverStruct.
Open Scope R_scope.

(** The source checks the LAPACK status.  (With the status ignored the returned vector need not solve
    the system: [c06_ignored_info_refuted].) *)
Theorem c06_in_force : posv_info_checked = true.
Proof. reflexivity. Qed.

(** Coefficients returned by the checking solve_linear_equation satisfy A x = b, whatever the data;
    the only assumption on LAPACK is: info = 0 -> A x = b. *)
Theorem c06_returned_coefs_solve_system (Vc : IPS) (posv : (Vc -> Vc) -> Vc -> Vc * Z) :
  (forall A b x, posv A b = (x, 0%Z) -> A x = b) ->
  forall A b x, solve_lin Vc posv posv_info_checked A b = Ok x -> A x = b.
Proof. intros H A b x. rewrite c06_in_force. exact (solve_lin_checked_sound Vc posv H A b x). Qed.
Print Assumptions c06_returned_coefs_solve_system.

Theorem c06_ignored_info_refuted :
  exists (posv : (R_ips -> R_ips) -> R_ips -> R_ips * Z),
    (forall A b x, posv A b = (x, 0%Z) -> A x = b) /\
    exists A b x, solve_lin R_ips posv false A b = Ok x /\ A x <> b.
Proof. exact solve_lin_unchecked_refuted. Qed.
Print Assumptions c06_ignored_info_refuted.

(** Normal equations <-> minimiser of the squared residual over all coefficient vectors (hence, by
    C04, over the admissible space), for arbitrary data. *)
Theorem c06_normal_eq_iff_minimiser (C O : IPS) (X : C -> O) :
  (forall c d, X (vadd c d) = vadd (X c) (X d)) -> (forall a c, X (vscale a c) = vscale a (X c)) ->
  forall y c, normal_eq C O X y c <-> minimiser C O X y c.
Proof. intros Ha Hs y c. exact (normal_eq_iff_minimiser C O X Ha Hs y c). Qed.
Print Assumptions c06_normal_eq_iff_minimiser.

(** From coefficients to tensors: with E the expansion onto the admissible space (C04: Adm phi <-> exists c, phi = E c), D the
    design on full tensors and X = D o E the matrix the solver accumulates, the returned coefficients solve the normal equations
    of X  <->  the returned TENSOR is admissible and no admissible tensor has a smaller residual.  Instance: Admissible.admissible_instance. *)
From SymfcV Require Admissible.
Theorem c06_fit_minimises_over_admissible_tensors (C F O : IPS) (E : C -> F) (D : F -> O) (Adm : F -> Prop) :
  (forall c d, E (vadd c d) = vadd (E c) (E d)) -> (forall a c, E (vscale a c) = vscale a (E c)) ->
  (forall p q, D (vadd p q) = vadd (D p) (D q)) -> (forall a p, D (vscale a p) = vscale a (D p)) ->
  (forall phi, Adm phi <-> exists c, phi = E c) ->
  forall y c, normal_eq C O (Admissible.Xd C F O E D) y c <->
              (Adm (E c) /\ forall phi, Adm phi -> Admissible.fcost F O D y (E c) <= Admissible.fcost F O D y phi)%R.
Proof. intros Ea Es Da Ds Hs y c. exact (Admissible.fit_minimises_over_admissible C F O E D Adm Ea Es Da Ds Hs y c). Qed.
Print Assumptions c06_fit_minimises_over_admissible_tensors.

(** Data that do not determine the fit: any two solutions of the normal equations predict the same forces and have the same
    residual, so whichever solution a solver returns is a minimiser (what "still returns a minimiser or fails loudly" allows). *)
Theorem c06_undetermined_fits_agree_on_forces (C F O : IPS) (E : C -> F) (D : F -> O) :
  (forall c d, E (vadd c d) = vadd (E c) (E d)) -> (forall a c, E (vscale a c) = vscale a (E c)) ->
  (forall p q, D (vadd p q) = vadd (D p) (D q)) -> (forall a p, D (vscale a p) = vscale a (D p)) ->
  forall y c c', normal_eq C O (Admissible.Xd C F O E D) y c -> normal_eq C O (Admissible.Xd C F O E D) y c' ->
    Admissible.Xd C F O E D c = Admissible.Xd C F O E D c' /\ Admissible.fcost F O D y (E c) = Admissible.fcost F O D y (E c').
Proof. intros Ea Es Da Ds y c c'. exact (Admissible.fitted_forces_unique C F O E D Ea Es Da Ds y c c'). Qed.
Print Assumptions c06_undetermined_fits_agree_on_forces.

(** The equations accumulated batch by batch (any snapshot batch size) are the equations of the whole
    dataset. *)
Theorem c06_gram_by_batches (C O : IPS) (Snap : Type) (Xs : Snap -> C -> O) ds ys c (b : Z) : (0 < b)%Z ->
  exists bs es, get_batch_slice (Z.of_nat (length ds)) b = Ok (bs, es) /\
    (normal_eqs C O Snap Xs ds ys c <->
     forall d, rsum (map (fun batch => rsum (map (term C O Snap Xs ys c d) batch)) (batches ds bs es)) = 0).
Proof. exact (normal_eqs_batches C O Snap Xs ds ys c b). Qed.
Print Assumptions c06_gram_by_batches.

(** The remaining source this property rests on is the recorded one (the six solver modules and solver_funcs): whole-function match,
    regenerated on every run (closes the gap between "the expected statements are present" and "nothing else was added"). *)
From SymfcG Require Import ShapesSolvers.
Theorem c06_recorded_sources2_in_force : ShapesSolvers_as_recorded = true.
Proof. repeat split; reflexivity. Qed.

(** What the modules on this property's path consist of besides the function bodies is the recorded one: every signature with its
    defaults and keyword-only arguments, decorators, class bases, method lists and module-level statements (imports, constants) --
    regenerated on every run. *)
From SymfcG Require Import SkelSolvers.
Theorem c06_module_skeletons_in_force : SkelSolvers_as_recorded = true.
Proof. repeat split; reflexivity. Qed.

(** The Symfc facade (the entry point through which every returned force constant and basis set of this property is obtained) is the
    recorded source: whole-function and skeleton match, regenerated on every run. *)
From SymfcG Require Import ShapesApi SkelApi.
Theorem c06_facade_in_force : ShapesApi_as_recorded = true /\ SkelApi_as_recorded = true.
Proof. repeat split; reflexivity. Qed.
