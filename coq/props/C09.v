(** C09 — basis vectors are orthonormal and compression is an isometry. *)
From Coq Require Import List Arith Reals Lra.
Import ListNotations.
From SymfcV Require Import Tuples Group Concrete IPS EigModel LabelMatrix.
From SymfcG Require Import IndepGen.
Open Scope R_scope.

(** C_trans: every translation class has exactly n_lp distinct members (free action), each carrying the
    entry 1/sqrt(n_lp): columns have disjoint supports (a tuple has one class) and unit norm. *)
Theorem c09_class_has_nlp_distinct_members N tp a :
  valid_tp N tp = true -> a <> [] -> in_range N a ->
  NoDup (map (fun t => shift (act tp) t a) (seq 0 (length tp))) /\
  length (map (fun t => shift (act tp) t a) (seq 0 (length tp))) = length tp.
Proof.
  intros Hv Hne Ha. split; [exact (class_translates_distinct N tp Hv a Hne Ha) | rewrite map_length, seq_length; reflexivity].
Qed.
Print Assumptions c09_class_has_nlp_distinct_members.

(** a column with k entries 1/sqrt(k) has unit norm (c_pt columns: k = orbit size; C_trans: k = n_lp) *)
Theorem c09_unit_norm_column (k : nat) : (0 < k)%nat -> INR k * (/ sqrt (INR k) * / sqrt (INR k)) = 1.
Proof.
  intros Hk. assert (Hp : 0 < INR k) by (apply lt_0_INR; exact Hk).
  rewrite <- Rinv_mult. rewrite sqrt_sqrt by lra. apply Rinv_r. lra.
Qed.
Print Assumptions c09_unit_norm_column.

(** isometries compose: F = C_trans . (c_pt c_rpt) . Z *)
Theorem c09_isometry_comp (A B C : IPS) (f : A -> B) (g : B -> C) :
  (forall x y, ip (f x) (f y) = ip x y) -> (forall x y, ip (g x) (g y) = ip x y) ->
  forall x y, ip (g (f x)) (g (f y)) = ip x y.
Proof. exact (isometry_comp A B C f g). Qed.
Print Assumptions c09_isometry_comp.

(** "coefficients are uniquely defined": a map preserving inner products is injective (no linearity needed), preserves distances,
    and its transpose recovers the coefficients.  Instance: IsoInj.iso_instance. *)
From SymfcV Require IsoInj.
Theorem c09_coefficients_unique (U W : IPS) (E : U -> W) :
  (forall x y, ip (E x) (E y) = ip x y) -> forall x y, E x = E y -> x = y.
Proof. exact (IsoInj.iso_injective U W E). Qed.
Print Assumptions c09_coefficients_unique.
Theorem c09_transpose_recovers_coefficients (U W : IPS) (E : U -> W) (Et : W -> U) :
  (forall x y, ip (E x) (E y) = ip x y) -> (forall x w, ip (E x) w = ip x (Et w)) -> forall x, Et (E x) = x.
Proof. intros Hi Ha. exact (IsoInj.transpose_recovers_coefficients U W E Hi Et Ha). Qed.
Print Assumptions c09_transpose_recovers_coefficients.

(** eigenvectors re-assembled from different blocks are orthogonal, and block-wise solving returns
    exactly the unit eigenvectors (so orthonormal block bases assemble to an orthonormal basis) *)
Theorem c09_block_assembly (W W1 W2 : IPS) (J1 : W1 -> W) (J1t : W -> W1) (J2 : W2 -> W) (J2t : W -> W2) (M : W -> W) (M1 : W1 -> W1) (M2 : W2 -> W2) :
  (forall x y, ip (J1 x) (J1 y) = ip x y) -> (forall x y, ip (J2 x) (J2 y) = ip x y) ->
  (forall x w, ip (J1 x) w = ip x (J1t w)) -> (forall x w, ip (J2 x) w = ip x (J2t w)) ->
  (forall x y, ip (J1 x) (J2 y) = 0) -> (forall w, w = vadd (J1 (J1t w)) (J2 (J2t w))) ->
  (forall x, M (J1 x) = J1 (M1 x)) -> (forall y, M (J2 y) = J2 (M2 y)) ->
  (forall x y, M (vadd x y) = vadd (M x) (M y)) ->
  forall v, M v = v <-> M1 (J1t v) = J1t v /\ M2 (J2t v) = J2t v.
Proof. exact (block_unit_eigenvectors W W1 W2 J1 J1t J2 J2t M M1 M2). Qed.

(** c_pt (labels = orbit of the element under index permutations and translations, None = eliminated by the
    cutoff) and C_trans (labels = translation class) are built from a labelling of their rows with entries
    1/sqrt(size of the label's fibre): such a matrix has orthonormal columns, whatever the row set and the labelling. *)
Theorem c09_label_matrix_columns_orthogonal (A : Type) (lab : A -> option nat) (E : list A) c c' :
  c <> c' -> rsuml A (fun e => entry A lab E e c * entry A lab E e c') E = 0.
Proof. exact (columns_orthogonal A lab E c c'). Qed.
Print Assumptions c09_label_matrix_columns_orthogonal.

Theorem c09_label_matrix_unit_columns (A : Type) (lab : A -> option nat) (E : list A) c :
  (0 < count A lab E c)%nat -> rsuml A (fun e => entry A lab E e c * entry A lab E e c) E = 1.
Proof. exact (column_unit_norm A lab E c). Qed.
Print Assumptions c09_label_matrix_unit_columns.

(** C_trans carries the constant 1/sqrt(n_lp): with every translation class of size n_lp (c09_class_has_nlp_distinct_members)
    its columns are orthonormal. *)
Theorem c09_uniform_label_matrix (A : Type) (lab : A -> option nat) (E : list A) (n : nat) c c' :
  (0 < n)%nat -> count A lab E c = n ->
  rsuml A (fun e => entry_const A lab n e c * entry_const A lab n e c) E = 1 /\
  (c <> c' -> rsuml A (fun e => entry_const A lab n e c * entry_const A lab n e c') E = 0).
Proof. intros Hn Hc. split; [exact (uniform_columns_unit A lab E n c Hc Hn) | exact (uniform_columns_orthogonal A lab E n c c')]. Qed.
Print Assumptions c09_uniform_label_matrix.

(** the builders of C_trans put exactly one entry 1/sqrt(n_lp) in every row, at the column given by the decompression
    indices (whole-function match, regenerated) *)
Theorem c09_c_trans_in_force : c_trans_is_constant_label_matrix = true.
Proof. reflexivity. Qed.

(** Hand-modelled code this property's model and correspondences were written against is unchanged (the first-order classes):
    whole-function match against the recorded source, regenerated on every run. *)
From SymfcG Require Import ShapesO1.
Theorem c09_recorded_sources_in_force : ShapesO1_as_recorded = true.
Proof. repeat split; reflexivity. Qed.

(** The remaining source this property rests on is the recorded one (the basis-set classes of orders 2-4): whole-function match,
    regenerated on every run (closes the gap between "the expected statements are present" and "nothing else was added"). *)
From SymfcG Require Import ShapesBasis.
Theorem c09_recorded_sources2_in_force : ShapesBasis_as_recorded = true.
Proof. repeat split; reflexivity. Qed.

(** Auxiliary code on this property's path is the recorded source (the accessors and base constructor of the first-order basis-set class and the first-order atomic index table; the CSR block container DataCSR and the block extraction of the eigen-solvers):
    whole-function match, regenerated on every run. *)
From SymfcG Require Import ShapesAuxO1 ShapesAuxEig.
Theorem c09_recorded_sources3_in_force : ShapesAuxO1_as_recorded = true /\ ShapesAuxEig_as_recorded = true.
Proof. repeat split; reflexivity. Qed.

(** What the modules on this property's path consist of besides the function bodies is the recorded one: every signature with its
    defaults and keyword-only arguments, decorators, class bases, method lists and module-level statements (imports, constants) --
    regenerated on every run. *)
From SymfcG Require Import SkelBasis SkelEig SkelIdx.
Theorem c09_module_skeletons_in_force : SkelBasis_as_recorded = true /\ SkelEig_as_recorded = true /\ SkelIdx_as_recorded = true.
Proof. repeat split; reflexivity. Qed.

(** Further recorded sources this property's statement depends on (orthonormality of the compression matrix rests on the orbit routines): whole-function / skeleton match, regenerated on every run. *)
From SymfcG Require Import ShapesPerm SkelPerm.
Theorem c09_recorded_sources4_in_force : ShapesPerm_as_recorded = true /\ SkelPerm_as_recorded = true.
Proof. repeat split; reflexivity. Qed.

(** The Symfc facade (the entry point through which every returned force constant and basis set of this property is obtained) is the
    recorded source: whole-function and skeleton match, regenerated on every run. *)
From SymfcG Require Import ShapesApi SkelApi.
Theorem c09_facade_in_force : ShapesApi_as_recorded = true /\ SkelApi_as_recorded = true.
Proof. repeat split; reflexivity. Qed.

(** Further code on this property's path (the translation table behind C_trans comes from the symmetry search) is the recorded source: whole-function / skeleton match, regenerated on every run. *)
From SymfcG Require Import ShapesSpg ShapesReps SkelSpg.
Theorem c09_code_path3_in_force : ShapesSpg_as_recorded = true /\ ShapesReps_as_recorded = true /\ SkelSpg_as_recorded = true.
Proof. repeat split; reflexivity. Qed.
