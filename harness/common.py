"""Shared machinery of the checks: translator + Coq build, obligations, cases evaluation inside Coq,
violation / known-finding protocol, evidence files."""
from __future__ import annotations

import fcntl
import hashlib
import json
import os
import re
import subprocess
import sys
import time

VERIF = os.path.dirname(os.path.dirname(os.path.abspath(__file__)))
REPO = os.environ.get("VERIF_REPO", "/repo")
COQ = os.path.join(VERIF, "coq")
COQFLAGS = ["-R", "theories", "SymfcV", "-R", "gen", "SymfcG", "-R", "props", "SymfcP"]
FORBIDDEN = re.compile(r"\b(Admitted|admit|Axiom|Axioms|Parameter|Parameters|Conjecture|Hypothesis|Variable|Variables|Unset\s+Guard|bypass_check|Admit\s+Obligations|type-in-type|impredicative-set)\b")

TRUSTED_BASE = [
    "Coq 8.16.1 kernel (coqc, vm_compute; no native_compute); coqchk in the thorough tier",
    "translator /verif/translator (Python ast -> gen/*.v), its recognised shapes (DESIGN.md 4.1)",
    "correspondence harness /verif/harness: generators, canonicalisers, numpy/scipy/spglib semantics",
    "modelled, not verified: LAPACK eigh/posv, BLAS/sparse products, IEEE rounding, np.isclose tolerances, spglib, thread scheduling",
]


class Lock:
    def __init__(self, name="build"):
        self.path = os.path.join(COQ, f".{name}.lock")

    def __enter__(self):
        self.f = open(self.path, "w")
        fcntl.flock(self.f, fcntl.LOCK_EX)
        return self

    def __exit__(self, *a):
        fcntl.flock(self.f, fcntl.LOCK_UN)
        self.f.close()


def sh(cmd, cwd=None, timeout=1800, env=None):
    p = subprocess.run(cmd, cwd=cwd, timeout=timeout, env=env, stdout=subprocess.PIPE, stderr=subprocess.STDOUT, text=True)
    return p.returncode, p.stdout


class Failure:
    """One thing that no longer checks.  kind: translator | coq | correspondence | oracle."""

    def __init__(self, kind, key, what, replay=None, has_input=False, seed=None):
        self.kind, self.key, self.what, self.replay, self.has_input, self.seed = kind, key, what, replay, has_input, seed

    def to_json(self):
        return {"kind": self.kind, "key": self.key, "what": self.what, "has_failing_input": self.has_input, "replay": self.replay}


class Ctx:
    def __init__(self, pid, tier, seed):
        self.pid, self.tier, self.seed = pid, tier, seed
        self.t0 = time.time()
        self.failures: list[Failure] = []
        self.evaluations = 0
        self.nontrivial = set()
        self.samples = []
        self.distribution = {}
        self.traces = 0
        self.obligations = 0
        self.discharged = 0
        self.axioms = {}
        self.theorems = []
        self.notes = []
        self.refuted = []
        self.translator_status = {}
        self.coq_ok = True
        self.assumptions = []

    # ----- bookkeeping helpers used by property modules
    def count(self, what, n=1):
        self.distribution[what] = self.distribution.get(what, 0) + n

    def case(self, descr, nontrivial=True):
        """Register one explored case; descr must be hashable/JSON-able and identify the case."""
        self.evaluations += 1
        if nontrivial:
            self.nontrivial.add(hashlib.sha1(json.dumps(descr, sort_keys=True, default=str).encode()).hexdigest())
        if len(self.samples) < 6:
            self.samples.append(descr)

    def fail(self, kind, key, what, replay=None, has_input=False):
        self.failures.append(Failure(kind, key, what, replay, has_input, seed=self.seed))

    @property
    def quick(self):
        return self.tier == "quick"

    def require(self, what, cond):
        """guard against a vacuous oracle (e.g. a harness bug swallowed by a handler meant for the implementation's errors)"""
        if not cond:
            self.fail("correspondence", f"{self.pid}/harness/vacuous", f"the harness did not exercise what it claims: {what}")

    def budget_left(self, total):
        return total - (time.time() - self.t0)


# --------------------------------------------------------------------------- translator + build
def run_translator(ctx: Ctx, units):
    rc, out = sh([sys.executable, os.path.join(VERIF, "translator", "translate.py"), "--repo", REPO], timeout=300)
    with open(os.path.join(COQ, "gen", "status.json")) as f:
        st = json.load(f)
    ctx.translator_status = {u: {k: st[u][k] for k in ("ok", "error", "sources")} for u in units if u in st}
    for u in units:
        if u not in st:
            ctx.fail("translator", f"{ctx.pid}/translator/{u}", f"translator unit {u} missing")
        elif not st[u]["ok"]:
            ctx.fail("translator", f"{ctx.pid}/translator/{u}", f"translator unit {u}: {st[u]['error']}")
    return st


def ensure_makefile():
    mk = os.path.join(COQ, "Makefile")
    cp = os.path.join(COQ, "_CoqProject")
    if not os.path.exists(mk) or os.path.getmtime(mk) < os.path.getmtime(cp):
        sh(["coq_makefile", "-f", "_CoqProject", "-o", "Makefile"], cwd=COQ)


def nearest_theorem(path, line):
    name = None
    try:
        with open(path) as f:
            for i, l in enumerate(f, 1):
                if i > line:
                    break
                m = re.match(r"\s*(Theorem|Lemma|Example|Corollary|Definition|Fixpoint)\s+([A-Za-z0-9_']+)", l)
                if m:
                    name = m.group(2)
    except OSError:
        pass
    return name


def build_props(ctx: Ctx, props_files, timeout=1500, extra=()):
    """(Re)build the .vo closure of the property files and re-check the property files themselves,
    collecting the Print Assumptions output.  Every obligation = one Theorem in a props file."""
    ensure_makefile()
    outputs = {}
    targets = [p[:-2] + ".vo" for p in props_files]
    for t in targets:
        try:
            os.remove(os.path.join(COQ, t))
        except FileNotFoundError:
            pass
    rc, out = sh(["timeout", str(timeout), "make", "-j16", "-k"] + targets + list(extra), cwd=COQ, timeout=timeout + 60)
    ctx.build_log = out[-6000:]
    for p in props_files:
        with open(os.path.join(COQ, p)) as f:
            src = f.read()
        thms = re.findall(r"^\s*Theorem\s+([A-Za-z0-9_']+)", src, flags=re.M)
        ctx.obligations += len(thms)
        ok = os.path.exists(os.path.join(COQ, p[:-2] + ".vo"))
        if ok:
            ctx.discharged += len(thms)
            ctx.theorems += thms
        else:
            ctx.coq_ok = False
    if rc != 0 or not ctx.coq_ok:
        ctx.coq_ok = False
        errs = re.findall(r'File "\./([^"]+)", line (\d+), characters [^\n]*\n(Error:?[^\n]*(?:\n(?!make|COQC|File)[^\n]*){0,12})', out)
        if not errs:
            ctx.fail("coq", f"{ctx.pid}/coq/build", "Coq build failed: " + out[-800:])
        for fpath, line, msg in errs[:5]:
            thm = nearest_theorem(os.path.join(COQ, fpath), int(line))
            ctx.fail("coq", f"{ctx.pid}/coq/{fpath}:{thm}", f"proof obligation no longer checks: {fpath}:{line} ({thm}): {' '.join(msg.split())[:400]}")
    # Print Assumptions blocks, in order of appearance after each props file compile
    closed = len(re.findall(r"Closed under the global context", out))
    ax_blocks, axioms, cur = [], set(), None
    for l in out.splitlines():
        if l.strip() == "Axioms:":
            cur = []
            ax_blocks.append(cur)
            continue
        if cur is None:
            continue
        if l.startswith(" ") or not l.strip():
            if not l.strip():
                cur = None
            continue
        m = re.match(r"^([A-Za-z_][A-Za-z0-9_.']*)\s*(:|$)", l)
        if m and not l.startswith(("Closed under", "COQ", "File ", "make", "Warning", "Error")):
            cur.append(m.group(1))
            axioms.add(m.group(1))
        else:
            cur = None
    ctx.axioms = {"closed_theorems": closed, "theorems_with_axioms": len(ax_blocks), "axioms": sorted(axioms)}
    if ctx.tier == "thorough" and ctx.coq_ok:
        mods = ["SymfcP." + os.path.basename(p)[:-2] for p in props_files]
        rc2, out2 = sh(["timeout", "1500", "coqchk", "-silent", "-o"] + COQFLAGS + mods, cwd=COQ, timeout=1600)
        m = re.search(r"\* Axioms:(.*?)\n\s*\n\* Constants/Inductives relying on type-in-type:(.*?)\n\s*\n\* Constants/Inductives relying on unsafe \(co\)fixpoints:(.*?)\n\s*\n\* Inductives whose positivity is assumed:(.*?)\n", out2 + "\n\n", flags=re.S)
        if rc2 != 0 or not m:
            ctx.fail("coq", f"{ctx.pid}/coq/coqchk", "coqchk did not accept the compiled closure: " + out2[-600:])
        else:
            ax = [l.strip() for l in m.group(1).splitlines() if l.strip() and l.strip() != "<none>"]
            ctx.axioms["coqchk"] = {"axioms": ax, "type_in_type": m.group(2).strip(), "unsafe_fixpoints": m.group(3).strip(), "assumed_positivity": m.group(4).strip()}
            if any(x != "<none>" for x in (m.group(2).strip(), m.group(3).strip(), m.group(4).strip())):
                ctx.fail("coq", f"{ctx.pid}/coq/coqchk", "coqchk reports disabled kernel checks: " + out2[-400:])
    return out


def grep_forbidden(ctx: Ctx):
    bad = []
    for d in ("theories", "props", "gen"):
        dd = os.path.join(COQ, d)
        for fn in sorted(os.listdir(dd)):
            if not fn.endswith(".v"):
                continue
            with open(os.path.join(dd, fn)) as f:
                txt = f.read()
            txt = re.sub(r"\(\*.*?\*\)", "", txt, flags=re.S)
            # Section variables are allowed only inside Sections: count Section/End balance per line
            depth = 0
            for i, l in enumerate(txt.splitlines(), 1):
                if re.match(r"\s*Section\b", l):
                    depth += 1
                if re.match(r"\s*End\b", l) and depth > 0:
                    depth -= 1
                for m in FORBIDDEN.finditer(l):
                    w = m.group(1)
                    if w in ("Variable", "Variables", "Hypothesis") and depth > 0:
                        continue
                    bad.append(f"{d}/{fn}:{i}:{w}")
    if bad:
        ctx.fail("coq", f"{ctx.pid}/coq/forbidden", "forbidden declarations: " + ", ".join(bad[:10]))
    return bad


# --------------------------------------------------------------------------- evaluating the model inside Coq
def coq_eval(name, imports, body_lines, exprs, timeout=900):
    """Write coq/cases/<name>.v evaluating each expr with vm_compute; return list of raw result strings."""
    os.makedirs(os.path.join(COQ, "cases"), exist_ok=True)
    path = os.path.join(COQ, "cases", name + ".v")
    with open(path, "w") as f:
        f.write("From Coq Require Import ZArith List Bool.\nImport ListNotations.\n")
        for imp in imports:
            f.write(imp + "\n")
        f.write("Open Scope Z_scope.\n")
        for l in body_lines:
            f.write(l + "\n")
        for i, e in enumerate(exprs):
            f.write(f'Definition verif_res_{i} := Eval vm_compute in ({e}).\nPrint verif_res_{i}.\n')
    rc, out = sh(["bash", "-c", "ulimit -s unlimited 2>/dev/null; exec timeout %d coqc %s %s" % (timeout, " ".join(COQFLAGS), os.path.join("cases", name + ".v"))],
                 cwd=COQ, timeout=timeout + 30)
    if rc != 0:
        raise RuntimeError(f"coqc failed on cases/{name}.v: {out[-1500:]}")
    res = []
    for i in range(len(exprs)):
        m = re.search(rf"verif_res_{i}\s*=\s*(.*?)\n\s*:\s", out, flags=re.S)
        if not m:
            raise RuntimeError(f"cannot parse result {i} of cases/{name}.v: {out[-800:]}")
        res.append(" ".join(m.group(1).split()))
    return res


def try_coq(ctx, key, fn):
    """Run a model-vs-implementation comparison that needs the Coq model.  When the model cannot be
    evaluated: if the build already failed that failure is on record; otherwise record this one."""
    try:
        return fn()
    except Exception as e:  # noqa: BLE001
        if ctx.coq_ok:
            ctx.fail("correspondence", key, f"the Coq model could not be evaluated: {type(e).__name__}: {str(e)[:800]}")
        else:
            ctx.notes.append(f"{key}: model comparison skipped because the Coq build failed")
        return None


def parse_bools(s):
    return [t == "true" for t in re.findall(r"\b(true|false)\b", s)]


def parse_ints(s):
    return [int(t) for t in re.findall(r"-?\d+", s.replace("%Z", "").replace("%nat", "").replace("%N", ""))]


def zl(xs):
    return "[" + "; ".join((f"({int(x)})" if int(x) < 0 else str(int(x))) for x in xs) + "]"


def zll(xss):
    return "[" + "; ".join(zl(xs) for xs in xss) + "]"


def natl(xs):
    return "[" + "; ".join(str(int(x)) for x in xs) + "]%nat"


def natll(xss):
    return "[" + "; ".join("[" + "; ".join(str(int(x)) for x in xs) + "]" for xs in xss) + "]%nat"


# --------------------------------------------------------------------------- verdict, evidence
def load_known():
    p = os.path.join(VERIF, "known_findings.json")
    if not os.path.exists(p):
        return []
    with open(p) as f:
        return json.load(f).get("findings", [])


def finish(ctx: Ctx, level="proof", extra_cov=None, assumptions=None):
    import shutil
    known = [k for k in load_known() if k.get("property") == ctx.pid and k.get("status") == "known"]
    known_keys = {k["key"]: k for k in known}
    violations, known_hit = [], {}
    for f in ctx.failures:
        if f.key in known_keys:
            known_hit[f.key] = known_keys[f.key]
        else:
            violations.append(f)
    shutil.rmtree(os.path.join(VERIF, "replays", ctx.pid), ignore_errors=True)
    os.makedirs(os.path.join(VERIF, "replays", ctx.pid), exist_ok=True)
    for key, k in known_hit.items():
        print(f"KNOWN-FINDING: property={ctx.pid} {k['what']} [{key}]")
    lines = []
    if violations:
        with_input = [f for f in violations if f.has_input]
        without = [f for f in violations if not f.has_input]
        for f in (with_input or [])[:5]:
            h = hashlib.sha1((f.key + f.what).encode()).hexdigest()[:12]
            path = os.path.join(VERIF, "replays", ctx.pid, h + ".json")
            with open(path, "w") as fh:
                json.dump({"property": ctx.pid, "seed": f.seed if f.seed is not None else ctx.seed, "tier": ctx.tier, **f.to_json(),
                           "also_broken": [w.to_json() for w in without][:10]}, fh, indent=1, default=str)
            lines.append(f"VIOLATION property={ctx.pid} replay={path}")
        if not with_input:
            h = hashlib.sha1("".join(f.key for f in without).encode()).hexdigest()[:12]
            path = os.path.join(VERIF, "replays", ctx.pid, h + ".json")
            with open(path, "w") as fh:
                json.dump({"property": ctx.pid, "seed": ctx.seed0 if hasattr(ctx, "seed0") else ctx.seed, "tier": ctx.tier,
                           "no_longer_checks": [w.to_json() for w in without][:20],
                           "note": "no failing input was found by the search; the named theorem / translator unit / correspondence no longer checks"},
                          fh, indent=1, default=str)
            lines.append(f"VIOLATION property={ctx.pid} replay={path} no-failing-input-found")
    for l in lines:
        print(l)
    cov = {
        "obligations": ctx.obligations,
        "discharged": ctx.discharged,
        "checker_cmd": "make -C /verif/coq <props>.vo (coqc 8.16.1, full .vo build) ; grep for Admitted/Axiom/...; Print Assumptions under every property theorem",
        "trusted_base": TRUSTED_BASE + [f"axioms reported by Print Assumptions: {ctx.axioms.get('axioms') or 'none (closed under the global context)'}"],
        "theorems": ctx.theorems,
        "print_assumptions": ctx.axioms,
        "translator_units": ctx.translator_status,
        "evaluations": ctx.evaluations,
        "distinct_nontrivial": len(ctx.nontrivial),
        "rule": getattr(ctx, "rule", "cases = inputs on which model and implementation were compared or the property's oracle was evaluated on implementation output; distinct by SHA-1 of the case description; non-trivial = exercises the property (see samples)"),
        "samples": ctx.samples[:6] or [{"note": "no dynamic cases in this run"}],
        "traces_validated_against_impl": ctx.traces,
        "input_distribution": ctx.distribution,
        "refuted_theorems_about_old_variants": ctx.refuted,
        "known_findings_hit": sorted(known_hit),
        "failures": [_slim(f.to_json()) for f in ctx.failures][:20],
        "notes": ctx.notes,
    }
    if ctx.discharged == 0 or ctx.obligations == 0:
        # schema: the proof keys must be >= 1 when present; a run whose build failed reports them under other names
        cov["obligations_total"] = cov.pop("obligations")
        cov["obligations_discharged"] = cov.pop("discharged")
        cov["evaluations"] = max(cov["evaluations"], 1)
    if extra_cov:
        cov.update(extra_cov)
    ev = {
        "property_id": ctx.pid,
        "tier": ctx.tier,
        "seed": int(getattr(ctx, "seed0", ctx.seed)),
        "level": level,
        "coverage": cov,
        "assumptions": (assumptions or []) + ctx.assumptions,
        "wall_s": round(time.time() - ctx.t0, 2),
        "violations": len(violations),
    }
    # the committed evidence directory describes /repo; a run against another tree (VERIF_REPO) writes elsewhere
    evdir = os.environ.get("VERIF_EVIDENCE_DIR") or (os.path.join(VERIF, "evidence") if os.path.realpath(REPO) == "/repo" else os.path.join(VERIF, "build", "evidence-other-tree"))
    os.makedirs(evdir, exist_ok=True)
    with open(os.path.join(evdir, ctx.pid + ".json"), "w") as f:
        json.dump(ev, f, indent=1, default=str)
    return 1 if violations else 0


def _slim(obj, limit=4000):
    """failure records inside the evidence file keep small replays only (the full input is in the replay file)"""
    try:
        if len(json.dumps(obj.get("replay"), default=str)) > limit:
            obj = dict(obj, replay={"note": "input too large for the evidence file: see the replay file", "keys": sorted(obj["replay"]) if isinstance(obj["replay"], dict) else None})
    except Exception:  # noqa: BLE001
        obj = dict(obj, replay=None)
    return obj
