"""Solver-side helpers: independent force model, dense reference design matrix, ground truths."""
from __future__ import annotations

import numpy as np

from gens import atoms_of, base_cells, make_supercell

COMBOS = [(2,), (3,), (4,), (2, 3), (3, 4), (2, 3, 4)]
FACT = {2: 1.0, 3: 2.0, 4: 6.0}

_LET = "jklm"
_CAR = "bcde"


def forces_from_fc(fcs, disps):
    """F[s,i,a] = - sum_m 1/(m-1)! Phi_m[i,j..,a,b..] u[s,j,b] ... (independent einsum force model)."""
    nS, N, _ = disps.shape
    F = np.zeros((nS, N, 3))
    for m, fc in fcs.items():
        idx_atoms = "i" + _LET[: m - 1]
        idx_cart = "a" + _CAR[: m - 1]
        ops = [fc]
        sub = idx_atoms + idx_cart
        terms = []
        for k in range(m - 1):
            terms.append("s" + _LET[k] + _CAR[k])
            ops.append(disps)
        expr = sub + "," + ",".join(terms) + "->sia"
        F -= np.einsum(expr, *ops, optimize=True) / FACT[m]
    return F


def expanded_basis(b, order, N):
    full = np.asarray(b.compression_matrix @ b.basis_set)
    nb = full.shape[1]
    return full.T.reshape((nb,) + (N,) * order + (3,) * order)


def dense_design(basis_sets, orders, disps):
    """X[(s,i,a), col] for the concatenated coefficient vector (orders in increasing order)."""
    nS, N, _ = disps.shape
    cols = []
    for m in orders:
        T = expanded_basis(basis_sets[m], m, N)
        for v in T:
            cols.append(forces_from_fc({m: v}, disps).reshape(-1))
    if not cols:
        return np.zeros((nS * N * 3, 0))
    return np.stack(cols, axis=1)


def solver_cells(quick):
    # tri1 3x1x1: a lattice translation of order 3 (T != T^-1), small enough for order 4
    cells = [("mono_P", (1, 1, 1)), ("tri2_Pm1", (1, 1, 1)), ("tri1", (2, 1, 1)), ("hcp", (1, 1, 1)), ("tri2_P1", (1, 1, 1)), ("tri1", (3, 1, 1)), ("tri2_P1", (3, 1, 1))]
    if not quick:
        cells += [("ortho_C", (1, 1, 1)), ("mono_P", (2, 1, 1)), ("tri1", (2, 2, 1)), ("rhombo2", (1, 1, 1)), ("sheared", (1, 1, 1)), ("mono_C", (1, 1, 1))]
    return cells


class Prepared:
    """A supercell with its three basis sets computed once."""

    def __init__(self, cname, diag, rng, shuffle=True, cutoff=None, sc=None):
        from symfc import Symfc

        self.sc = sc if sc is not None else make_supercell(base_cells()[cname], diag, rng=rng, shuffle=shuffle)
        self.atoms = atoms_of(self.sc)
        self.N = len(self.sc["numbers"])
        self.cutoff = cutoff
        o = Symfc(self.atoms, cutoff=None if cutoff is None else dict(cutoff))
        # order 4 only for cells with fewer than 6 atoms (the order-4 basis of a 6-atom P1 cell has > 1000 vectors)
        o.compute_basis_set(max_order=4 if self.N < 6 else 3)
        self.basis = dict(o.basis_set)
        self.nb = {k: b.basis_set.shape[1] for k, b in self.basis.items()}
        self.nb.setdefault(4, 0)
        self.n_lp = self.basis[2].translation_permutations.shape[0]
        self.p2s = np.asarray(self.basis[2].p2s_map)
        self.trans_perms = np.asarray(self.basis[2].translation_permutations)

    def usable(self, orders):
        return all(self.nb[m] > 0 for m in orders)

    def new(self, d=None, f=None):
        from symfc import Symfc

        o = Symfc(self.atoms, displacements=d, forces=f, cutoff=None if self.cutoff is None else dict(self.cutoff))
        o.basis_set = dict(self.basis)
        return o

    def describe(self):
        return {"cell": self.sc["name"], "lattice": self.sc["lattice"].tolist(), "positions": self.sc["positions"].tolist(),
                "numbers": [int(x) for x in self.sc["numbers"]], "cutoff": self.cutoff}


def solve_with_batch(o, P, orders, compact, bs):
    """o.solve(...) with the snapshot batch size honoured also for single orders: the facade does not forward `batch_size`
    to FCSolverO2/O3/O4 (their own defaults apply), so those solvers are called directly when bs is not the default."""
    orders = list(orders)
    if len(orders) == 1 and bs != 100:
        from symfc.solvers import FCSolverO2, FCSolverO3, FCSolverO4
        k = orders[0]
        cls = {2: FCSolverO2, 3: FCSolverO3, 4: FCSolverO4}[k]
        s = cls(P.basis[k], log_level=0).solve(o.displacements, o.forces, batch_size=bs)
        o._force_constants[k] = s.compact_fc if compact else s.full_fc
        return o
    o.solve(orders=orders, is_compact_fc=compact, batch_size=bs)
    return o


def finite_displacement_dataset(rng, N, amp=0.03, n_pairs=None):
    """A dataset with exact zeros, as finite-displacement workflows produce: atom 0 is never displaced; every other atom is
    displaced alone along +x, +y, +z and -y, -z (its x component is never negative for atom 2 and never positive for atom 1:
    sign-definite columns), then snapshots with two or three atoms displaced by random vectors; +/- pairs are adjacent."""
    snaps = []
    for a in range(1, N):
        for c in range(3):
            for sgn in (+1, -1):
                if (a == 1 and c == 0 and sgn > 0) or (a == 2 and c == 0 and sgn < 0):
                    continue
                u = np.zeros((N, 3))
                u[a, c] = sgn * amp * (1 + 0.3 * rng.random())
                snaps.append(u)
    for _ in range(n_pairs if n_pairs is not None else 4 * N):
        u = np.zeros((N, 3))
        for a in rng.choice(np.arange(1, N), size=int(rng.integers(2, 4)), replace=False):
            u[a] = rng.normal(size=3) * amp
        u[1, 0] = -abs(u[1, 0])
        u[2, 0] = abs(u[2, 0])
        snaps.append(u)
    return np.array(snaps)
