"""C12 — history independence and immutability.  Coq: props/C12.v (Api.v state machine over the
translated ladder; aliasing facts regenerated from the solver and basis-set sources).
Correspondence: random API histories on real objects against Api.v, checking after every operation the
result arrays against a fresh object's, and the SHA-1 of every user array, the supercell and every basis
set (shared between objects) for bitwise immutability."""
from __future__ import annotations

import numpy as np

from apihist import World, run_histories

UNITS = ["Orders", "SolverStruct"]
PROPS = ["props/C12.v"]
EXTRA = ["theories/ApiTrace.vo"]
ASSUMPTIONS = ["numpy aliasing itself is trusted through the translated structure facts and the hash correspondence",
               "results of other orders left from earlier calls are not part of 'the result' of a solve (reported as observation only)"]


def check(ctx):
    rng = np.random.default_rng(ctx.seed)
    ctx.rule = ("random histories (length 8 quick / 12) over set-displacements / set-forces / hand-over of shared basis sets / compute / solve / run, mostly valid, "
                "on two small crystals (with and without cutoff), basis sets shared between all objects of a world; non-trivial: history contains a solve or run")
    worlds = [World(rng, "mono_P"), World(rng, "tri2_Pm1", cutoff={3: 4.0}, n_snaps=(14, 14, 18))]
    if not ctx.quick:
        worlds.append(World(rng, "tri1", diag=(2, 1, 1), n_snaps=(14, 14, 18)))
    n_hist, length = (10, 8) if ctx.quick else (60, 12)
    for wi, w in enumerate(worlds):
        try:
            bad = run_histories(ctx, "C12", n_hist, length, rng, world=w, tag=f"{ctx.tier}{wi}", use_coq=ctx.coq_ok)
        except np.linalg.LinAlgError as e:
            ctx.notes.append(f"world {wi}: a dataset of the pool is singular for some combination ({e}); histories of that world skipped")
            continue
        for b in bad[:10]:
            ctx.fail("correspondence", "C12/corr/history", f"world {wi} history {b.get('history')} step {b.get('step')}: {b['what']}", replay=b, has_input=not b.get("no_input", False))
