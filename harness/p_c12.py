"""C12 — history independence and immutability.  Coq: props/C12.v (Api.v state machine over the
translated ladder; aliasing facts regenerated from the solver and basis-set sources).
Correspondence: random API histories on real objects against Api.v, checking after every operation the
result arrays against a fresh object's, and the SHA-1 of every user array, the supercell and every basis
set (shared between objects) for bitwise immutability."""
from __future__ import annotations

import numpy as np

from apihist import World, run_histories

UNITS = ["Orders", "SolverStruct"]
PROPS = ["props/C12.v"]
EXTRA = ["theories/ApiTrace.vo"]
ASSUMPTIONS = ["numpy aliasing itself is trusted through the translated structure facts and the hash correspondence",
               "results of other orders left from earlier calls are not part of 'the result' of a solve (reported as observation only)"]


def multi_object(ctx, rng):
    """Several objects with different cutoffs created first and used afterwards, against objects used in isolation."""
    from symfc import Symfc
    from gens import atoms_of, base_cells, make_supercell
    from reference import min_image_distances
    from tensors import same_span

    for cname, diag in [("tri1", (2, 2, 1)), ("tri2_P1", (2, 1, 1))] + ([] if ctx.quick else [("hcp", (2, 1, 1)), ("mono_P", (2, 1, 1))]):
        sc = make_supercell(base_cells()[cname], diag)
        at = atoms_of(sc)
        N = len(sc["numbers"])
        dist = min_image_distances(np.asarray(sc["lattice"], float), np.asarray(sc["positions"], float))
        shells = sorted(set(np.round(dist[dist > 1e-8], 6).tolist()))
        if len(shells) < 3:
            continue
        c1, c2 = (shells[0] + shells[1]) / 2, (shells[-2] + shells[-1]) / 2
        configs = [{3: c1}, {3: c2}, None, {2: c2, 3: c1}]
        d = rng.normal(size=(12, N, 3)) * 0.05
        f = rng.normal(size=(12, N, 3))

        def expanded(b):
            return np.asarray(b.compression_matrix @ b.basis_set)
        iso = []
        for cfg in configs:
            o = Symfc(at, displacements=d, forces=f, cutoff=None if cfg is None else dict(cfg))
            try:
                o.compute_basis_set(orders=[2, 3])
            except (IndexError, ValueError):
                iso.append(None)
                continue
            iso.append({k: expanded(o.basis_set[k]) for k in (2, 3)})
        objs = [Symfc(at, displacements=d, forces=f, cutoff=None if cfg is None else dict(cfg)) for cfg in configs]
        order = list(rng.permutation(len(configs)))
        for i in order:
            if iso[i] is None:
                continue
            ctx.case({"cell": sc["name"], "multi_object": True, "cutoffs": [None if c is None else {str(k): round(v, 4) for k, v in c.items()} for c in configs], "computed": int(i)}, nontrivial=True)
            ctx.count("multi-object")
            try:
                objs[i].compute_basis_set(orders=[2, 3])
            except Exception as e:  # noqa: BLE001
                ctx.fail("oracle", "C12/oracle/multi-object", f"{sc['name']}: object {i} (cutoff {configs[i]}) raised {type(e).__name__} after other objects were created", replay={"cell": sc["name"], "configs": str(configs)}, has_input=True)
                continue
            for k in (2, 3):
                ok, msg = same_span(iso[i][k], expanded(objs[i].basis_set[k]))
                if not ok:
                    ctx.fail("oracle", "C12/oracle/multi-object", f"{sc['name']}: object created with cutoff {configs[i]} computes a different order-{k} basis after other objects with cutoffs {[c for j, c in enumerate(configs) if j != i]} were created ({msg})",
                             replay={"cell": sc["name"], "lattice": sc["lattice"].tolist(), "positions": sc["positions"].tolist(), "numbers": [int(x) for x in sc["numbers"]], "configs": str(configs), "object": int(i), "order": k}, has_input=True)


def check(ctx):
    rng = np.random.default_rng(ctx.seed)
    multi_object(ctx, rng)
    ctx.rule = ("random histories (length 8 quick / 12) over set-displacements / set-forces / hand-over of shared basis sets / compute / solve / run, mostly valid, "
                "on two small crystals (with and without cutoff), basis sets shared between all objects of a world; non-trivial: history contains a solve or run")
    worlds = [World(rng, "mono_P"), World(rng, "tri2_Pm1", cutoff={3: 4.0}, n_snaps=(14, 14, 18))]
    if not ctx.quick:
        worlds.append(World(rng, "tri2_P1", n_snaps=(24, 24, 30)))   # every basis non-empty (an empty FC3 basis makes the solver raise ValueError; outside the domain)
    n_hist, length = (10, 8) if ctx.quick else (60, 12)
    for wi, w in enumerate(worlds):
        try:
            bad = run_histories(ctx, "C12", n_hist, length, rng, world=w, tag=f"{ctx.tier}{wi}", use_coq=ctx.coq_ok)
        except np.linalg.LinAlgError as e:
            ctx.notes.append(f"world {wi}: a dataset of the pool is singular for some combination ({e}); histories of that world skipped")
            continue
        for b in bad[:10]:
            ctx.fail("correspondence", "C12/corr/history", f"world {wi} history {b.get('history')} step {b.get('step')}: {b['what']}", replay=b, has_input=not b.get("no_input", False))
