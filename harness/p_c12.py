"""C12 — history independence and immutability.  Coq: props/C12.v (Api.v state machine over the
translated ladder; aliasing facts regenerated from the solver and basis-set sources).
Correspondence: random API histories on real objects against Api.v, checking after every operation the
result arrays against a fresh object's, and the SHA-1 of every user array, the supercell and every basis
set (shared between objects) for bitwise immutability."""
from __future__ import annotations

import numpy as np

from apihist import World, run_histories

UNITS = ["Orders", "SolverStruct", "ShapesSolvers", "ShapesBasis", "ShapesApi", "SkelBasis", "SkelSolvers", "SkelApi", "Tables", "IndepGen", "ShapesCombos", "ShapesPerm", "ShapesCoset", "ShapesSumRule", "ShapesSpg", "ShapesReps", "ShapesO1", "ShapesAuxO1", "ShapesAuxEig", "ShapesAuxBatch", "EigStruct", "CutoffGen", "ShapesGeom", "ShapesAuxCut", "SkelSpg", "SkelEig", "SkelMat", "SkelPerm", "SkelIdx", "SkelCut"]
PROPS = ["props/C12.v"]
EXTRA = ["theories/ApiTrace.vo"]
ASSUMPTIONS = ["numpy aliasing itself is trusted through the translated structure facts and the hash correspondence",
               "results of other orders left from earlier calls are not part of 'the result' of a solve (reported as observation only)"]


def multi_object(ctx, rng):
    """Several objects with different cutoffs created first and used afterwards, against objects used in isolation."""
    from symfc import Symfc
    from gens import atoms_of, base_cells, make_supercell
    from reference import min_image_distances
    from tensors import same_span

    for cname, diag in [("tri1", (2, 2, 1)), ("tri2_P1", (2, 1, 1))] + ([] if ctx.quick else [("hcp", (2, 1, 1)), ("mono_P", (2, 1, 1))]):
        sc = make_supercell(base_cells()[cname], diag)
        at = atoms_of(sc)
        N = len(sc["numbers"])
        dist = min_image_distances(np.asarray(sc["lattice"], float), np.asarray(sc["positions"], float))
        shells = sorted(set(np.round(dist[dist > 1e-8], 6).tolist()))
        if len(shells) < 3:
            continue
        c1, c2 = (shells[0] + shells[1]) / 2, (shells[-2] + shells[-1]) / 2
        configs = [{3: c1}, {3: c2}, None, {2: c2, 3: c1}]
        d = rng.normal(size=(12, N, 3)) * 0.05
        f = rng.normal(size=(12, N, 3))

        def expanded(b):
            return np.asarray(b.compression_matrix @ b.basis_set)
        iso = []
        for cfg in configs:
            o = Symfc(at, displacements=d, forces=f, cutoff=None if cfg is None else dict(cfg))
            try:
                o.compute_basis_set(orders=[2, 3])
            except (IndexError, ValueError):
                iso.append(None)
                continue
            iso.append({k: expanded(o.basis_set[k]) for k in (2, 3)})
        objs = [Symfc(at, displacements=d, forces=f, cutoff=None if cfg is None else dict(cfg)) for cfg in configs]
        order = list(rng.permutation(len(configs)))
        for i in order:
            if iso[i] is None:
                continue
            ctx.case({"cell": sc["name"], "multi_object": True, "cutoffs": [None if c is None else {str(k): round(v, 4) for k, v in c.items()} for c in configs], "computed": int(i)}, nontrivial=True)
            ctx.count("multi-object")
            try:
                objs[i].compute_basis_set(orders=[2, 3])
            except Exception as e:  # noqa: BLE001
                ctx.fail("oracle", "C12/oracle/multi-object", f"{sc['name']}: object {i} (cutoff {configs[i]}) raised {type(e).__name__} after other objects were created", replay={"cell": sc["name"], "configs": str(configs)}, has_input=True)
                continue
            for k in (2, 3):
                ok, msg = same_span(iso[i][k], expanded(objs[i].basis_set[k]))
                if not ok:
                    ctx.fail("oracle", "C12/oracle/multi-object", f"{sc['name']}: object created with cutoff {configs[i]} computes a different order-{k} basis after other objects with cutoffs {[c for j, c in enumerate(configs) if j != i]} were created ({msg})",
                             replay={"cell": sc["name"], "lattice": sc["lattice"].tolist(), "positions": sc["positions"].tolist(), "numbers": [int(x) for x in sc["numbers"]], "configs": str(configs), "object": int(i), "order": k}, has_input=True)


def fresh_symfc():
    """a freshly imported copy of the package: every module-level cache or registry starts empty"""
    import importlib
    import sys as _sys
    for k in [k for k in _sys.modules if k == "symfc" or k.startswith("symfc.")]:
        del _sys.modules[k]
    return importlib.import_module("symfc").Symfc


def twin_supercells(ctx, rng):
    """Process isolation: two structures that agree in what a sloppy cache key would look at (numbers of atoms and lattice
    points, geometry but not species, numeric cutoff radii) are processed one after the other in one process; everything
    computed for the second one must equal what a freshly imported package computes for it alone."""
    from gens import atoms_of, base_cells, make_supercell
    from tensors import same_span

    def twin(name, diag, shuffle=False, numbers=None):
        sc = make_supercell(base_cells()[name], diag, rng=rng, shuffle=shuffle)
        if numbers is not None:
            sc = dict(sc)
            sc["numbers"] = np.array(numbers)
            sc["name"] = sc["name"] + "-species" + "".join(str(z) for z in numbers)
        return sc
    from gens import reordered
    mono = twin("mono_P", (2, 1, 1), True)
    pairs = [("atom order", mono, reordered(mono), None),
             ("supercell shape", twin("tri1", (2, 2, 1)), twin("tri1", (4, 1, 1)), None),
             ("species on the same sites", twin("fcc_conv", (1, 1, 1), numbers=[13, 13, 13, 79]), twin("fcc_conv", (1, 1, 1)), None),
             ("same numeric cutoff", twin("sheared", (2, 1, 1)), twin("needle", (1, 1, 2)), 3.4)]
    if not ctx.quick:
        pairs += [("supercell shape", twin("tri2_P1", (1, 2, 1), True), twin("tri2_P1", (1, 1, 2), True), None),
                  ("atom order", twin("hcp", (2, 1, 1), True), reordered(twin("hcp", (2, 1, 1))), 3.3),
                  ("species on the same sites", twin("bcc_conv", (1, 1, 2), numbers=[26, 13, 26, 13]), twin("bcc_conv", (1, 1, 2)), None),
                  ("same numeric cutoff", twin("tri2_P1", (2, 1, 1), True), twin("flat", (1, 2, 1)), 3.9),
                  ("atom order", twin("tri2_P1", (3, 1, 1)), reordered(twin("tri2_P1", (3, 1, 1))), None)]
    for what, A, B, cut in pairs:
        N = len(B["numbers"])
        if len(A["numbers"]) != N:
            continue
        n = 40
        dA, fA = rng.normal(size=(n, N, 3)) * 0.05, rng.normal(size=(n, N, 3))
        dB, fB = rng.normal(size=(n, N, 3)) * 0.05, rng.normal(size=(n, N, 3))

        def run(S, sc, d, f):
            out = {}
            at = atoms_of(sc)
            # expanded bases: no cutoff (orders 2, 3) and one numeric cutoff common to both structures (orders 2, 3, 4)
            for c in ([None] if cut is None else [None, cut]) + ([3.1] if cut is None else []):
                orders = [2, 3] if c is None else [2, 3, 4]
                try:
                    o = S(at, cutoff=None if c is None else {2: c, 3: c, 4: c})
                    o.compute_basis_set(orders=orders)
                except (IndexError, ValueError):
                    continue
                for k in orders:
                    b = o.basis_set[k]
                    out[("F", k, c)] = np.asarray(b.compression_matrix @ b.basis_set)
            for compact in (False, True):
                o = S(at, displacements=d.copy(), forces=f.copy())
                o.compute_basis_set(orders=[2, 3])
                usable = [k for k in (2, 3) if o.basis_set[k].basis_set.shape[1] > 0]
                if usable != [2, 3]:
                    usable = [2]
                o.solve(orders=usable, is_compact_fc=compact)
                for k in usable:
                    out[("fc", k, compact)] = np.array(o.force_constants[k])
            return out
        ctx.case({"twin_supercells": [A["name"], B["name"]], "agree_in": what, "N": N}, nontrivial=True)
        ctx.count("twin-supercells:" + what)
        rep = {"agree_in": what, "cutoff": cut,
               "first": {"name": A["name"], "lattice": np.asarray(A["lattice"]).tolist(), "positions": np.asarray(A["positions"]).tolist(), "numbers": [int(z) for z in A["numbers"]]},
               "second": {"name": B["name"], "lattice": np.asarray(B["lattice"]).tolist(), "positions": np.asarray(B["positions"]).tolist(), "numbers": [int(z) for z in B["numbers"]]}}
        try:
            S1 = fresh_symfc()
            run(S1, A, dA, fA)
            after = run(S1, B, dB, fB)
            alone = run(fresh_symfc(), B, dB, fB)
        except np.linalg.LinAlgError:
            ctx.count("skipped-singular")
            continue
        except Exception as e:  # noqa: BLE001
            ctx.fail("oracle", "C12/oracle/twin-supercells", f"{B['name']} after {A['name']}: {type(e).__name__}: {e}", replay=rep, has_input=True)
            continue
        for key in alone:
            a, b = after.get(key), alone[key]
            if key[0] == "F":
                ok = a is not None and a.shape[0] == b.shape[0] and same_span(a, b)[0]
                item = f"order-{key[1]} expanded basis (cutoff {key[2]})"
            else:
                ok = a is not None and a.shape == b.shape and bool(np.abs(a - b).max() <= 1e-9 * max(np.abs(b).max(), 1e-300))
                item = f"fc{key[1]} ({'compact' if key[2] else 'full'})"
            if not ok:
                ctx.fail("oracle", "C12/oracle/twin-supercells", f"{item} of {B['name']} differs when {A['name']} (agreeing in: {what}) was processed before it in the same process", replay={**rep, "item": str(key)}, has_input=True)
                break


def solver_reuse(ctx, rng):
    """FCSolver objects reused for several datasets (results read in between, compact/full alternated, basis sets shared by
    several solvers) against fresh solver objects."""
    from symfc.solvers import FCSolverO2, FCSolverO2O3, FCSolverO2O3O4, FCSolverO3, FCSolverO3O4, FCSolverO4
    from solvers import Prepared

    classes = {(2,): FCSolverO2, (3,): FCSolverO3, (4,): FCSolverO4, (2, 3): FCSolverO2O3, (3, 4): FCSolverO3O4, (2, 3, 4): FCSolverO2O3O4}
    for cname, diag in [("mono_P", (1, 1, 1))] + ([] if ctx.quick else [("tri2_P1", (1, 1, 1)), ("tri1", (3, 1, 1))]):
        P = Prepared(cname, diag, rng)
        n = 3 * int(np.ceil(sum(P.nb.values()) / (3 * P.N))) + 6
        data = [(rng.normal(size=(n, P.N, 3)) * 0.05, rng.normal(size=(n, P.N, 3))) for _ in range(3)]
        for orders, cls in classes.items():
            if not P.usable(orders):
                continue
            bs = P.basis[orders[0]] if len(orders) == 1 else [P.basis[k] for k in orders]

            def as_list(x):
                return [np.array(x)] if len(orders) == 1 else [np.array(v) for v in x]
            try:
                fresh = []
                for d, f in data:
                    s0 = cls(bs, log_level=0).solve(d.copy(), f.copy())
                    fresh.append({"full": as_list(s0.full_fc), "compact": as_list(s0.compact_fc)})
            except np.linalg.LinAlgError:
                ctx.count("skipped-singular")
                continue
            s = cls(bs, log_level=0)
            steps = []
            # fingerprints of the shared basis sets (a solve, successful or rejected, must leave them as they are)
            def fingerprint():
                out_ = []
                for k_ in orders:
                    b_ = P.basis[k_]
                    for m_ in (b_._n_a_compression_matrix, ):
                        out_.append((m_.data.copy(), m_.indices.copy(), m_.indptr.copy()))
                    out_.append((np.asarray(b_.basis_set).copy(),))
                return out_
            fp0 = fingerprint()
            # a rejected request in the middle of the object's life: forces of another shape make the solver raise inside its loops
            d_ok, f_ok = data[0]
            for bad_f in (f_ok[:-1], f_ok[:, :-1, :] if P.N > 1 else f_ok[:-1], np.concatenate([f_ok, f_ok], axis=2)):
                try:
                    s.solve(d_ok.copy(), bad_f.copy())
                except Exception:  # noqa: BLE001   (any loud failure is fine here; what matters is what it leaves behind)
                    pass
                else:
                    ctx.count("solver-accepted-misshaped-forces")
            fp1 = fingerprint()
            same = all(all(np.array_equal(x, y) for x, y in zip(a_, b_)) for a_, b_ in zip(fp0, fp1))
            ctx.count("solver-rejected-requests")
            if not same:
                ctx.fail("oracle", "C12/oracle/solver-reuse", f"{P.sc['name']} {cls.__name__}: a solve() that raised (forces of another shape) changed a basis set shared with other solvers",
                         replay={**P.describe(), "solver": cls.__name__, "sequence": "solve with mis-shaped forces"}, has_input=True)
                # restore for the remaining solvers of this cell
                for k_, (a_, b_) in zip([k for k in orders for _ in (0, 1)], zip(fp0, fp1)):
                    pass
            if rng.random() < 0.5:
                try:
                    _ = s.full_fc, s.compact_fc          # read before any solve
                except Exception:  # noqa: BLE001
                    pass
            seq = [int(i) for i in rng.integers(0, len(data), size=6)]
            ok = True
            for step, i in enumerate(seq):
                d, f = data[i]
                s.solve(d.copy(), f.copy())
                flavours = ["compact", "full"] if step % 2 == 0 else ["full", "compact"]
                for fl in flavours[: 1 + (step % 3 != 1)]:
                    raw = s.compact_fc if fl == "compact" else s.full_fc
                    steps.append((i, fl))
                    if raw is None:
                        ctx.fail("oracle", "C12/oracle/solver-reuse", f"{P.sc['name']} {cls.__name__}: after the sequence {steps} (results read once before the first solve) {fl}_fc is None",
                                 replay={**P.describe(), "solver": cls.__name__, "sequence": [list(x) for x in steps]}, has_input=True)
                        ok = False
                        break
                    got = as_list(raw)
                    for k, a, b in zip(orders, got, fresh[i][fl]):
                        if a.shape != b.shape or not np.abs(a - b).max() <= 1e-9 * max(np.abs(b).max(), 1e-300):
                            ctx.fail("oracle", "C12/oracle/solver-reuse", f"{P.sc['name']} {cls.__name__}: after the sequence {steps} the {fl} fc{k} of the reused solver differs from a fresh solver's for dataset {i}",
                                     replay={**P.describe(), "solver": cls.__name__, "sequence": [list(x) for x in steps]}, has_input=True)
                            ok = False
                            break
                    if not ok:
                        break
                if not ok:
                    break
            ctx.case({"solver_reuse": cls.__name__, "cell": P.sc["name"], "sequence": seq}, nontrivial=True)
            ctx.count("solver-reuse")


def inplace_overwrite(ctx, rng):
    """The caller overwrites its own dataset arrays in place between two solves (C-contiguous, Fortran-ordered, strided views,
    float32): the reused object must give what a fresh object built from the same arrays gives now."""
    from symfc import Symfc
    from solvers import Prepared

    P = Prepared("mono_P", (1, 1, 1), rng)
    N = P.N
    n = 3 * int(np.ceil(sum(P.nb[k] for k in (2, 3)) / (3 * N))) + 6
    d1, f1 = rng.normal(size=(n, N, 3)) * 0.05, rng.normal(size=(n, N, 3))
    d2, f2 = rng.normal(size=(n, N, 3)) * 0.05, rng.normal(size=(n, N, 3))
    layouts = {
        "C-contiguous": lambda a: np.ascontiguousarray(a),
        "Fortran-ordered": lambda a: np.asfortranarray(a),
        "strided view": lambda a: np.repeat(a, 2, axis=0)[::2],
        "moveaxis view": lambda a: np.moveaxis(np.ascontiguousarray(np.moveaxis(a, 0, -1)), -1, 0),
    }
    for lname, mk in layouts.items():
        for which in ("both", "forces only"):
            # the second solve asks for the same layout or for the other one (R14-K4: a shortcut keyed on the identity of the
            # array objects that re-expands stored coefficients when only the layout flag changed)
            for orders, compact, compact2 in (((2,), True, True), ((2, 3), False, False), ((2, 3), True, False), ((2, 3), False, True),
                                              ((2,), False, True), ((3,), True, False)):
                dbuf, fbuf = mk(d1.copy()), mk(f1.copy())
                o = Symfc(P.atoms, displacements=dbuf, forces=fbuf)
                o.basis_set = dict(P.basis)
                ctx.case({"inplace_overwrite": lname, "arrays": which, "orders": list(orders), "compact": compact, "compact_second": compact2}, nontrivial=True)
                ctx.count("inplace-overwrite")
                try:
                    o.solve(orders=list(orders), is_compact_fc=compact)
                    fbuf[...] = f2
                    if which == "both":
                        dbuf[...] = d2
                    o.solve(orders=list(orders), is_compact_fc=compact2)
                    fresh = Symfc(P.atoms, displacements=dbuf, forces=fbuf)
                    fresh.basis_set = dict(P.basis)
                    fresh.solve(orders=list(orders), is_compact_fc=compact2)
                except np.linalg.LinAlgError:
                    ctx.count("skipped-singular")
                    continue
                for k in orders:
                    a, b = np.asarray(o.force_constants[k]), np.asarray(fresh.force_constants[k])
                    if a.shape != b.shape or not np.abs(a - b).max() <= 1e-9 * max(np.abs(b).max(), 1e-300):
                        ctx.fail("oracle", "C12/oracle/inplace-overwrite", f"{lname} dataset given to the constructor, {which} overwritten in place by the caller, orders {orders}, is_compact_fc {compact} then {compact2}: the second solve of the reused object differs from a fresh object on the same arrays (fc{k})",
                                 replay={**P.describe(), "layout": lname, "arrays": which, "orders": list(orders), "compact": compact, "compact_second": compact2}, has_input=True)
                        break


def item_handover(ctx, rng):
    """A basis set handed over for ONE order by item assignment (`obj.basis_set[2] = other`) to an object that already computed its
    own: the next solve must use the handed-over basis, as a fresh object given the same basis through the setter does."""
    from symfc import Symfc
    from gens import atoms_of, base_cells, make_supercell

    for cname, diag in [("tri2_P1", (2, 1, 1)), ("hcp", (1, 1, 1)), ("mono_P", (2, 1, 1))] + ([] if ctx.quick else [("tri1", (3, 1, 1)), ("wurtzite", (1, 1, 1))]):
        sc = make_supercell(base_cells()[cname], diag, rng=rng, shuffle=True)
        N = len(sc["numbers"])
        at = atoms_of(sc)
        from reference import min_image_distances
        dist = min_image_distances(np.asarray(sc["lattice"], float), np.asarray(sc["positions"], float))
        shells = sorted(set(np.round(dist[dist > 1e-8], 6).tolist()))
        if len(shells) < 2:
            continue
        cut = (shells[0] + shells[1]) / 2
        d, f = rng.normal(size=(3 * N + 6, N, 3)) * 0.05, rng.normal(size=(3 * N + 6, N, 3))
        try:
            A = Symfc(at, cutoff={2: cut}).compute_basis_set(orders=[2])
            B = Symfc(at, displacements=d, forces=f).run(orders=[2], is_compact_fc=False)       # B owns a (no-cutoff) basis
            if A.basis_set[2].basis_set.shape[1] in (0, B.basis_set[2].basis_set.shape[1]):
                continue
            B.basis_set[2] = A.basis_set[2]
            B.solve(orders=[2], is_compact_fc=False)
            F = Symfc(at, displacements=d, forces=f)
            F.basis_set = {2: A.basis_set[2]}
            F.solve(orders=[2], is_compact_fc=False)
        except np.linalg.LinAlgError:
            ctx.count("skipped-singular")
            continue
        ctx.case({"cell": sc["name"], "handover": "item assignment after own run", "cutoff": round(cut, 4)}, nontrivial=True)
        ctx.count("item-handover")
        got, exp = np.asarray(B.force_constants[2]), np.asarray(F.force_constants[2])
        dev = float(np.abs(got - exp).max() / max(np.abs(exp).max(), 1e-300))
        if dev > 1e-9:
            ctx.fail("oracle", "C12/oracle/item-handover", f"{sc['name']}: after run(orders=[2]) and `obj.basis_set[2] = <basis with cutoff {cut:.4f}>` the next solve differs from a fresh object given that basis "
                     f"(relative deviation {dev:.2e}): the solve depends on what the object computed before",
                     replay={"cell": sc["name"], "lattice": sc["lattice"].tolist(), "positions": sc["positions"].tolist(), "numbers": [int(x) for x in sc["numbers"]], "cutoff": {"2": cut}, "disps": d.tolist(), "forces": f.tolist()}, has_input=True)


def solve_pairs(ctx, rng):
    """Every ordered pair of solver combinations on ONE object (first in full or compact layout, then the second): the second result is
    the one of a fresh object; supercells with more atoms than independent atoms."""
    from solvers import COMBOS, Prepared

    for cname, diag in [("tri2_P1", (2, 1, 1))] + ([] if ctx.quick else [("mono_P", (2, 1, 1)), ("tri1", (3, 1, 1))]):
        P = Prepared(cname, diag, rng)
        usable = [c for c in COMBOS if P.usable(c)]
        ncoef = sum(P.nb[m] for m in (2, 3, 4) if P.nb.get(m))
        n = 2 * int(np.ceil(ncoef / (3 * P.N))) + 10
        d, f = rng.normal(size=(n, P.N, 3)) * 0.05, rng.normal(size=(n, P.N, 3))
        fresh = {}
        for second in usable:
            try:
                o = P.new(d, f)
                o.solve(orders=list(second), is_compact_fc=False)
                fresh[second] = {m: np.array(o.force_constants[m]) for m in second}
            except np.linalg.LinAlgError:
                pass
        for first in usable:
            for compact_first in (False, True):
                for second in fresh:
                    if second == first:
                        continue
                    o = P.new(d, f)
                    try:
                        o.solve(orders=list(first), is_compact_fc=compact_first)
                        o.solve(orders=list(second), is_compact_fc=False)
                    except np.linalg.LinAlgError:
                        continue
                    ctx.case({"cell": P.sc["name"], "first": list(first), "first_compact": compact_first, "second": list(second)}, nontrivial=True)
                    ctx.count("solve-pairs")
                    dev = max(float(np.abs(np.asarray(o.force_constants[m]) - fresh[second][m]).max() / max(np.abs(fresh[second][m]).max(), 1e-300)) for m in second)
                    if dev > 1e-9:
                        ctx.fail("oracle", "C12/oracle/solve-pairs", f"{P.sc['name']}: solve(orders={list(first)}, is_compact_fc={compact_first}) followed by solve(orders={list(second)}) differs from a fresh object's solve(orders={list(second)}) "
                                 f"by {dev:.2e} (same dataset): the second solve depends on the first",
                                 replay={**P.describe(), "first": list(first), "first_compact": compact_first, "second": list(second), "disps": d.tolist(), "forces": f.tolist()}, has_input=True)


def check(ctx):
    rng = np.random.default_rng(ctx.seed)
    item_handover(ctx, np.random.default_rng(ctx.seed + 80))
    solve_pairs(ctx, np.random.default_rng(ctx.seed + 83))
    from basisobj import check_basis_objects
    check_basis_objects(ctx, "C12", np.random.default_rng(ctx.seed + 77))
    from basisobj import check_handover_then_compute
    check_handover_then_compute(ctx, "C12", np.random.default_rng(ctx.seed + 81))
    from basisobj import check_estimate_then_run
    check_estimate_then_run(ctx, "C12", np.random.default_rng(ctx.seed + 82))
    multi_object(ctx, rng)
    twin_supercells(ctx, np.random.default_rng(ctx.seed + 77))
    solver_reuse(ctx, np.random.default_rng(ctx.seed + 78))
    inplace_overwrite(ctx, np.random.default_rng(ctx.seed + 79))
    ctx.rule = ("random histories (length 8 quick / 12) over set-displacements / set-forces / hand-over of shared basis sets / compute / solve / run, mostly valid, "
                "on two small crystals (with and without cutoff), basis sets shared between all objects of a world; non-trivial: history contains a solve or run")
    worlds = [World(rng, "mono_P"), World(rng, "tri2_Pm1", cutoff={3: 4.0}, n_snaps=(14, 14, 18))]
    if not ctx.quick:
        worlds.append(World(rng, "tri2_P1", n_snaps=(24, 24, 30)))   # every basis non-empty (an empty FC3 basis makes the solver raise ValueError; outside the domain)
    n_hist, length = (10, 8) if ctx.quick else (60, 12)
    for wi, w in enumerate(worlds):
        try:
            bad = run_histories(ctx, "C12", n_hist, length, rng, world=w, tag=f"{ctx.tier}{wi}", use_coq=ctx.coq_ok)
        except np.linalg.LinAlgError as e:
            ctx.notes.append(f"world {wi}: a dataset of the pool is singular for some combination ({e}); histories of that world skipped")
            continue
        for b in bad[:10]:
            ctx.fail("correspondence", "C12/corr/history", f"world {wi} history {b.get('history')} step {b.get('step')}: {b['what']}", replay=b, has_input=not b.get("no_input", False))
