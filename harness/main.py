#!/usr/bin/env python3
"""bin/check <property> [--tier quick|thorough] [--replay file]"""
from __future__ import annotations

import argparse
import importlib
import os
import sys
import traceback

sys.path.insert(0, os.path.dirname(os.path.abspath(__file__)))
import common  # noqa: E402
from common import Ctx, Lock, build_props, finish, grep_forbidden, run_translator  # noqa: E402


def main():
    ap = argparse.ArgumentParser()
    ap.add_argument("pid")
    ap.add_argument("--tier", default=os.environ.get("VERIF_TIER", "quick"))
    ap.add_argument("--replay", default=None)
    a = ap.parse_args()
    seed = int(os.environ.get("VERIF_SEED", "20260930"))
    pid = a.pid.upper()
    tier = a.tier if a.tier in ("quick", "thorough") else "quick"
    replay = None
    if a.replay:
        import json
        with open(a.replay) as fh:
            replay = json.load(fh)
        # a replay re-runs the deterministic check with the seed and tier recorded in the file and reports whether
        # the recorded failure (same key) appears again on the current tree
        seed, tier = int(replay.get("seed", seed)), replay.get("tier", tier)
    ctx = Ctx(pid, tier, seed)
    mod = importlib.import_module("p_" + pid.lower())
    with Lock():
        run_translator(ctx, mod.UNITS)
        build_props(ctx, mod.PROPS, extra=getattr(mod, "EXTRA", ()))
        grep_forbidden(ctx)
        if hasattr(mod, "post_build"):
            mod.post_build(ctx)
    # the thorough tier repeats the correspondence / oracle part with further seeds (each failure records the seed of its
    # round, so a replay re-runs exactly that round); a replay always runs one round
    rounds = 1 if replay is not None else int(os.environ.get("VERIF_ROUNDS", "3" if tier == "thorough" else "1"))
    ctx.seed0 = seed
    ctx.rounds = rounds
    for r in range(rounds):
        if r > 0 and common.time.time() - ctx.t0 > float(os.environ.get("VERIF_ROUND_BUDGET_S", "600")):
            ctx.notes.append(f"round {r + 1} of {rounds} not started: time budget for further rounds used up")
            break
        ctx.seed = seed + 7919 * r
        try:
            mod.check(ctx)
        except Exception as e:  # noqa: BLE001
            tb = traceback.format_exc()
            ctx.fail("correspondence", f"{pid}/harness/crash", f"the correspondence/oracle harness could not run: {type(e).__name__}: {e}\n{tb[-1500:]}")
        if any(f.kind in ("translator", "coq") for f in ctx.failures) and r == 0 and len([f for f in ctx.failures if f.has_input]) > 0:
            break       # a broken tie with a failing input already found: further rounds add nothing
    # vacuity guard: on an otherwise green run every activity counter of the module must reach a floor recorded from a known
    # good run (harness/expected_counts.json, 30 % of the quick-tier counts): an oracle that silently stopped running is an error
    if replay is None and not ctx.failures:
        import json as _json
        try:
            with open(os.path.join(os.path.dirname(os.path.abspath(__file__)), "expected_counts.json")) as fh:
                floors = _json.load(fh).get(pid, {})
        except FileNotFoundError:
            floors = {}
        low = {k: (ctx.distribution.get(k, 0), m) for k, m in floors.items() if ctx.distribution.get(k, 0) < m}
        if low:
            ctx.require("activity counters below their floor (counter: got, floor): " + ", ".join(f"{k}: {g}, {m}" for k, (g, m) in sorted(low.items())[:8]), False)
    if replay is not None:
        keys = {replay.get("key")} | {w.get("key") for w in replay.get("no_longer_checks", [])}
        again = [f for f in ctx.failures if f.key in keys]
        print(f"REPLAY {a.replay}: recorded failure key(s) {sorted(k for k in keys if k)} " + ("REPRODUCED: " + again[0].what[:300] if again else "not reproduced on the current tree"))
    rc = finish(ctx, level="proof", assumptions=getattr(mod, "ASSUMPTIONS", []))
    print(f"{pid} tier={ctx.tier} obligations={ctx.discharged}/{ctx.obligations} evaluations={ctx.evaluations} "
          f"failures={len(ctx.failures)} wall={common.time.time() - ctx.t0:.1f}s -> exit {rc}")
    return rc


if __name__ == "__main__":
    sys.exit(main())
