"""Rational descriptions of the G-cells (numerators over a common denominator) and space-group data."""
from __future__ import annotations

import itertools
import math

import numpy as np

from gens import atoms_of, base_cells, make_supercell

DENS = [1, 2, 3, 4, 6, 8, 12, 24, 40, 100, 120, 200, 600, 1000, 1200, 3000, 6000, 12000, 24000]


def rationalise(pos, extra=1):
    """find D with pos*D integral (to 1e-7)"""
    for D0 in DENS:
        D = D0 * extra
        v = pos * D
        if np.abs(v - np.rint(v)).max() < 1e-7:
            return D, np.rint(v).astype(int)
    return None, None


def exact_cell(cname, diag):
    """ideal supercell (natural atom order) with integer numerators"""
    sc = make_supercell(base_cells()[cname], diag)
    D, P = rationalise(sc["positions"], extra=int(np.lcm.reduce(diag)))
    if D is None:
        return None
    return sc, D, P


def symmetry_ops(sc, symprec=1e-5):
    import spglib

    ops = spglib.get_symmetry((sc["lattice"], sc["positions"], sc["numbers"]), symprec=symprec)
    return np.array(ops["rotations"]), np.array(ops["translations"])


def op_numerators(trans, D):
    s = trans * D
    if np.abs(s - np.rint(s)).max() > 1e-3:
        return None
    return np.rint(s).astype(int)


def exact_perm(P, D, nums, r, s):
    """reference matcher in Python (mirror of Spg.perm_of_op), -1 when no atom matches"""
    img = (P @ r.T + s) % D
    key = {(tuple(p % D), int(z)): j for j, (p, z) in enumerate(zip(P, nums))}
    return np.array([key.get((tuple(v), int(z)), -1) for v, z in zip(img, nums)])


def hostile_descriptions(sc, rng):
    """float descriptions of the same structure: origin shift is NOT applied here (it changes the ops);
    integer wraps, coordinates pushed to the +-0.5 boundary by 1e-9, atom order shuffled"""
    out = []
    N = len(sc["numbers"])
    w = rng.integers(-2, 3, size=(N, 3)).astype(float)
    out.append(("wrap", {**sc, "positions": sc["positions"] + w}, np.arange(N)))
    eps = (rng.random((N, 3)) - 0.5) * 2e-9
    out.append(("jitter1e-9", {**sc, "positions": sc["positions"] + eps}, np.arange(N)))
    perm = rng.permutation(N)
    out.append(("shuffled", {**sc, "positions": sc["positions"][perm], "numbers": np.asarray(sc["numbers"])[perm]}, perm))
    return out
