"""Tensor-level oracles on implementation output (pure numpy, independent of symfc's construction)."""
from __future__ import annotations

import itertools

import numpy as np


def axes_perm(order, pi):
    """axes for np.transpose of an array shaped (N,)*order + (3,)*order under position permutation pi"""
    return tuple(pi) + tuple(order + p for p in pi)


def perm_asym(fc, order):
    """max |Phi - Phi^pi| over all position permutations, relative to max |Phi|."""
    scale = max(float(np.abs(fc).max()), 1e-300)
    worst, arg = 0.0, None
    for pi in itertools.permutations(range(order)):
        d = float(np.abs(fc - np.transpose(fc, axes_perm(order, pi))).max())
        if d > worst:
            worst, arg = d, pi
    return worst / scale, arg


def sum_rule_residual(fc, order):
    scale = max(float(np.abs(fc).max()), 1e-300)
    worst, arg = 0.0, None
    for k in range(order):
        d = float(np.abs(fc.sum(axis=k)).max())
        if d > worst:
            worst, arg = d, k
    return worst / scale, arg


def apply_op(fc, order, perm, R):
    """(g.Phi)[g(i1)..g(in)] = R x ... x R Phi[i1..in]; returns g.Phi."""
    N = fc.shape[0]
    out = np.zeros_like(fc)
    rot = fc
    letters = "abcdefgh"
    for k in range(order):
        # rotate cartesian axis order+k
        rot = np.moveaxis(np.tensordot(R, rot, axes=([1], [order + k])), 0, order + k)
    idx = np.ix_(*([perm] * order))
    out[idx] = rot
    return out


def full_basis_tensors(basis_obj, order, N):
    """dense expanded basis, shape (nb, N..,3..)"""
    comp = basis_obj.compression_matrix
    full = comp @ basis_obj.basis_set
    full = np.asarray(full)
    nb = full.shape[1]
    return full.T.reshape((nb,) + (N,) * order + (3,) * order)


def same_span(F1, F2, tol=1e-8):
    """columns of F1 and F2 (both orthonormal) span the same space; returns (ok, message)"""
    F1 = np.asarray(F1)
    F2 = np.asarray(F2)
    if F1.shape[1] != F2.shape[1]:
        return False, f"dimensions {F1.shape[1]} vs {F2.shape[1]}"
    if F1.shape[1] == 0:
        return True, ""
    M = F1.T @ F2
    d = float(np.abs(M @ M.T - np.eye(F1.shape[1])).max())
    return (d <= tol), f"|P1 - P2| ~ {d:.2e}"
