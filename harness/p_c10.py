"""C10 — independence of the description.  Coq: props/C10.v (the matching relation is invariant under
integer wraps and origin shifts and is conjugated by relabelling).  Oracle: metamorphic runs of the whole
API -- atom permutation, origin shifts (also onto the 0 / 0.5 rounding boundaries), integer wraps,
unimodular lattice-basis changes, proper and improper rigid rotations -- comparing fitted force
constants and the span of the basis."""
from __future__ import annotations

import numpy as np

from gens import atoms_of, base_cells, make_supercell
from tensors import same_span

UNITS = ["ShapesSpg", "ShapesGeom", "ShapesReps", "SkelSpg", "SkelCut", "ShapesApi", "SkelApi", "IndepGen", "SolverStruct", "ShapesSolvers", "SkelSolvers", "Tables", "ShapesCombos", "ShapesPerm", "ShapesCoset", "ShapesSumRule", "ShapesBasis", "ShapesO1", "ShapesAuxO1", "ShapesAuxEig", "ShapesAuxBatch", "EigStruct", "CutoffGen", "ShapesAuxCut", "SkelBasis", "SkelEig", "SkelMat", "SkelPerm", "SkelIdx"]
PROPS = ["props/C10.v"]
EXTRA = ["theories/Spg.vo"]
ASSUMPTIONS = ["that spglib returns the conjugated group for the transformed description, and the float rounding/sorting fast path, are not modelled: the relation between runs of the real code is established by this metamorphic oracle (partial)"]


def rand_rotation(rng, improper=False):
    q, r = np.linalg.qr(rng.normal(size=(3, 3)))
    q = q * np.sign(np.diag(r))
    if (np.linalg.det(q) < 0) != improper:
        q[:, 0] = -q[:, 0]
    return q


def rotate_fc(fc, order, Q):
    out = fc
    for k in range(order):
        out = np.moveaxis(np.tensordot(Q, out, axes=([1], [order + k])), 0, order + k)
    return out


def expanded(b):
    return np.asarray(b.compression_matrix @ b.basis_set)


def check(ctx):
    rng = np.random.default_rng(ctx.seed)
    ctx.rule = ("cells: triclinic, monoclinic, hexagonal, centred cubic, supercells with n_lp>1; transformations: random atom permutation, origin shifts (random; onto 0.5; onto 0.5-1e-9; by -position of an atom), "
                "integer wraps in [-3,3], unimodular basis changes, proper/improper random rotations; orders (2,3) and, for N<=2, (2,3,4). Non-trivial: the transformation changes the arrays")
    cells = [("mono_P", (1, 1, 1)), ("tri2_P1", (2, 1, 1)), ("hcp", (1, 1, 1)), ("bcc_conv", (1, 1, 1)), ("tri1", (2, 2, 1)), ("p3_general", (1, 1, 1)), ("tri2_P1", (1, 3, 1)), ("si_prim", (1, 1, 1))]   # si_prim: rhombohedral axes, every rotation mixes the third basis vector with the others
    if not ctx.quick:
        cells += [("wurtzite", (1, 1, 1)), ("ortho_C", (1, 1, 2)), ("si_prim", (2, 1, 1)), ("rhombo2", (1, 1, 1)), ("mono_C", (1, 1, 1)), ("nacl_prim", (2, 1, 1)), ("tri2_Pm1", (1, 1, 1))]
    # supercells with >= 3 lattice points along an axis (t and -t differ) under origins that put atoms within float
    # noise of the 0.5 wrap or of a rounding half-way point of the position matcher
    for cname, diag in ([("ortho2", (3, 1, 1)), ("mono_P", (1, 1, 4))] if ctx.quick else [("ortho2", (3, 1, 1)), ("mono_P", (1, 1, 4)), ("tri2_P1", (1, 3, 1)), ("tri1", (5, 1, 1)), ("ortho2", (4, 1, 1))]):
        sc = make_supercell(base_cells()[cname], diag)
        run_cell(ctx, rng, sc, [2], boundary_only=True)
    for cname, diag in cells:
        sc = make_supercell(base_cells()[cname], diag)
        N = len(sc["numbers"])
        for orders in ([[2, 3], [2, 3, 4]] if N <= 2 else [[2, 3]]):
            run_cell(ctx, rng, sc, list(orders))
        # the same with a cutoff between two neighbour shells (the distance code sees the transformed description)
        from reference import min_image_distances
        dist = min_image_distances(np.asarray(sc["lattice"], float), np.asarray(sc["positions"], float))
        shells = sorted(set(np.round(dist[dist > 1e-8], 6).tolist()))
        if len(shells) >= 2:
            for pos in sorted({1, len(shells) // 2, len(shells) - 1}):
                cut = (shells[pos - 1] + shells[pos]) / 2
                run_cell(ctx, rng, sc, [2, 3], cutoff={2: cut, 3: cut})


def run_cell(ctx, rng, sc, orders, cutoff=None, boundary_only=False):
    from symfc import Symfc
    from symfc.utils.utils import SymfcAtoms

    N = len(sc["numbers"])
    L = np.asarray(sc["lattice"], float)
    X = np.asarray(sc["positions"], float)
    Z = np.asarray(sc["numbers"])
    n = 14 if N <= 2 else 10
    d = rng.normal(size=(n, N, 3)) * 0.08
    f = rng.normal(size=(n, N, 3))
    mk = lambda at_, d_, f_: Symfc(at_, displacements=d_, forces=f_, cutoff=None if cutoff is None else dict(cutoff))  # noqa: E731
    try:
        base = mk(atoms_of(sc), d, f).compute_basis_set(orders=orders)
    except (IndexError, ValueError):
        return
    if any(b.basis_set.shape[1] == 0 for b in base.basis_set.values()):
        orders = [k for k in orders if base.basis_set[k].basis_set.shape[1] > 0]
        if not orders:
            return
        try:
            base = mk(atoms_of(sc), d, f).compute_basis_set(orders=orders)
        except RuntimeError:      # the remaining orders are not a combination the facade accepts (e.g. [3] alone)
            ctx.count("skipped-singular-or-unsupported")
            return
    try:
        base.solve(orders=orders, is_compact_fc=False)
    except (np.linalg.LinAlgError, RuntimeError):
        ctx.count("skipped-singular-or-unsupported")
        return
    F0 = {k: expanded(base.basis_set[k]) for k in orders}
    fc0 = {k: np.array(v) for k, v in base.force_constants.items()}
    trs = []
    perm = rng.permutation(N)
    trs.append(("atom-permutation", L, X[perm], Z[perm], d[:, perm], f[:, perm], ("perm", perm)))
    for nm, sh in (("origin-random", rng.random(3)), ("origin-onto-0.5", 0.5 - X[0]), ("origin-onto-0.5-1e-9", 0.5 - 1e-9 - X[0]), ("origin-onto-0", -X[-1])):
        trs.append((nm, L, X + sh, Z, d, f, None))
    trs.append(("integer-wraps", L, X + rng.integers(-3, 4, size=(N, 3)), Z, d, f, None))
    for U in ([[1, 0, 0], [2, 1, 0], [1, -3, 1]], [[1, 0, 0], [1, 1, 0], [0, 0, 1]], [[1, 2, 0], [0, 1, 0], [1, 0, 1]], [[0, 1, 0], [0, 0, 1], [1, 0, 0]], [[-1, 0, 0], [0, 1, 0], [0, 0, 1]]):
        U = np.array(U)
        trs.append((f"unimodular{U.tolist()}", U @ L, X @ np.linalg.inv(U), Z, d, f, None))
    # rotations that permute / flip the Cartesian axes: the zero pattern of the known order-4 finding is covariant under
    # these, so order-4 results must follow them exactly (normal failure key); generic rotations with order 4 are the known finding
    for nm_, Q in (("axes-cyclic", np.array([[0.0, 1, 0], [0, 0, 1], [1, 0, 0]])), ("axes-swap-flip", np.array([[0.0, 1, 0], [1, 0, 0], [0, 0, -1.0]])[[0, 1, 2]] * np.array([1.0, 1, 1])[:, None])):
        trs.append(("signedperm-" + nm_, L @ Q.T, X, Z, d @ Q.T, f @ Q.T, ("rot", Q)))
    Q2 = np.diag([-1.0, 1.0, -1.0])           # the crystal turned by 180 degrees about y: an axis-aligned cell gets two negative diagonal entries
    trs.append(("signedperm-flip-two", L @ Q2.T, X, Z, d @ Q2.T, f @ Q2.T, ("rot", Q2)))
    for imp in (False, True):
        Q = rand_rotation(rng, imp)
        trs.append(("rotation-" + ("improper" if imp else "proper"), L @ Q.T, X, Z, d @ Q.T, f @ Q.T, ("rot", Q)))
    if ctx.quick:
        trs = trs[:4] + trs[5:8] + trs[-5:]
    if boundary_only:
        trs = []
        for fr in (1 / 2, 1 / 3, 1 / 4, 1 / 6, 1 / 8):
            for eps in (-1e-13, 1e-13):
                trs.append((f"origin-shift-{fr:.4f}{eps:+.0e}", L, X + (fr + eps), Z, d, f, None))
        for sh in (0.0005, 0.3335, 0.4995, 0.9995):
            trs.append((f"origin-shift-{sh}", L, X + sh, Z, d, f, None))
        if ctx.quick:
            trs = trs[0:10:2] + trs[1:10:4] + trs[10:]
    for nm, L2, X2, Z2, d2, f2, back in trs:
        at2 = SymfcAtoms(numbers=Z2, scaled_positions=X2, cell=L2)
        ctx.case({"cell": sc["name"], "transformation": nm, "orders": orders, "cutoff": None if cutoff is None else round(list(cutoff.values())[0], 4)}, nontrivial=True)
        ctx.count("tr:" + nm.split("[")[0])
        rep = {"cell": sc["name"], "transformation": nm, "cutoff": cutoff, "lattice": np.asarray(L2).tolist(), "positions": np.asarray(X2).tolist(), "numbers": [int(z) for z in Z2], "orders": orders}
        # the order-4 tables lack the (ia,ia,jb,jb) pattern (known finding C04/order4/pattern-aabb); forcing those
        # elements to zero is not a rotation-covariant condition, so order-4 results depend on the Cartesian frame
        known = (4 in orders) and nm.startswith("rotation")
        try:
            o2 = mk(at2, d2, f2).run(orders=orders, is_compact_fc=False)
        except Exception as e:  # noqa: BLE001
            ctx.fail("oracle", f"C10/oracle/raised/{nm.split('[')[0]}", f"{sc['name']} described via {nm}: {type(e).__name__}: {e}", replay=rep, has_input=True)
            continue
        for k in orders:
            fc2 = np.array(o2.force_constants[k])
            F2 = expanded(o2.basis_set[k])
            nb = F2.shape[1]
            T2 = F2.T.reshape((nb,) + (N,) * k + (3,) * k)
            if back is not None and back[0] == "perm":
                inv = np.argsort(back[1])
                idx = np.ix_(*([inv] * k))
                fc2 = fc2[idx]
                T2 = np.stack([t[idx] for t in T2]) if nb else T2
            elif back is not None and back[0] == "rot":
                fc2 = rotate_fc(fc2, k, back[1].T)
                T2 = np.stack([rotate_fc(t, k, back[1].T) for t in T2]) if nb else T2
            s = max(np.abs(fc0[k]).max(), 1e-300)
            err = float(np.abs(fc2 - fc0[k]).max() / s)
            if not err <= 1e-7:
                ctx.fail("oracle", "C10/order4/pattern-aabb/rotation" if known else f"C10/oracle/fc/{nm.split('[')[0]}",
                         f"{sc['name']} described via {nm}, orders {orders}: fitted fc{k} differs from the reference description by {err:.2e} (relative) after mapping back", replay=rep, has_input=True)
            ok, msg = same_span(F0[k], T2.reshape(nb, -1).T)
            if not ok:
                ctx.fail("oracle", "C10/order4/pattern-aabb/rotation" if known else f"C10/oracle/span/{nm.split('[')[0]}",
                         f"{sc['name']} described via {nm}, orders {orders}: span of the order-{k} basis differs ({msg})", replay=rep, has_input=True)
