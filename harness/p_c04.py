"""C04 — completeness.  Coq: props/C04.v (pattern coverage of the regenerated tables; order-4 refutation).
Oracle: independent dense construction of the admissible space (reference.py) on small cells, with and
without cutoff; dimension and span are compared; for order 4 the reference is also built with the
(ia,ia,jb,jb) pattern forced to zero so that the known finding is told apart from any other loss.
Census: which index-equality patterns are eliminated by c_pt on G-tables."""
from __future__ import annotations

import itertools

import numpy as np

from gens import atoms_of, base_cells, make_supercell, tables
from permcorr import fake_cutoff, impl_cpt_labels, random_near
from reference import atom_perm_by_matching, min_image_distances, projector_onto_admissible

UNITS = ["Tables", "IndepGen", "ShapesCombos", "ShapesO1", "ShapesBasis", "ShapesPerm", "ShapesAuxO1", "SkelBasis", "SkelPerm", "SkelIdx", "ShapesCoset", "ShapesSumRule", "ShapesSpg", "ShapesReps", "EigStruct", "ShapesAuxEig", "SkelSpg", "SkelEig", "SkelMat", "CutoffGen", "ShapesGeom", "ShapesAuxCut", "SkelCut", "ShapesApi", "SkelApi"]
PROPS = ["props/C04.v", "props/C04_span.v"]
ASSUMPTIONS = ["eigenvalue selection (np.isclose to 1, 1e-8 window) is C15's subject; the reference null space uses a 1e-9 relative threshold"]


def pattern_of(idx):
    vals = sorted(set(idx))
    return tuple(sorted(idx.count(v) for v in vals))


def check(ctx):
    import spglib
    from symfc import Symfc

    rng = np.random.default_rng(ctx.seed)
    from o1 import check_o1
    check_o1(ctx, "C04", np.random.default_rng(ctx.seed + 1001))   # the exported first-order basis
    ctx.rule = ("reference: cells with N<=3 (orders 2,3), N<=2 (order 4), triclinic/monoclinic/hexagonal/cubic, n_lp in {1,2}, cutoff none and between shells; "
                "census: G-tables N<=4, which set-partition patterns of the n indices are eliminated. Non-trivial: reference dimension >= 1")
    # ---- census of eliminated patterns on tables (no cutoff: nothing may be eliminated)
    for name, tp in tables(4 if ctx.quick else 6, rng):
        N = tp.shape[1]
        for order in (2, 3, 4):
            if order == 4 and (N > 3 or N < 2):
                continue
            if N ** order * 3 ** order > 60000:
                continue
            lab, c_pt, _ = impl_cpt_labels(tp, order)
            import p_c01
            idx = p_c01.impl_cls(tp, order)
            elim = {}
            grids = np.meshgrid(*([np.arange(3 * N)] * order), indexing="ij")
            Pt = np.stack([g.ravel() for g in grids], axis=1)
            a = np.zeros(len(Pt), dtype=np.int64)
            c = np.zeros(len(Pt), dtype=np.int64)
            for k in range(order):
                a = a * N + Pt[:, k] // 3
                c = c * 3 + Pt[:, k] % 3
            e = idx[a] * 3 ** order + c
            for t in Pt[lab[e] < 0]:
                pat = pattern_of(list(t))
                elim[pat] = elim.get(pat, 0) + 1
            ctx.case({"table": name, "order": order, "eliminated_patterns": {str(k): v for k, v in elim.items()}}, nontrivial=True)
            ctx.count(f"census-order{order}")
            for pat, cnt in elim.items():
                key = "C04/order4/pattern-aabb" if (order == 4 and pat == (2, 2)) else f"C04/oracle/census/order{order}"
                ctx.fail("oracle", key, f"table {name} (N={N}) order {order}, no cutoff: {cnt} index tuples with equality pattern {pat} are eliminated (forced to zero)",
                         replay={"tp": tp.tolist(), "order": order, "pattern": list(pat), "count": cnt}, has_input=True)
    pair_model_span(ctx, np.random.default_rng(ctx.seed + 3))
    character_count(ctx, np.random.default_rng(ctx.seed + 4))
    # ---- dense reference
    cells = [("mono_P", (1, 1, 1)), ("tri2_P1", (1, 1, 1)), ("tri1", (2, 1, 1)), ("hcp", (1, 1, 1)), ("tri3_P1", (1, 1, 1)), ("tri2_obtuse", (1, 1, 1)), ("ortho1", (2, 1, 1)), ("hex1", (1, 1, 2))]
    if not ctx.quick:
        cells += [("bcc_conv", (1, 1, 1)), ("tri2_Pm1", (1, 1, 1)), ("ortho_C", (1, 1, 1)), ("si_prim", (1, 1, 1)), ("tri1", (3, 1, 1)), ("nacl_prim", (1, 1, 1)), ("rhombo2", (1, 1, 1)), ("sheared", (1, 1, 1)), ("mono_C", (1, 1, 1)),
                  ("mono_P", (2, 1, 1)), ("tri2_P1", (1, 2, 1)), ("p3_general", (1, 1, 1)), ("tri1", (4, 1, 1)), ("tri1", (2, 2, 1))]   # N = 4: order 3 through the dense reference
    described = [make_supercell(base_cells()[cname], diag, rng=rng, shuffle=True) for cname, diag in cells]
    # the same crystals in strongly sheared (non-reduced) lattice bases, coordinates wrapped into [0,1)
    for cname in (("tri2_P1", "hcp") if ctx.quick else ("tri2_P1", "hcp", "mono_P", "tri3_P1", "si_prim")):
        for U in ([[1, 0, 0], [2, 1, 0], [1, -3, 1]], [[2, 1, 0], [1, 1, 0], [0, 1, 1]]):
            scu = make_supercell(base_cells()[cname], (1, 1, 1), unimodular=U)
            scu["positions"] = scu["positions"] % 1.0
            described.append(scu)
    # slightly distorted crystals (one atom moved by 3e-4 length units: far above the symmetry tolerance 1e-5, far below
    # anything one would call a different structure): the admissible space is the one of the distorted, less symmetric crystal
    for cname in (("hcp", "bcc_conv") if ctx.quick else ("hcp", "bcc_conv", "ortho_C", "nacl_prim", "tet_bc")):
        scd = make_supercell(base_cells()[cname], (1, 1, 1))
        scd = dict(scd)
        pos_ = np.array(scd["positions"], float)
        pos_[-1] += np.linalg.solve(np.asarray(scd["lattice"], float).T, np.array([3e-4, 1.7e-4, -2.3e-4]))
        scd["positions"] = pos_
        scd["name"] = scd["name"] + "-distorted3e-4"
        described.append(scd)
    for sc in described:
        N = len(sc["numbers"])
        at = atoms_of(sc)
        L = np.asarray(sc["lattice"], float)
        ops = spglib.get_symmetry((sc["lattice"], sc["positions"], sc["numbers"]))
        G = [(atom_perm_by_matching(L, sc["positions"], sc["numbers"], r, t), L.T @ r @ np.linalg.inv(L.T)) for r, t in zip(ops["rotations"], ops["translations"])]
        dist = min_image_distances(L, np.asarray(sc["positions"], float))
        shells = sorted(set(np.round(dist[dist > 1e-8], 6).tolist()))
        cuts = [None]
        if shells:
            for pos in sorted({1, len(shells) // 2, len(shells) - 1} - {0}):
                if pos < len(shells):
                    cuts.append((shells[pos - 1] + shells[pos]) / 2)
            cuts.append(shells[-1] + 0.3)
            if len(shells) >= 2 and shells[-1] - shells[-2] > 1e-2:
                cuts.append(shells[-1] - 1e-3)      # just below the largest distance (any "the cutoff is redundant" shortcut must not fire)
        # several orders in ONE call with a cutoff for the lowest order only: the higher order keeps its whole admissible space
        if len(cuts) > 1 and N <= (3 if ctx.quick else 4):
            try:
                o_ = Symfc(at, cutoff={2: cuts[1]}).compute_basis_set(orders=[2, 3])
                b3_ = o_.basis_set[3]
                F3_ = np.asarray(b3_.compression_matrix @ b3_.basis_set)
                Q3_ = projector_onto_admissible(N, 3, G, near=None)
                ctx.case({"cell": sc["name"], "orders": [2, 3], "cutoff": {"2": cuts[1]}, "ref_dim_order3": int(Q3_.shape[1]), "impl_dim_order3": int(F3_.shape[1])}, nontrivial=Q3_.shape[1] >= 1)
                ctx.count("reference-multi-order-call")
                if F3_.shape[1] != Q3_.shape[1]:
                    ctx.fail("oracle", "C04/oracle/dimension/order3", f"{sc['name']}: orders [2, 3] in one call with cutoff {{2: {cuts[1]:.4f}}}: the order-3 basis has {F3_.shape[1]} vectors, the admissible space (no cutoff was given for order 3) has dimension {Q3_.shape[1]}",
                             replay={"cell": sc["name"], "lattice": sc["lattice"].tolist(), "positions": sc["positions"].tolist(), "numbers": [int(x) for x in sc["numbers"]], "orders": [2, 3], "cutoff": {"2": cuts[1]}}, has_input=True)
            except (IndexError, ValueError):
                ctx.count("implementation-raised-on-degenerate-cutoff")
        for order in (2, 3, 4):
            if order == 4 and N > 2 or order == 3 and N > (3 if ctx.quick else 4):
                continue
            # the same group handed over explicitly: rotation-major listing and a shuffled one (identity first); no cutoff
            rots_, trans_ = np.asarray(ops["rotations"]), np.asarray(ops["translations"])
            listings = [("spglib", None, c_) for c_ in cuts]
            n_pure = sum(1 for r_ in rots_ if (r_ == np.eye(3, dtype=int)).all())
            if n_pure > 1 and order <= 3 and len(rots_) > n_pure and (rots_[0] == np.eye(3, dtype=int)).all() and np.abs(trans_[0]).max() < 1e-9:
                keys_ = [tuple(r_.ravel()) for r_ in rots_]
                first_ = {}
                for i_, k_ in enumerate(keys_):
                    first_.setdefault(k_, i_)
                rm_ = sorted(range(len(rots_)), key=lambda i_: (first_[keys_[i_]], i_))
                sh_ = [0] + list(1 + np.random.default_rng(ctx.seed + 11).permutation(len(rots_) - 1))
                listings += [("explicit-rotation-major", {"rotations": rots_[rm_], "translations": trans_[rm_]}, None),
                             ("explicit-shuffled", {"rotations": rots_[sh_], "translations": trans_[sh_]}, None)]
            # the whole group with the identity somewhere in the middle of the list (the property's quantifier says "supplied by the
            # caller", not "identity first"): an operation with a rotation part first
            nonid_ = [i_ for i_ in range(len(rots_)) if not (rots_[i_] == np.eye(3, dtype=int)).all()]
            if nonid_ and order <= 3:
                f_ = nonid_[int(np.random.default_rng(ctx.seed + 12).integers(len(nonid_)))]
                rest_ = [i_ for i_ in np.random.default_rng(ctx.seed + 13).permutation(len(rots_)) if i_ != f_]
                inf_ = [f_] + [int(i_) for i_ in rest_]
                listings.append(("explicit-identity-not-first", {"rotations": rots_[inf_], "translations": trans_[inf_]}, None))
            # the whole group as floating-point matrices that went through the Cartesian frame and back (integer up to rounding)
            if order <= 3:
                LT_ = L.T
                rrt_ = np.array([(np.eye(3) if (r_ == np.eye(3, dtype=int)).all() else np.linalg.inv(LT_) @ (LT_ @ r_ @ np.linalg.inv(LT_)) @ LT_) for r_ in rots_])   # pure translations keep the exact identity
                if np.abs(rrt_ - rots_).max() > 0:
                    listings.append(("explicit-float-roundtrip", {"rotations": rrt_, "translations": trans_.copy()}, None))
            # a proper subgroup handed over by the caller (proper rotations only, or the pure translations only): the admissible
            # space is the one of THAT group, which is larger
            subgroup_idx = {}
            if order <= 3 and (rots_[0] == np.eye(3, dtype=int)).all() and np.abs(trans_[0]).max() < 1e-9:
                prop_ = [i_ for i_ in range(len(rots_)) if round(np.linalg.det(rots_[i_])) == 1]
                pure_ = [i_ for i_ in range(len(rots_)) if (rots_[i_] == np.eye(3, dtype=int)).all()]
                for nm_, idx_ in (("explicit-proper-subgroup", prop_), ("explicit-translations-only", pure_)):
                    if 0 < len(idx_) < len(rots_):
                        listings.append((nm_, {"rotations": rots_[idx_], "translations": trans_[idx_]}, None))
                        subgroup_idx[nm_] = idx_
            if order == 4 and ctx.quick:
                listings = listings[:2]          # no cutoff and one shell boundary (the thorough tier runs them all)
            for lname, sgops, cut in listings:
                near = None if cut is None else dist < cut
                try:
                    o = Symfc(at, spacegroup_operations=sgops, cutoff=None if cut is None else {order: cut}).compute_basis_set(orders=[order])
                except (IndexError, ValueError):
                    ctx.count("implementation-raised-on-degenerate-cutoff")
                    continue
                except AssertionError:
                    if lname != "explicit-identity-not-first":
                        raise
                    ctx.count("listing-rejected-by-assertion")      # refused loudly: no result, no violation
                    continue
                b = o.basis_set[order]
                F = np.asarray(b.compression_matrix @ b.basis_set)
                Q = projector_onto_admissible(N, order, [G[i_] for i_ in subgroup_idx[lname]] if lname in subgroup_idx else G, near=near)
                ctx.case({"cell": sc["name"], "order": order, "cutoff": cut, "operations": lname, "ref_dim": int(Q.shape[1]), "impl_dim": int(F.shape[1])}, nontrivial=Q.shape[1] >= 1)
                ctx.count(f"reference-order{order}")
                rep = {"cell": sc["name"], "lattice": sc["lattice"].tolist(), "positions": sc["positions"].tolist(), "numbers": [int(x) for x in sc["numbers"]],
                       "order": order, "cutoff": cut, "operations": lname, "ref_dim": int(Q.shape[1]), "impl_dim": int(F.shape[1])}
                resid = float(np.abs(F - Q @ (Q.T @ F)).max()) if F.shape[1] else 0.0
                if resid > 1e-7:
                    ctx.fail("oracle", f"C04/oracle/not-admissible/order{order}", f"{sc['name']} order {order} cutoff={cut}: a basis vector lies outside the admissible space (residual {resid:.2e})", replay=rep, has_input=True)
                if F.shape[1] != Q.shape[1]:
                    key = f"C04/oracle/dimension/order{order}"
                    if order == 4:
                        Q22 = projector_onto_admissible(N, order, G, near=near, drop_pattern_22=True)
                        if Q22.shape[1] == F.shape[1] and (F.shape[1] == 0 or np.abs(F - Q22 @ (Q22.T @ F)).max() < 1e-7):
                            key = "C04/order4/pattern-aabb"
                    ctx.fail("oracle", key, f"{sc['name']} order {order} cutoff={cut}: basis has {F.shape[1]} vectors, the admissible space has dimension {Q.shape[1]}", replay=rep, has_input=True)


def pair_model_span(ctx, rng):
    """Completeness beyond the reach of the dense reference: the derivatives of a periodic pair-potential energy are admissible
    tensors (harness/pairmodel.py) and must lie in the span of the basis -- supercells up to 216 atoms, both sides of every
    size-dependent path (number of combinations, batches, integer widths)."""
    from symfc import Symfc
    from pairmodel import pair_tensor

    cells = [("tri2_P1", (3, 1, 1), (2, 3), True), ("p4_general", (1, 1, 1), (2, 3), True), ("hcp", (3, 3, 1), (2, 3), True),
             ("bcc_conv", (3, 3, 2), (3,), False), ("sc1", (4, 4, 4), (2,), False)]
    if not ctx.quick:
        cells += [("tri2_P1", (6, 6, 4), (2,), False),        # 288 atoms: beyond 16-bit pair indices (N^2 > 65535)
                  ("sc1", (6, 6, 6), (2,), False), ("fcc_conv", (2, 2, 2), (2, 3), False), ("wurtzite", (3, 3, 1), (2, 3), True), ("nacl_prim", (3, 3, 2), (3,), True),
                  ("mono_P", (3, 2, 2), (2, 3), True), ("bcc_conv", (3, 3, 2), (2, 3), True)]
    for cname, diag, orders, shuffle in cells:
        sc = make_supercell(base_cells()[cname], diag, rng=rng, shuffle=shuffle)
        N = len(sc["numbers"])
        at = atoms_of(sc)
        for order in orders:
            o = Symfc(at).compute_basis_set(orders=[order])
            b = o.basis_set[order]
            C, B = b.compression_matrix, np.asarray(b.basis_set)
            T = pair_tensor(order, sc["lattice"], sc["positions"], sc["numbers"]).reshape(-1)
            scale = float(np.abs(T).max())
            resid = float(np.abs(T - C @ (B @ (B.T @ (C.T @ T)))).max() / scale) if B.shape[1] else 1.0
            ctx.case({"pair_model": sc["name"], "order": order, "N": N, "n_basis": int(B.shape[1])}, nontrivial=True)
            ctx.count(f"pair-model-order{order}")
            if not resid <= 1e-9:
                ctx.fail("oracle", f"C04/oracle/pair-model/order{order}", f"{sc['name']} (N={N}) order {order}: the order-{order} derivative tensor of a periodic pair-potential energy (admissible by construction) is not in the span of the {B.shape[1]} basis vectors (relative residual {resid:.2e})",
                         replay={"cell": sc["name"], "lattice": np.asarray(sc["lattice"]).tolist(), "positions": np.asarray(sc["positions"]).tolist(), "numbers": [int(z) for z in sc["numbers"]], "order": order, "residual": resid}, has_input=True)


def character_count(ctx, rng):
    """Exact dimension of the space of index-permutation symmetric, space-group invariant tensors (no cutoff, before the sum rule)
    by the Burnside / cycle-index formula, for supercells of any size:  dim = 1/|G| sum_g Z_{S_n}(t_1(g), ..., t_n(g)),
    t_k(g) = trace((P_g x R_g)^k) = #{atoms fixed by g^k} * trace(R_g^k).  Compared with the number of columns of the
    compression matrix (= c_pt c_rpt), orders 2 and 3 (order 4 is under the known finding)."""
    import spglib
    from symfc import Symfc

    cells = [("tri2_P1", (3, 1, 1), True), ("p4_general", (1, 1, 1), True), ("hcp", (3, 3, 1), True), ("bcc_conv", (3, 3, 2), False), ("sc1", (4, 4, 4), False),
             ("wurtzite", (2, 2, 1), True), ("mono_P", (2, 1, 2), True)]
    if not ctx.quick:
        cells += [("fcc_conv", (2, 2, 2), False), ("nacl_prim", (3, 3, 2), True), ("rutile_like", (1, 1, 2), True), ("ortho_C", (2, 2, 1), True), ("p3_general", (2, 2, 1), True), ("si_prim", (2, 2, 2), True)]
    for cname, diag, shuffle in cells:
        sc = make_supercell(base_cells()[cname], diag, rng=rng, shuffle=shuffle)
        N = len(sc["numbers"])
        L = np.asarray(sc["lattice"], float)
        ops = spglib.get_symmetry((sc["lattice"], sc["positions"], sc["numbers"]))
        rots, trans = np.asarray(ops["rotations"]), np.asarray(ops["translations"])
        tk = []
        for r, t in zip(rots, trans):
            perm = np.asarray(atom_perm_by_matching(L, sc["positions"], sc["numbers"], r, t))
            R = L.T @ r @ np.linalg.inv(L.T)
            pk, Rk, row = np.arange(N), np.eye(3), []
            for _ in range(3):
                pk = perm[pk]
                Rk = R @ Rk
                row.append(float((pk == np.arange(N)).sum()) * float(np.trace(Rk)))
            tk.append(row)
        tk = np.array(tk)
        t1, t2, t3 = tk[:, 0], tk[:, 1], tk[:, 2]
        dims = {2: float(np.mean((t1 ** 2 + t2) / 2)), 3: float(np.mean((t1 ** 3 + 3 * t1 * t2 + 2 * t3) / 6))}
        for order in (2, 3):
            if N ** order * 3 ** order > 2_000_000:
                continue
            expect = dims[order]
            if abs(expect - round(expect)) > 1e-6:
                ctx.notes.append(f"character count for {sc['name']} order {order} is not an integer ({expect}); skipped")
                continue
            b = Symfc(atoms_of(sc)).compute_basis_set(orders=[order]).basis_set[order]
            got = int(b.compact_compression_matrix.shape[1])
            ctx.case({"character_count": sc["name"], "order": order, "N": N, "group_order": int(len(rots)), "expected": int(round(expect)), "got": got}, nontrivial=True)
            ctx.count(f"character-count-order{order}")
            if got != int(round(expect)):
                ctx.fail("oracle", f"C04/oracle/character-count/order{order}", f"{sc['name']} (N={N}, {len(rots)} operations) order {order}: the space of permutation-symmetric, space-group invariant tensors has dimension {int(round(expect))} (Burnside count), the compression matrix c_pt c_rpt has {got} columns",
                         replay={"cell": sc["name"], "lattice": L.tolist(), "positions": np.asarray(sc["positions"]).tolist(), "numbers": [int(z) for z in sc["numbers"]], "order": order, "expected": int(round(expect)), "got": got}, has_input=True)
