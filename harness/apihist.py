"""G-hist: API call histories run on real Symfc objects and on the Api.v state machine (inside Coq).

Compared after every operation: outcome class (ok / exception kind), keys of the result dictionary,
for every entry the array against the array a fresh object computes for the model's token
(order, combination, compact, dataset identities), bitwise stability of entries the model says are
untouched, and bitwise immutability of every user array, the supercell and every basis set.
"""
from __future__ import annotations

import hashlib

import numpy as np

from common import coq_eval, parse_ints, zl
from gens import atoms_of, base_cells, make_supercell

EXN_CODE = {RuntimeError: 1, NotImplementedError: 2, ValueError: 3, KeyError: 4, TypeError: 5}


def exn_code(e):
    for cls, c in EXN_CODE.items():
        if type(e) is cls:
            return c
    return 6


def sha(a):
    a = np.ascontiguousarray(a)
    return hashlib.sha1(a.tobytes() + str(a.shape).encode() + str(a.dtype).encode()).hexdigest()[:16]


def basis_fingerprint(b):
    m = b._n_a_compression_matrix
    return (sha(m.data), sha(m.indices), sha(m.indptr), sha(b._basis_set), sha(b._atomic_decompr_idx),
            sha(b.translation_permutations))


class World:
    """A tiny crystal with a pool of datasets and pre-computed basis sets."""

    def __init__(self, rng, cellname="mono_P", diag=(1, 1, 1), cutoff=None, n_snaps=(6, 6, 9)):
        from symfc import Symfc

        self.Symfc = Symfc
        self.sc = make_supercell(base_cells()[cellname], diag)
        self.atoms = atoms_of(self.sc)
        self.N = len(self.sc["numbers"])
        self.cutoff = cutoff
        N = self.N
        # array pool: id -> array (id 0 reserved for "None")
        self.arrays = {}
        aid = 1
        self.good_ids = []
        for n in n_snaps:
            d = rng.normal(size=(n, N, 3)) * 0.05
            f = rng.normal(size=(n, N, 3))
            self.arrays[aid] = d
            self.arrays[aid + 1] = f
            self.good_ids.append((aid, aid + 1))
            aid += 2
        self.bad_ids = []
        for shape in [(6, N), (6, N, 2), (6, N + 1, 3), (6, N, 3, 1), (N, 3), (0,)]:
            self.arrays[aid] = rng.normal(size=shape)
            self.bad_ids.append(aid)
            aid += 1
        self.array_sha = {i: sha(a) for i, a in self.arrays.items()}
        self.sc_sha = (sha(self.atoms._cell), sha(self.atoms._scaled_positions), sha(self.atoms._numbers))
        self._fresh = {}
        self._basis = None

    def new_object(self, did=None, fid=None):
        d = None if did is None else self.arrays[did]
        f = None if fid is None else self.arrays[fid]
        cutoff = None if self.cutoff is None else dict(self.cutoff)
        return self.Symfc(self.atoms, displacements=d, forces=f, cutoff=cutoff)

    def basis_pool(self):
        if self._basis is None:
            o = self.new_object()
            o.compute_basis_set(max_order=4)
            self._basis = dict(o.basis_set)
        return self._basis

    def fresh_result(self, orders, compact, did, fid):
        key = (tuple(orders), bool(compact), did, fid)
        if key not in self._fresh:
            o = self.new_object(did, fid)
            o.compute_basis_set(orders=list(orders))
            o.solve(orders=list(orders), is_compact_fc=bool(compact))
            self._fresh[key] = {k: np.array(v) for k, v in o.force_constants.items()}
        return self._fresh[key]


# ----------------------------------------------------------------------------- history generation
ORDER_SPECS_VALID = [(None, [2]), (None, [3]), (None, [4]), (None, [2, 3]), (None, [3, 4]), (None, [2, 3, 4]),
                     (None, [3, 2]), (None, [4, 3, 2]), (2, None), (3, None), (4, None), (3, [2])]
ORDER_SPECS_INVALID = [(None, None), (None, []), (None, [2, 4]), (None, [2, 2]), (None, [1]), (None, [5]), (None, [0, 2]),
                       (1, None), (5, None), (0, None), (None, [2, 3, 4, 5]), (None, [3, 3, 4])]


def gen_history(rng, world, length):
    h = []
    for _ in range(length):
        r = rng.random()
        spec = (ORDER_SPECS_VALID[rng.integers(len(ORDER_SPECS_VALID))] if rng.random() < 0.75
                else ORDER_SPECS_INVALID[rng.integers(len(ORDER_SPECS_INVALID))])
        compact = bool(rng.integers(2))
        if r < 0.12:
            pair = world.good_ids[rng.integers(len(world.good_ids))]
            h.append(("setdisp", pair[0] if rng.random() < 0.85 else world.bad_ids[rng.integers(len(world.bad_ids))]))
        elif r < 0.24:
            pair = world.good_ids[rng.integers(len(world.good_ids))]
            h.append(("setforces", pair[1] if rng.random() < 0.85 else world.bad_ids[rng.integers(len(world.bad_ids))]))
        elif r < 0.34:
            ks = [k for k in (2, 3, 4) if rng.random() < 0.6]
            h.append(("setbasis", ks))
        elif r < 0.52:
            h.append(("compute",) + spec)
        elif r < 0.90:
            h.append(("solve",) + spec + (compact,))
        else:
            h.append(("run",) + spec + (compact,))
    return h


def opt_z(m):
    return "None" if m is None else f"(Some {m})"


def opt_l(l):
    return "None" if l is None else f"(Some {zl(l)})"


def coq_op(world, p):
    k = p[0]
    if k == "setdisp":
        return f"OpSetDisp ({p[1]}%nat, {zl(world.arrays[p[1]].shape)})"
    if k == "setforces":
        return f"OpSetForces ({p[1]}%nat, {zl(world.arrays[p[1]].shape)})"
    if k == "setbasis":
        return "OpSetBasis [" + "; ".join(f"({x}, {x}%nat)" for x in p[1]) + "]"
    if k == "compute":
        return f"OpCompute {opt_z(p[1])} {opt_l(p[2])}"
    b = "true" if p[3] else "false"
    if k == "solve":
        return f"OpSolve {opt_z(p[1])} {opt_l(p[2])} {b}"
    return f"OpRun {opt_z(p[1])} {opt_l(p[2])} {b}"


def decode_state(xs):
    """Inverse of ApiTrace.flat_state (after the result code)."""
    code = xs[0]
    i = 1
    nfc = xs[i]; i += 1
    fc = {}
    for _ in range(nfc):
        key = xs[i]; i += 1
        k = xs[i]; lo = xs[i + 1]; i += 2
        o = xs[i:i + lo]; i += lo
        c = xs[i]; nb = xs[i + 1]; i += 2
        bids = xs[i:i + nb]; i += nb
        did, fid = xs[i], xs[i + 1]; i += 2
        fc[key] = (k, tuple(o), bool(c), tuple(bids), did, fid)
    nb = xs[i]; i += 1
    basis = {}
    for _ in range(nb):
        basis[xs[i]] = xs[i + 1]; i += 2
    return code, fc, basis


WHITE = [(2,), (3,), (4,), (2, 3), (3, 4), (2, 3, 4)]


def py_model_trace(world, init, h):
    """Python port of Api.v (used as the oracle when the Coq model cannot be built, and cross-checked
    against it otherwise).  Returns the same (code, fc tokens, basis) triples as decode_state."""
    disp, forces = init
    basis, fc = {}, {}
    out = []

    def shape(i):
        return None if i is None else tuple(world.arrays[i].shape)

    def check_orders(m, os):
        if m is None and os is None:
            return 1, None
        if m is not None:
            if m not in (2, 3, 4):
                return 2, None
            return 0, tuple(range(2, m + 1))
        o = tuple(sorted(os))
        return (0, o) if o in WHITE else (1, None)

    def check_dataset():
        a, b = shape(disp), shape(forces)
        return 0 if (a is not None and b is not None and a == b and len(a) == 3 and a[1:] == (world.N, 3)) else 1

    def solve(m, os, c):
        e = check_dataset()
        if e:
            return e
        e, o = check_orders(m, os)
        if e:
            return e
        if any(k not in basis for k in o):
            return 4
        for k in o:
            fc[k] = (k, o, bool(c), tuple(basis[x] for x in o), disp or 0, forces or 0)
        return 0

    def compute(m, os):
        e, o = check_orders(m, os)
        if e:
            return e
        for k in o:
            basis[k] = k
        return 0

    for p in h:
        code = 0
        if p[0] == "setdisp":
            disp = p[1]
        elif p[0] == "setforces":
            forces = p[1]
        elif p[0] == "setbasis":
            basis = {k: k for k in p[1]}
        elif p[0] == "compute":
            code = compute(p[1], p[2])
        elif p[0] == "solve":
            code = solve(p[1], p[2], p[3])
        elif p[0] == "run":
            if disp is not None and forces is not None:
                code = compute(p[1], p[2])
                if code == 0:
                    code = solve(p[1], p[2], p[3])
        out.append((code, dict(fc), dict(basis)))
    return out


def model_traces(world, inits, histories, tag):
    """Evaluate Api.v on all histories in one coqc call."""
    body, exprs = [], []
    for j, (init, h) in enumerate(zip(inits, histories)):
        did, fid = init
        d = "None" if did is None else f"(Some ({did}%nat, {zl(world.arrays[did].shape)}))"
        f = "None" if fid is None else f"(Some ({fid}%nat, {zl(world.arrays[fid].shape)}))"
        ops = "[" + "; ".join(coq_op(world, p) for p in h) + "]"
        exprs.append(f"trace {world.N} (init {d} {f}) {ops}")
    res = coq_eval(f"apihist_{tag}", ["From SymfcV Require Import PyPrelude Api ApiTrace."], body, exprs)
    out = []
    for r in res:
        # r is a list of lists: split on "]" boundaries
        inner = r.strip()
        assert inner.startswith("[")
        rows = []
        depth, cur = 0, ""
        for ch in inner:
            if ch == "[":
                depth += 1
                if depth == 2:
                    cur = ""
                    continue
            if ch == "]":
                depth -= 1
                if depth == 1:
                    rows.append(parse_ints(cur))
                    continue
            if depth >= 2:
                cur += ch
        out.append([decode_state(x) for x in rows])
    return out


def run_real(world, init, h, model, ctx, pid, hist_id):
    """Run one history on a real object, comparing with the model trace. Returns list of mismatches."""
    obj = world.new_object(*init)
    pool = world.basis_pool()
    pool_fp = {k: basis_fingerprint(b) for k, b in pool.items()}
    own_fp = {}  # id(basis object) -> fingerprint at first sight
    bad = []
    prev_sha, prev_tok = {}, {}

    def note(step, what):
        bad.append({"history": hist_id, "step": step, "op": h[step] if step < len(h) else None, "what": what,
                    "init": init, "ops": h})

    for s, p in enumerate(h):
        code = 0
        try:
            if p[0] == "setdisp":
                obj.displacements = world.arrays[p[1]]
            elif p[0] == "setforces":
                obj.forces = world.arrays[p[1]]
            elif p[0] == "setbasis":
                obj.basis_set = {k: pool[k] for k in p[1]}
            elif p[0] == "compute":
                obj.compute_basis_set(max_order=p[1], orders=p[2])
            elif p[0] == "solve":
                obj.solve(max_order=p[1], orders=p[2], is_compact_fc=p[3])
            elif p[0] == "run":
                obj.run(max_order=p[1], orders=p[2], is_compact_fc=p[3])
        except Exception as e:  # noqa: BLE001
            code = exn_code(e)
        mcode, mfc, mbasis = model[s]
        ctx.count(f"op:{p[0]}")
        ctx.count("outcome:" + ("ok" if code == 0 else f"exn{code}"))
        if (code == 0) != (mcode == 0):
            note(s, f"outcome differs: implementation {'ok' if code == 0 else 'raised code %d' % code}, model code {mcode}")
        elif code != mcode:
            note(s, f"exception kind differs: implementation code {code}, model code {mcode}")
        # result dictionary
        real_fc = obj.force_constants
        if set(real_fc.keys()) != set(mfc.keys()):
            note(s, f"result keys differ: implementation {sorted(real_fc.keys())}, model {sorted(mfc.keys())}")
        cur_sha = {}
        for k, arr in real_fc.items():
            cur_sha[k] = sha(arr)
            if k not in mfc:
                continue
            tok = mfc[k]
            kk, o, c, bids, did, fid = tok
            exp = world.fresh_result(o, c, did, fid)[k]
            if arr.shape != exp.shape:
                note(s, f"fc[{k}] shape {arr.shape} differs from a fresh object's {exp.shape} for token {tok}")
            else:
                scale = max(1.0, float(np.abs(exp).max()))
                err = float(np.abs(arr - exp).max())
                if not err <= 1e-8 * scale:
                    note(s, f"fc[{k}] differs from a fresh object's result by {err:.3e} for token {tok}")
            n_exp = (world.N if not c else len(next(iter(pool.values())).p2s_map),) + (world.N,) * (k - 1) + (3,) * k
            if tuple(arr.shape) != n_exp:
                note(s, f"fc[{k}] has shape {arr.shape}, documented {n_exp}")
            if k in prev_tok and prev_tok[k] == tok and k in prev_sha and code != 0 and prev_sha[k] != cur_sha[k]:
                note(s, f"fc[{k}] changed although the call raised")
        if code != 0 and cur_sha != prev_sha:
            note(s, "result dictionary changed by a call that raised")
        prev_sha, prev_tok = cur_sha, dict(mfc)
        # basis dictionary keys
        if set(obj.basis_set.keys()) != set(mbasis.keys()):
            note(s, f"basis keys differ: implementation {sorted(obj.basis_set.keys())}, model {sorted(mbasis.keys())}")
        # immutability
        for i, a in world.arrays.items():
            if sha(a) != world.array_sha[i]:
                note(s, f"user array {i} was modified")
                world.array_sha[i] = sha(a)
        if (sha(world.atoms._cell), sha(world.atoms._scaled_positions), sha(world.atoms._numbers)) != world.sc_sha:
            note(s, "supercell arrays were modified")
        for k, b in pool.items():
            if basis_fingerprint(b) != pool_fp[k]:
                note(s, f"shared basis set {k} was modified")
                pool_fp[k] = basis_fingerprint(b)
        for k, b in obj.basis_set.items():
            fp = basis_fingerprint(b)
            if id(b) in own_fp and own_fp[id(b)][1] is b and own_fp[id(b)][0] != fp:
                note(s, f"basis set {k} of the object was modified after creation")
            own_fp[id(b)] = (fp, b)
    return bad


def run_histories(ctx, pid, n_hist, length, rng, world=None, tag="q", use_coq=True):
    world = world or World(rng)
    inits, hs = [], []
    for j in range(n_hist):
        r = rng.random()
        if r < 0.6:
            init = world.good_ids[rng.integers(len(world.good_ids))]
        elif r < 0.8:
            init = (None, None)
        elif r < 0.9:
            init = (world.good_ids[0][0], None)
        else:
            init = (world.good_ids[0][0], world.good_ids[2][1])  # snapshot-count mismatch
        inits.append(init)
        hs.append(gen_history(rng, world, length))
    pymodels = [py_model_trace(world, i, h) for i, h in zip(inits, hs)]
    all_bad = []
    models = None
    if use_coq:
        try:
            models = model_traces(world, inits, hs, f"{pid}_{tag}")
        except Exception as e:  # noqa: BLE001
            if ctx.coq_ok:
                all_bad.append({"history": None, "step": None, "what": f"the Coq model could not be evaluated: {e}"[:600], "no_input": True})
    if models is not None:
        for j, (a, b) in enumerate(zip(models, pymodels)):
            if a != b:
                all_bad.append({"history": j, "step": None, "init": inits[j], "ops": hs[j], "no_input": True,
                                "what": "Api.v trace and its Python port disagree (harness inconsistency or changed translated tables)"})
    for j, (init, h, m) in enumerate(zip(inits, hs, models if models is not None else pymodels)):
        if len(m) != len(h):
            all_bad.append({"history": j, "what": "model trace length mismatch"})
            continue
        bad = run_real(world, init, h, m, ctx, pid, j)
        ctx.traces += 1
        ctx.case({"init": init, "ops": [list(map(lambda x: x if not isinstance(x, tuple) else list(x), p)) for p in h]},
                 nontrivial=any(p[0] in ("solve", "run") for p in h))
        all_bad.extend(bad)
    return all_bad
