"""C02 — space-group invariance.  Coq: props/C02.v.  Correspondence: get_compr_coset_projector_On (no c_pt)
against an independent reconstruction: C_trans^T [ (1/|G|) sum over ALL operations of (atom-tuple
permutation) x (R x ... x R) ] C_trans, restricted to the cutoff mask.  Oracle: explicit g.Phi - Phi over all
operations on expanded basis vectors and fits; explicit subgroups; shuffled operation order."""
from __future__ import annotations

import importlib
import itertools

import numpy as np

from common import coq_eval, natl, natll, parse_ints, try_coq
from gens import atoms_of, base_cells, make_supercell, random_dataset
from tensors import apply_op, full_basis_tensors, same_span

UNITS = ["IndepGen", "ShapesSpg", "ShapesCoset", "ShapesO1", "ShapesBasis", "ShapesAuxO1", "ShapesReps", "SkelSpg", "SkelBasis", "SkelIdx", "ShapesSumRule", "ShapesPerm", "SkelMat", "SkelPerm", "EigStruct", "ShapesAuxEig", "SkelEig", "ShapesApi", "SkelApi", "SolverStruct", "ShapesSolvers", "SkelSolvers", "Tables", "ShapesCombos", "CutoffGen", "ShapesGeom", "ShapesAuxCut", "SkelCut"]
PROPS = ["props/C02.v"]
EXTRA = ["theories/CosetModel.vo"]
ASSUMPTIONS = ["orthogonality and the group law of the float matrices L r L^-1, the 1e-10 entry drop and spglib's output are assumptions checked numerically",
               "the relation 'coset projector of the code = average over the group' is established by the numerical correspondence on small cells, the algebra around it by the theorems"]


def full_rep(perm, R, order, N):
    """dense matrix of g on tensors: out[g(i1..), a..] = R..R in[(i1..), b..]"""
    size = N ** order * 3 ** order
    at = np.array(list(itertools.product(range(N), repeat=order)))
    src = np.ravel_multi_index(at.T, (N,) * order)
    dst = np.ravel_multi_index(perm[at].T, (N,) * order)
    Pa = np.zeros((N ** order, N ** order))
    Pa[dst, src] = 1.0
    Rk = R
    for _ in range(order - 1):
        Rk = np.kron(Rk, R)
    return np.kron(Pa, Rk)


def check(ctx):
    from symfc import Symfc
    from symfc.spg_reps import SpgRepsO2, SpgRepsO3, SpgRepsO4

    rng = np.random.default_rng(ctx.seed)
    from bigcell import check_bigcells
    check_bigcells(ctx, "C02", np.random.default_rng(ctx.seed + 2002))   # supercells of 36-216 atoms
    from o1 import check_o1
    check_o1(ctx, "C02", np.random.default_rng(ctx.seed + 1001))   # the exported first-order basis
    from basisobj import check_handover_then_compute
    check_handover_then_compute(ctx, "C02", np.random.default_rng(ctx.seed + 81))
    ctx.rule = ("cells: triclinic P1/P-1, monoclinic P/C, orthorhombic C, hexagonal, rhombohedral, cubic primitive/centred, n_lp in {1,2,4}, shuffled atoms; operations: spglib, "
                "explicit full group in shuffled order (identity first, and with a rotation first), proper subgroup; every operation applied to expanded basis vectors (all, up to a cap) and to fits. Non-trivial: group order >= 2")
    cells = [("mono_P", (1, 1, 1)), ("tri2_Pm1", (1, 1, 1)), ("hcp", (1, 1, 1)), ("bcc_conv", (1, 1, 1)), ("ortho_C", (1, 1, 1)), ("tri1", (2, 2, 1)), ("rhombo2", (1, 1, 1)), ("nacl_prim", (1, 1, 1)), ("mono_C", (1, 1, 1)),
             ("tri1", (3, 1, 1)), ("mono_P", (1, 3, 1)), ("p4_general", (1, 1, 1)), ("p3_general", (1, 1, 1))]   # lattice translations of order 3 (T != T^-1)
    if not ctx.quick:
        cells += [("si_prim", (1, 1, 1)), ("fcc_conv", (1, 1, 1)), ("wurtzite", (1, 1, 1)), ("tet_bc", (1, 1, 1)), ("hex1", (2, 1, 1)), ("tri1", (2, 2, 2)), ("sc1", (2, 1, 1)), ("cscl", (1, 1, 1))]
    import spglib
    # species twins: an ordered alloy first, then the pure metal on bit-identical sites (more symmetric)
    alloy = make_supercell(base_cells()["fcc_conv"], (1, 1, 1))
    alloy = dict(alloy, numbers=np.array([13, 13, 13, 79]), name="fcc_conv-1x1x1-alloy")
    # a left-handed description (basis vectors a and b exchanged, det(cell) < 0) of a crystal whose rotations mix all three axes
    lh = make_supercell(base_cells()["si_prim"], (1, 1, 1))
    lh = dict(lh, lattice=np.asarray(lh["lattice"], float)[[1, 0, 2]], positions=np.asarray(lh["positions"], float)[:, [1, 0, 2]], name="si_prim-1x1x1-lefthanded")
    for cname, diag in cells + [("given", alloy), ("given", make_supercell(base_cells()["fcc_conv"], (1, 1, 1))), ("given", lh)]:
        sc = diag if cname == "given" else make_supercell(base_cells()[cname], diag, rng=rng, shuffle=True)
        N = len(sc["numbers"])
        at = atoms_of(sc)
        L = np.asarray(sc["lattice"], float)
        ops = spglib.get_symmetry((sc["lattice"], sc["positions"], sc["numbers"]))
        rots, trans = np.array(ops["rotations"]), np.array(ops["translations"])
        nops = len(rots)
        # atom permutation of every operation by an independent nearest-site search (not the library's tables: the invariance is
        # demanded under the operations of the STRUCTURE, whatever subset the library may have found or used)
        from reference import atom_perm_by_matching
        perms_all = np.array([atom_perm_by_matching(L, np.asarray(sc["positions"], float), np.asarray(sc["numbers"]), rots[i_], trans[i_]) for i_ in range(nops)])
        Rc = [L.T @ r @ np.linalg.inv(L.T) for r in rots]
        variants = [("spglib", None)]
        order_ = [0] + list(1 + rng.permutation(nops - 1)) if nops > 1 else [0]
        if not (rots[0] == np.eye(3, dtype=int)).all() or np.abs(trans[0]).max() > 1e-9:
            order_ = list(range(nops))
        variants.append(("explicit-shuffled", {"rotations": rots[order_], "translations": trans[order_]}))
        # rotation-major listing: all operations sharing a rotation are adjacent (identity rotation first)
        keys = [tuple(r.ravel()) for r in rots]
        first = {}
        for i_, k_ in enumerate(keys):
            first.setdefault(k_, i_)
        rm = sorted(range(nops), key=lambda i_: (first[keys[i_]], i_))
        if (rots[rm[0]] == np.eye(3, dtype=int)).all() and np.abs(trans[rm[0]]).max() < 1e-9:
            variants.append(("explicit-rotation-major", {"rotations": rots[rm], "translations": trans[rm]}))
        # a listing by generators of the same group: every pure translation, then ONE operation per remaining rotation part
        # (the library's own decomposition: translations x one operation per distinct rotation); invariance is demanded under
        # every operation of the generated group, i.e. under all spglib operations
        pure_ = [i_ for i_ in range(nops) if (rots[i_] == np.eye(3, dtype=int)).all()]
        reps_ = [first[k_] for k_ in first if not (np.array(k_).reshape(3, 3) == np.eye(3, dtype=int)).all()]
        cosetlist = sorted(pure_, key=lambda i_: (np.abs(trans[i_]).max() > 1e-9, i_)) + reps_
        if len(pure_) > 1 and reps_ and (rots[cosetlist[0]] == np.eye(3, dtype=int)).all() and np.abs(trans[cosetlist[0]]).max() < 1e-9:
            variants.append(("explicit-translations-plus-representatives", {"rotations": rots[cosetlist], "translations": trans[cosetlist]}))
        # the whole group with the identity NOT first: an operation with a rotation part leads the list
        nonid = [i_ for i_ in range(nops) if not (rots[i_] == np.eye(3, dtype=int)).all()]
        inf_order = None
        if nonid:
            f_ = nonid[int(rng.integers(len(nonid)))]
            inf_order = [f_] + [int(i_) for i_ in rng.permutation(nops) if i_ != f_]
            variants.append(("explicit-identity-not-first", {"rotations": rots[inf_order], "translations": trans[inf_order]}))
        # the operations as floating-point matrices that went through the Cartesian frame and back (L^-T (L^T r L^-T) L^T): integer
        # up to rounding, e.g. 0.9999999999999999
        LT_ = L.T
        rots_rt = np.array([(np.eye(3) if (r_ == np.eye(3, dtype=int)).all() else np.linalg.inv(LT_) @ (LT_ @ r_ @ np.linalg.inv(LT_)) @ LT_) for r_ in rots])   # pure translations keep the exact identity
        if np.abs(rots_rt - rots).max() > 0:
            variants.append(("explicit-float-roundtrip", {"rotations": rots_rt, "translations": trans.copy()}))
        proper = [i for i in range(nops) if round(np.linalg.det(rots[i])) == 1]
        if 0 < len(proper) < nops:
            variants.append(("proper-subgroup", {"rotations": rots[proper], "translations": trans[proper]}))
        for vname, sgops in variants:
            if sgops is None:
                g_idx = list(range(nops))
            elif vname == "explicit-shuffled":
                g_idx = order_
            elif vname == "explicit-rotation-major":
                g_idx = rm
            elif vname in ("explicit-translations-plus-representatives", "explicit-identity-not-first", "explicit-float-roundtrip"):
                g_idx = list(range(nops))
            else:
                g_idx = proper
            for order in (2, 3, 4):
                if N ** order * 3 ** order > 300000:
                    continue
                obj = Symfc(at, spacegroup_operations=sgops)
                try:
                    obj.compute_basis_set(orders=[order])
                except AssertionError as e:
                    if vname != "explicit-identity-not-first":
                        raise
                    # the implementation refuses (loudly) listings whose first operation is not the identity when the cell has
                    # pure translations besides it: no result, no violation
                    ctx.count("listing-rejected-by-assertion")
                    continue
                except Exception as e:  # noqa: BLE001
                    ctx.fail("oracle", f"C02/oracle/raised/order{order}", f"{sc['name']} ops={vname} order {order}: computing the basis set raised {type(e).__name__}: {e}",
                             replay={"cell": sc["name"], "lattice": sc["lattice"].tolist(), "positions": sc["positions"].tolist(), "numbers": [int(x) for x in sc["numbers"]], "ops": vname, "order": order,
                                     "rotations": None if sgops is None else np.asarray(sgops["rotations"]).tolist(), "translations": None if sgops is None else np.asarray(sgops["translations"]).tolist()}, has_input=True)
                    continue
                b = obj.basis_set[order]
                nb = b.basis_set.shape[1]
                ctx.case({"cell": sc["name"], "ops": vname, "order": order, "group_order": len(g_idx), "n_basis": int(nb)}, nontrivial=len(g_idx) >= 2 and nb > 0)
                ctx.count("ops:" + vname)
                if nb == 0:
                    continue
                T = full_basis_tensors(b, order, N)
                cap = 12 if ctx.quick else 80
                worst, arg = 0.0, None
                comb = np.tensordot(rng.normal(size=nb), T, axes=(0, 0))          # every column takes part
                for v in list(T[:cap]) + [comb]:
                    s = max(np.abs(v).max(), 1e-300)
                    for gi in g_idx:
                        d = float(np.abs(apply_op(v, order, perms_all[gi], Rc[gi]) - v).max() / s)
                        if d > worst:
                            worst, arg = d, gi
                if worst > 1e-8:
                    ctx.fail("oracle", f"C02/oracle/basis/order{order}", f"{sc['name']} ops={vname} order {order}: an expanded basis vector is not invariant under operation {arg} (r={rots[arg].tolist()}, t={trans[arg].round(6).tolist()}): relative change {worst:.2e}",
                             replay={"cell": sc["name"], "lattice": sc["lattice"].tolist(), "positions": sc["positions"].tolist(), "numbers": [int(x) for x in sc["numbers"]], "ops": vname, "order": order, "operation": int(arg)}, has_input=True)
                # the span of a subgroup's basis must contain the full group's basis (and equal it for the full group given in another order)
                if vname in ("explicit-shuffled", "explicit-rotation-major", "explicit-translations-plus-representatives", "explicit-identity-not-first", "explicit-float-roundtrip"):
                    o2 = Symfc(at)
                    o2.compute_basis_set(orders=[order])
                    F1 = np.asarray(b.compression_matrix @ b.basis_set)
                    b2 = o2.basis_set[order]
                    F2 = np.asarray(b2.compression_matrix @ b2.basis_set)
                    if not same_span(F1, F2)[0]:
                        ctx.fail("oracle", f"C02/oracle/op-order/order{order}", f"{sc['name']} order {order}: the span depends on the order in which the operations are listed",
                                 replay={"cell": sc["name"], "order": order, "op_order": list(map(int, order_))}, has_input=True)
            # fits
            if N <= 4 and vname != "proper-subgroup":
                for orders in ([2], [2, 3], [2, 3, 4]):
                    d, f = random_dataset(rng, 8, N)
                    try:
                        o = Symfc(at, displacements=d, forces=f, spacegroup_operations=sgops).compute_basis_set(orders=orders)
                    except Exception:  # noqa: BLE001
                        continue  # reported above
                    if any(bb.basis_set.shape[1] == 0 for bb in o.basis_set.values()):
                        continue
                    try:
                        o.solve(orders=orders, is_compact_fc=False)
                    except np.linalg.LinAlgError:
                        continue
                    for k, fc in o.force_constants.items():
                        s = max(np.abs(fc).max(), 1e-300)
                        worst = max(float(np.abs(apply_op(fc, k, perms_all[gi], Rc[gi]) - fc).max() / s) for gi in g_idx)
                        ctx.case({"cell": sc["name"], "ops": vname, "fit": orders, "order": k}, nontrivial=len(g_idx) >= 2)
                        if worst > 1e-8:
                            ctx.fail("oracle", f"C02/oracle/fit/order{k}", f"{sc['name']} ops={vname}: fitted fc{k} (orders {orders}) is not invariant under the group ({worst:.2e})",
                                     replay={"cell": sc["name"], "orders": orders, "order": k}, has_input=True)
        # ---- correspondence: coset projector vs independent group average (small cells)
        for order, Reps in ((2, SpgRepsO2), (3, SpgRepsO3)):
            if N ** order * 3 ** order > 2500:
                continue
            mod = importlib.import_module(f"symfc.utils.utils_O{order}")
            reps = Reps(at)
            Pimpl = getattr(mod, f"get_compr_coset_projector_O{order}")(reps).toarray()
            tp = np.asarray(reps.translation_permutations)
            ctr = getattr(mod, f"get_lat_trans_compr_matrix_O{order}")(tp).toarray()
            perms = np.asarray(reps._permutations)
            avg = np.zeros((N ** order * 3 ** order,) * 2)
            for gi in range(nops):
                avg += full_rep(perms[gi], Rc[gi], order, N)
            avg /= nops
            Pref = ctr.T @ avg @ ctr
            ctx.traces += 1
            ctx.case({"cell": sc["name"], "coset_projector_order": order}, nontrivial=nops >= 2)
            dd = float(np.abs(Pimpl - Pref).max())
            if dd > 1e-9:
                ctx.fail("correspondence", f"C02/corr/coset-projector/order{order}", f"{sc['name']}: compressed coset projector of order {order} differs from the average over the whole group by {dd:.2e}",
                         replay={"cell": sc["name"], "lattice": sc["lattice"].tolist(), "positions": sc["positions"].tolist(), "numbers": [int(x) for x in sc["numbers"]], "order": order}, has_input=True)
            if np.abs(Pimpl @ Pimpl - Pimpl).max() > 1e-9 or np.abs(Pimpl - Pimpl.T).max() > 1e-9:
                ctx.fail("oracle", f"C02/conformance/projector/order{order}", f"{sc['name']}: the coset matrix of order {order} is not an orthogonal projector", replay={"cell": sc["name"], "order": order}, has_input=True)

    # ---- correspondence with the Coq model of the compressed coset sum (cells whose Cartesian rotations are integer matrices)
    def corr():
        from symfc.spg_reps import SpgRepsO2 as R2, SpgRepsO3 as R3, SpgRepsO4 as R4
        todo = [("mono_P", (1, 1, 1)), ("tri2_Pm1", (1, 1, 1)), ("bcc_conv", (1, 1, 1)), ("cscl", (1, 1, 1)), ("tri1", (2, 2, 1)), ("ortho_C", (1, 1, 1)), ("tet_bc", (1, 1, 1))]
        if not ctx.quick:
            todo += [("sc1", (2, 1, 1)), ("mono_C", (1, 1, 1)), ("ortho_I", (1, 1, 1)), ("nacl_prim", (1, 1, 1)), ("fcc_conv", (1, 1, 1)), ("tri1", (2, 2, 2))]
        exprs, meta = [], []
        for cname, diag in todo:
            sc = make_supercell(base_cells()[cname], diag, rng=rng, shuffle=True)
            N = len(sc["numbers"])
            at = atoms_of(sc)
            L = np.asarray(sc["lattice"], float)
            for order, Reps in ((2, R2), (3, R3), (4, R4)):
                if N ** order * 3 ** order > (1500 if ctx.quick else 7000):
                    continue
                reps = Reps(at)
                uri = reps.unique_rotation_indices
                rots = reps._get_symops(None)[0]
                Rs = [L.T @ np.asarray(rots[i]) @ np.linalg.inv(L.T) for i in uri]
                if any(np.abs(R - np.rint(R)).max() > 1e-9 for R in Rs):
                    continue
                mod = importlib.import_module(f"symfc.utils.utils_O{order}")
                Pimpl = getattr(mod, f"get_compr_coset_projector_O{order}")(reps).toarray()
                tp = np.asarray(reps.translation_permutations)
                ops = "[" + "; ".join("(" + natl(np.asarray(reps._permutations)[i]) + ", [" + "; ".join("[" + "; ".join(f"({int(round(x))})" for x in row) + "]" for row in R) + "])" for i, R in zip(uri, Rs)) + "]"
                size = Pimpl.shape[0]
                Pint = np.rint(Pimpl * len(uri)).astype(np.int64)
                integral = float(np.abs(Pimpl * len(uri) - Pint).max())
                rr, cc = np.nonzero(Pint)
                exp = "[" + "; ".join(f"[{int(r_)}; {int(c_)}; ({int(Pint[r_, c_])})]" for r_, c_ in zip(rr, cc)) + "]"
                exprs.append(f"coset_check {order}%nat {N}%nat ({natll(tp)}) None {ops} {size}%N {exp}")
                meta.append((sc, order, integral, len(uri)))
        for s0 in range(0, len(exprs), 4):
            res = coq_eval(f"c02_coset_{ctx.tier}_{s0}", ["From SymfcV Require Import Tuples Concrete Cutoff CosetModel."], [], exprs[s0:s0 + 4], timeout=1500)
            for (sc, order, integral, nrot), r in zip(meta[s0:s0 + 4], res):
                ctx.traces += 1
                ctx.case({"cell": sc["name"], "coset_model_order": order, "n_rotations": int(nrot)}, nontrivial=nrot >= 2)
                ctx.count("coset-model")
                if r.strip() != "true" or integral > 1e-9:
                    ctx.fail("correspondence", f"C02/corr/coset-model/order{order}", f"{sc['name']}: compressed coset sum of order {order} (times the number of rotations) differs from the Coq model CosetModel.coset_triples" + ("" if integral <= 1e-9 else " (not integral)"),
                             replay={"cell": sc["name"], "lattice": sc["lattice"].tolist(), "positions": sc["positions"].tolist(), "numbers": [int(x) for x in sc["numbers"]], "order": order}, has_input=True)
    try_coq(ctx, "C02/corr/coset-model", corr)
