"""C11 — independence of the evaluation path.  Coq: props/C11.v (batch partition for all sizes, labels
independent of batching/write order, reference tables equal, Gram by batches, sum-rule scale, eigen paths).
Oracle: differential runs -- snapshot batch sizes, hook-forced atom / combination / sum-rule batches,
eigen-solver threshold, log level, thread count (subprocess), explicit n_batch arguments, fast vs
reference / stable variants, one object vs separate objects."""
from __future__ import annotations

import contextlib
import importlib
import io
import json
import os
import subprocess
import sys

import numpy as np
import scipy.sparse as sp

from gens import atoms_of, base_cells, make_supercell, tables
from permcorr import fake_cutoff, impl_cpt_labels, random_near
from solvers import COMBOS, Prepared, solver_cells
from tensors import same_span

UNITS = ["BatchGen", "Tables", "EigStruct", "LogIndep", "ShapesRef", "ShapesSolvers", "ShapesPerm", "ShapesSumRule", "ShapesAuxBatch", "ShapesAuxPerm3", "SkelSolvers", "SkelMat", "SkelPerm", "ShapesBasis", "SkelBasis", "ShapesCoset", "SkelEig", "ShapesAuxEig", "SkelIdx", "ShapesApi", "SkelApi", "IndepGen", "ShapesSpg", "ShapesReps", "SkelSpg"]
PROPS = ["props/C11.v"]
ASSUMPTIONS = ["floating-point non-associativity, BLAS threading and log level are outside any theorem (differential tests, 1e-8 relative)"]


@contextlib.contextmanager
def env(**kw):
    old = {k: os.environ.get(k) for k in kw}
    os.environ.update({k: str(v) for k, v in kw.items()})
    try:
        yield
    finally:
        for k, v in old.items():
            if v is None:
                os.environ.pop(k, None)
            else:
                os.environ[k] = v


def fcs_close(a, b, tol=1e-8):
    for m in a:
        s = max(np.abs(a[m]).max(), np.abs(b[m]).max(), 1e-300)
        d = float(np.abs(a[m] - b[m]).max() / s)
        if not d <= tol:
            return False, m, d
    return True, None, 0.0


def check(ctx):
    from symfc import Symfc
    from symfc.solvers import FCSolverO2, FCSolverO3, FCSolverO4

    rng = np.random.default_rng(ctx.seed)
    from basisobj import check_basis_objects
    check_basis_objects(ctx, "C11", np.random.default_rng(ctx.seed + 77))
    ctx.rule = ("cells as in C06; batch_size in {1,2,3,7,n,n+1}; SYMFC_VERIF_SOLVER_NBATCH in {1,2,N}; PERM_NBATCH in {1,2,3}; SUMRULE_NBATCH in 1..N; EIG_THRESHOLD below/above; "
                "log_level 0/1; OMP threads 1 vs 16 (subprocess, thorough); explicit n_batch arguments; reference/stable variants on G-tables")
    # ---------------- solvers: snapshot batches, atom batches, log level
    for cname, diag in solver_cells(ctx.quick):
        P = Prepared(cname, diag, rng)
        for orders in COMBOS:
            if not P.usable(orders):
                continue
            ncoef = sum(P.nb[m] for m in orders)
            n = 3 * int(np.ceil(ncoef / (3 * P.N))) + 5
            d = rng.normal(size=(n, P.N, 3)) * 0.1
            f = rng.normal(size=(n, P.N, 3))

            def run(bs=100, nbatch=None, log=0):
                with env(**({"SYMFC_VERIF_SOLVER_NBATCH": min(nbatch, P.N)} if nbatch else {})):
                    if len(orders) == 1:
                        cls = {2: FCSolverO2, 3: FCSolverO3, 4: FCSolverO4}[orders[0]]
                        buf = io.StringIO()
                        with contextlib.redirect_stdout(buf):
                            s = cls(P.basis[orders[0]], log_level=log).solve(d, f, batch_size=bs)
                        return {orders[0]: np.array(s.full_fc)}
                    o = P.new(d, f)
                    o._log_level = log
                    buf = io.StringIO()
                    with contextlib.redirect_stdout(buf):
                        o.solve(orders=list(orders), is_compact_fc=False, batch_size=bs)
                    return {m: np.array(o.force_constants[m]) for m in orders}
            try:
                base = run()
            except np.linalg.LinAlgError:
                ctx.count("skipped-singular")
                continue
            rep = {**P.describe(), "orders": list(orders), "disps": d.tolist(), "forces": f.tolist()}
            settings = [("batch_size", dict(bs=b)) for b in (1, 2, 3, 7, n, n + 1)] + [("atom_batches", dict(nbatch=k)) for k in (2, P.N)] + [("log_level", dict(log=1))]
            if ctx.quick:
                settings = settings[::2] + settings[-2:]
            # both at once: several atom batches AND several equal-size snapshot batches (state carried from one loop to the other)
            settings += [("batch_size+atom_batches", dict(bs=b, nbatch=k)) for b in (2, 3) for k in sorted({2, P.N}) if k <= P.N and k > 1]
            for name, kw in settings:
                got = run(**kw)
                ok, m, err = fcs_close(got, base)
                ctx.case({"cell": P.sc["name"], "orders": list(orders), "path": name, **{k: int(v) for k, v in kw.items()}}, nontrivial=True)
                ctx.count("solver-path:" + name)
                if not ok:
                    ctx.fail("oracle", f"C11/oracle/solver/{name}", f"{P.sc['name']} orders {orders}: fc{m} changes by {err:.2e} (relative) with {name}={kw}", replay={**rep, "setting": {name: {k: int(v) for k, v in kw.items()}}}, has_input=True)
    # ---------------- basis: combination batches, sum-rule batches, eigen threshold, one object vs separate
    cells = [("tri1", (2, 2, 1)), ("tri2_P1", (2, 1, 1)), ("hcp", (1, 1, 1)), ("tri2_P1", (3, 1, 1))] + ([] if ctx.quick else [("mono_P", (2, 1, 1)), ("tri1", (2, 2, 2)), ("ortho_C", (1, 1, 2))])
    for cname, diag in cells:
        sc = make_supercell(base_cells()[cname], diag, rng=rng, shuffle=True)
        N = len(sc["numbers"])
        at = atoms_of(sc)
        one = Symfc(at).compute_basis_set(max_order=4 if N <= 4 else 3)
        for order in one.basis_set:
            b0 = one.basis_set[order]
            F0 = np.asarray(b0.compression_matrix @ b0.basis_set)
            variants = [("separate-object", {})] + [("perm_nbatch", {"SYMFC_VERIF_PERM_NBATCH": k}) for k in (2, 3)] + \
                [("sumrule_nbatch", {"SYMFC_VERIF_SUMRULE_NBATCH": k}) for k in range(1, N + 1) if N % k == 0 or True][: (3 if ctx.quick else N)] + \
                [("eig_threshold", {"SYMFC_VERIF_EIG_THRESHOLD": 1, "SYMFC_VERIF_EIG_TARGET": 11}), ("log_level", {})]
            for name, e in variants:
                if name == "perm_nbatch" and order == 2:
                    continue
                with env(**e):
                    try:
                        buf = io.StringIO()
                        with contextlib.redirect_stdout(buf):
                            b = Symfc(at, log_level=1 if name == "log_level" else 0).compute_basis_set(orders=[order]).basis_set[order]
                    except ValueError as ex:
                        if name == "sumrule_nbatch":
                            continue  # n_batch must be <= N and compatible; the routine refuses loudly
                        raise
                F = np.asarray(b.compression_matrix @ b.basis_set)
                ok, msg = same_span(F0, F)
                ctx.case({"cell": sc["name"], "order": order, "path": name, **{k: int(v) for k, v in e.items()}}, nontrivial=True)
                ctx.count("basis-path:" + name)
                if not ok:
                    ctx.fail("oracle", f"C11/oracle/basis/{name}/order{order}", f"{sc['name']} order {order}: span of the basis changes with {name} {e} ({msg})",
                             replay={"cell": sc["name"], "lattice": sc["lattice"].tolist(), "positions": sc["positions"].tolist(), "numbers": [int(x) for x in sc["numbers"]], "order": order, "env": {k: int(v) for k, v in e.items()}}, has_input=True)
    # ---------------- explicit n_batch arguments and reference variants on tables
    from symfc.utils.eig_tools import eigsh_projector
    for name, tp in tables(4, rng):
        N = tp.shape[1]
        if N < 2:
            continue
        for order in (3, 4):
            if order == 4 and N > 3:
                continue
            for near in (None, random_near(tp, rng, 0.7)):
                fc = None if near is None else fake_cutoff(near)
                try:
                    lab0, c0, _ = impl_cpt_labels(tp, order, fc_cutoff=fc)
                except (IndexError, ValueError):
                    continue
                rep = {"table": name, "tp": tp.tolist(), "order": order, "near": None if near is None else near.astype(int).tolist()}
                for k in (1, 2, 3):
                    ctx.case({"table": name, "order": order, "n_batch_argument": k, "cutoff": near is not None}, nontrivial=True)
                    ctx.count("explicit-n_batch")
                    try:
                        lab, _, _ = impl_cpt_labels(tp, order, fc_cutoff=fc, n_batch=k)
                    except ValueError as ex:
                        if "range() arg 3 must not be zero" in str(ex):
                            ctx.count("n_batch-larger-than-number-of-combinations (invalid value, refused loudly)")
                            continue
                        ctx.fail("oracle", f"C11/oracle/n_batch-argument/order{order}", f"compr_permutation_lat_trans_O{order}(n_batch={k}) raised ValueError: {ex}", replay={**rep, "n_batch": k}, has_input=True)
                        break
                    except Exception as ex:  # noqa: BLE001
                        ctx.fail("oracle", f"C11/oracle/n_batch-argument/order{order}", f"compr_permutation_lat_trans_O{order}(n_batch={k}) raised {type(ex).__name__}: {ex}", replay={**rep, "n_batch": k}, has_input=True)
                        break
                    if not np.array_equal(lab, lab0):
                        ctx.fail("oracle", f"C11/oracle/n_batch-argument/order{order}", f"c_pt of {name} order {order} changes with n_batch={k}", replay={**rep, "n_batch": k}, has_input=True)
                # reference projector routine
                if N ** order * 3 ** order // tp.shape[0] <= 1500:
                    mod = importlib.import_module(f"symfc.utils.matrix_tools_O{order}")
                    proj = getattr(mod, f"projector_permutation_lat_trans_O{order}")(np.asarray(tp), fc_cutoff=fc)
                    E = eigsh_projector(sp.csr_array(proj), verbose=False).toarray()
                    ok, msg = same_span(c0.toarray(), E)
                    ctx.case({"table": name, "order": order, "variant": "projector_permutation_lat_trans", "cutoff": near is not None}, nontrivial=True)
                    ctx.count("reference-variant")
                    if not ok:
                        ctx.fail("oracle", f"C11/oracle/reference-projector/order{order}", f"{name} order {order} cutoff={'yes' if near is not None else 'no'}: span of c_pt differs from the unit eigenspace of projector_permutation_lat_trans_O{order} ({msg})", replay=rep, has_input=True)
    # ---------------- sum-rule batches that do not divide the number of atoms evenly (27 = 2 x 13 + 1, 19 = 2 x 9 + 1, ...): the compressed
    # sum-rule projector of order 3 (fast and stable builders) must not depend on the number of batches
    from gens import abelian_table as _abt2
    from symfc.utils.permutation_tools_O3 import compr_permutation_lat_trans_O3 as _cpt3
    import symfc.utils.matrix_tools_O3 as _mt3
    for dims_ in ((3, 3, 3), (19,)) if ctx.quick else ((3, 3, 3), (19,), (5, 7), (37,)):
        tpn = np.asarray(_abt2(dims_, 1, rng=rng), dtype="intc")
        Nn = tpn.shape[1]
        cpt_ = _cpt3(tpn)
        for fname in ("compressed_projector_sum_rules_O3", "compressed_projector_sum_rules_O3_stable"):
            fn_ = getattr(_mt3, fname)
            P1_ = fn_(tpn, cpt_, n_batch=1).tocsr()
            for k_ in (2, 4, 5) if ctx.quick else (2, 3, 4, 5, 7, 8):
                if k_ >= Nn:
                    continue
                ctx.case({"table": f"abelian {dims_}", "N": int(Nn), "builder": fname, "n_batch": k_}, nontrivial=True)
                ctx.count("sumrule-uneven-batches")
                try:
                    Pk_ = fn_(tpn, cpt_, n_batch=k_).tocsr()
                    dd_ = abs(Pk_ - P1_)
                    dev_ = float(dd_.max()) if dd_.nnz else 0.0
                except (IndexError, ValueError) as ex_:
                    ctx.fail("oracle", "C11/oracle/sumrule-uneven-batches", f"{fname}(n_batch={k_}) on a {Nn}-atom table raised {type(ex_).__name__}: {ex_} (n_batch=1 works)", replay={"tp": tpn.tolist(), "n_batch": k_, "builder": fname}, has_input=True)
                    continue
                if dev_ > 1e-9:
                    ctx.fail("oracle", "C11/oracle/sumrule-uneven-batches", f"{fname} on a {Nn}-atom table (translations {dims_}): n_batch={k_} gives a projector that differs from n_batch=1 by {dev_:.2e}",
                             replay={"tp": tpn.tolist(), "n_batch": k_, "builder": fname}, has_input=True)
    # ---------------- the complete reference projector of order 3 on a 90-atom table (beyond every internal size threshold of the
    # accumulation: > 2^24 stored entries), with and without log output, against c_pt c_pt^T (thorough tier, once per run)
    if not ctx.quick and not getattr(ctx, "_bigref_done", False):
        ctx._bigref_done = True
        from gens import abelian_table as _abt
        from symfc.utils.matrix_tools_O3 import projector_permutation_lat_trans_O3 as _ref3
        from symfc.utils.permutation_tools_O3 import compr_permutation_lat_trans_O3 as _fast3
        import contextlib as _cl, io as _io
        tpb = np.asarray(_abt((6, 5, 3), 1, rng=rng), dtype="intc")
        cfast = _fast3(tpb)
        Pfast = (cfast @ cfast.T).tocsr()
        for verbose in (False, True):
            with _cl.redirect_stdout(_io.StringIO()):
                Pref = _ref3(tpb, complete=True, verbose=verbose).tocsr()
            dd = abs(Pref - Pfast)
            dev = float(dd.max()) if dd.nnz else 0.0
            ctx.case({"table": "Z6xZ5xZ3 (90 atoms)", "order": 3, "variant": "complete reference projector", "verbose": verbose}, nontrivial=True)
            ctx.count("reference-variant-90-atoms")
            if dev > 1e-9:
                ctx.fail("oracle", "C11/oracle/reference-projector-large/order3", f"90-atom table (Z6 x Z5 x Z3, one orbit), verbose={verbose}: projector_permutation_lat_trans_O3(complete=True) differs from c_pt c_pt^T by {dev:.2e} "
                         f"(traces {Pref.diagonal().sum():.1f} / {Pfast.diagonal().sum():.1f})", replay={"table": "abelian (6,5,3) x 1 orbit", "tp": tpb.tolist(), "order": 3, "verbose": verbose}, has_input=True)
    # ---------------- finite-displacement datasets (exact zeros, +/- pairs split over batches): batch-size independence
    import p_c13
    p_c13.sparse_relations(ctx, np.random.default_rng(ctx.seed + 42), prefix="C11/oracle/sparse-data")
    # ---------------- reference variant of the coset projector (matrix representations, order 2; first-order sum)
    from gens import base_cells as _bc, make_supercell as _ms, atoms_of as _ao
    from symfc.spg_reps import SpgRepsO2
    from symfc.spg_reps.spg_reps_O2 import SpgRepsO2MatrixReps
    from symfc.utils.utils_O2 import get_compr_coset_reps_sum, get_compr_coset_projector_O2, _get_atomic_lat_trans_decompr_indices
    from symfc.utils.permutation_tools_O2 import compr_permutation_lat_trans_O2
    ref_cells = [("mono_P", (1, 1, 1)), ("tri2_Pm1", (2, 1, 1)), ("hcp", (1, 1, 1)), ("p4_general", (1, 1, 1)), ("tri1", (3, 1, 1))]
    if not ctx.quick:
        ref_cells += [("p3_general", (1, 1, 1)), ("wurtzite", (1, 1, 1)), ("ortho_C", (1, 1, 2)), ("rhombo2", (2, 1, 1)), ("nacl_prim", (1, 1, 1))]
    for cname, diag in ref_cells:
        for shuffle in (False, True):
            sc = _ms(_bc()[cname], diag, rng=rng, shuffle=shuffle)
            at = _ao(sc)
            rep = {"cell": sc["name"], "lattice": np.asarray(sc["lattice"]).tolist(), "positions": np.asarray(sc["positions"]).tolist(), "numbers": [int(z) for z in sc["numbers"]]}
            ctx.case({"cell": sc["name"], "variant": "SpgRepsO2MatrixReps / get_compr_coset_reps_sum"}, nontrivial=True)
            ctx.count("reference-variant")
            try:
                rf, rr = SpgRepsO2(at), SpgRepsO2MatrixReps(at)
                tp = rf.translation_permutations
                adi = _get_atomic_lat_trans_decompr_indices(tp)
                c_pt = compr_permutation_lat_trans_O2(tp, atomic_decompr_idx=adi, fc_cutoff=None, verbose=False)
                fast = get_compr_coset_projector_O2(rf, fc_cutoff=None, atomic_decompr_idx=adi, c_pt=c_pt).toarray()
                ref = (c_pt.T @ get_compr_coset_reps_sum(rr) @ c_pt).toarray()
            except Exception as e:  # noqa: BLE001
                ctx.fail("oracle", "C11/oracle/reference-coset/order2", f"{sc['name']}: the reference coset sum raised {type(e).__name__}: {e}", replay=rep, has_input=True)
                continue
            dev = float(np.abs(fast - ref).max()) if fast.shape == ref.shape else float("inf")
            if not dev <= 1e-10:
                ctx.fail("oracle", "C11/oracle/reference-coset/order2", f"{sc['name']}: get_compr_coset_projector_O2 differs from c_pt^T get_compr_coset_reps_sum(SpgRepsO2MatrixReps) c_pt by {dev:.2e}", replay=rep, has_input=True)
    # ---------------- threads (thorough only): a fit computed with 1 and 16 threads in fresh processes
    if not ctx.quick:
        script = ("import sys,json,numpy as np\nsys.path.insert(0,'%s')\nfrom gens import *\nfrom symfc import Symfc\nrng=np.random.default_rng(5)\n"
                  "sc=make_supercell(base_cells()['tri2_P1'],(2,1,1));at=atoms_of(sc);d,f=random_dataset(rng,40,4)\n"
                  "o=Symfc(at,displacements=d,forces=f).run(orders=[2,3],is_compact_fc=False)\nprint(json.dumps({str(k):np.asarray(v).ravel().tolist() for k,v in o.force_constants.items()}))\n") % os.path.dirname(os.path.abspath(__file__))
        outs = []
        for th in (1, 16):
            e = dict(os.environ, OMP_NUM_THREADS=str(th), OPENBLAS_NUM_THREADS=str(th), MKL_NUM_THREADS=str(th))
            r = subprocess.run([sys.executable, "-c", script], env=e, capture_output=True, text=True, timeout=900)
            outs.append(json.loads(r.stdout.strip().splitlines()[-1]))
        ctx.case({"threads": [1, 16]}, nontrivial=True)
        for k in outs[0]:
            a, b = np.array(outs[0][k]), np.array(outs[1][k])
            if np.abs(a - b).max() > 1e-8 * max(np.abs(a).max(), 1e-300):
                ctx.fail("oracle", "C11/oracle/threads", f"fc{k} differs between 1 and 16 threads by {np.abs(a - b).max():.2e}", replay={"script": script}, has_input=True)
