"""C07 — cutoff.  Coq: props/C07.v.  Correspondence: FCCutoff's combination generators and element
masks against Cutoff.v (evaluated in Coq) for real and synthetic near-relations; distances against a
certified brute-force minimum image (search radius from the dual basis).  Oracles: exact zeros outside
the range, monotonicity across shells, large cutoff = no cutoff, per-order cutoff dictionaries."""
from __future__ import annotations

import itertools

import numpy as np

from common import coq_eval, parse_ints, try_coq
from gens import atoms_of, base_cells, make_supercell, tables
from permcorr import coq_near, fake_cutoff, random_near
from reference import min_image_distances
from tensors import full_basis_tensors, same_span

UNITS = ["Tables", "CutoffGen", "ShapesGeom", "ShapesCombos", "ShapesBasis", "ShapesPerm", "ShapesApi", "ShapesAuxCut", "SkelBasis", "SkelApi", "SkelCut", "SkelPerm", "SolverStruct", "ShapesSolvers", "SkelSolvers", "IndepGen", "ShapesCoset", "ShapesSumRule", "ShapesSpg", "ShapesReps", "ShapesO1", "ShapesAuxO1", "ShapesAuxEig", "ShapesAuxBatch", "EigStruct", "SkelSpg", "SkelEig", "SkelMat", "SkelIdx"]
PROPS = ["props/C07.v", "props/C07_geom.v"]
EXTRA = ["theories/Cutoff.vo"]
ASSUMPTIONS = ["'Niggli-reduce, wrap, 27 images' = true minimum image is NOT proved; it is compared with a brute force whose search radius is certified by |t_k| <= d |b*_k| (partial)",
               "strict '<' comparison of floating distances with the cutoff; cutoffs are placed mid-way between distinct shells"]


def span_proj(b):
    F = np.asarray(b.compression_matrix @ b.basis_set)
    return F, F.shape[1]


def check(ctx):
    from symfc import Symfc
    from symfc.utils.cutoff_tools import FCCutoff

    rng = np.random.default_rng(ctx.seed)
    ctx.rule = ("masks: random symmetric reflexive relations on N<=5 atoms (synthetic) and real cutoffs on G-cells; distances: all G-cells incl. sheared/flat/needle/unreduced descriptions, supercells; "
                "API: every shell boundary of small cells, orders 2-4. Non-trivial: the relation removes at least one pair")
    # ---- mask / combination correspondence on synthetic relations
    rel_cases = []
    for N in (1, 2, 3, 4, 5) if not ctx.quick else (2, 3, 4):
        for _ in range(3 if ctx.quick else 8):
            near = rng.random((N, N)) < rng.choice([0.3, 0.6, 0.9])
            near = near | near.T
            np.fill_diagonal(near, True)
            rel_cases.append(near)
    impl = []
    for near in rel_cases:
        fc = fake_cutoff(near)
        N = len(near)
        out = {}
        for k, fn in ((2, fc.combinations2), (3, fc.combinations3_all), (4, fc.combinations4_all)):
            try:
                c = np.asarray(fn())
                out[f"c{k}"] = c.reshape(-1, k).tolist() if c.size else []
            except Exception as e:  # noqa: BLE001
                out[f"c{k}"] = ("raised", type(e).__name__)
        out["m2"] = fc.nonzero_atomic_indices_fc2().astype(int).tolist()
        out["m3"] = fc.nonzero_atomic_indices_fc3().astype(int).tolist()
        out["m4"] = fc.nonzero_atomic_indices_fc4().astype(int).tolist() if N <= 4 else None
        impl.append(out)
        ctx.case({"relation": near.astype(int).tolist()}, nontrivial=not near.all())
        ctx.count("synthetic-relation")
        # direct oracle: combos = increasing mutually-near index tuples; masks = all pairs near
        for k in (2, 3, 4):
            exp = [list(c) for c in itertools.combinations(range(3 * N), k) if all(near[a // 3, b // 3] for a in c for b in c)]
            got = out[f"c{k}"]
            if isinstance(got, tuple):
                if exp:
                    ctx.fail("oracle", f"C07/oracle/combinations{k}", f"combinations{k} raised {got[1]} although {len(exp)} combinations are in range", replay={"near": near.astype(int).tolist()}, has_input=True)
                continue
            if sorted(map(tuple, got)) != sorted(map(tuple, exp)):
                ctx.fail("oracle", f"C07/oracle/combinations{k}", f"combinations{k} returns {len(got)} tuples, {len(exp)} increasing mutually-near tuples exist (N={N})",
                         replay={"near": near.astype(int).tolist(), "k": k}, has_input=True)
        for k, key in ((2, "m2"), (3, "m3"), (4, "m4")):
            if out[key] is None:
                continue
            exp = [int(all(near[a, b] for a in t for b in t)) for t in itertools.product(range(N), repeat=k)]
            if out[key] != exp:
                ctx.fail("oracle", f"C07/oracle/mask{k}", f"nonzero_atomic_indices_fc{k} differs from 'all pairs near' in {sum(x != y for x, y in zip(out[key], exp))} tuples (N={N})",
                         replay={"near": near.astype(int).tolist(), "k": k}, has_input=True)

    def corr():
        exprs = []
        for near in rel_cases:
            N = len(near)
            r = coq_near(near)[6:-1]
            exprs.append(f"(map (map Z.of_nat) (cut_combos {r} {N}%nat 2%nat), map (map Z.of_nat) (cut_combos {r} {N}%nat 3%nat), map (map Z.of_nat) (cut_combos {r} {N}%nat 4%nat))")
        res = coq_eval(f"c07_masks_{ctx.tier}", ["From SymfcV Require Import Cutoff."], [], exprs)
        for near, out, r in zip(rel_cases, impl, res):
            parts = r.split("]],") if "]]," in r else None
            # robust parse: three list-of-lists separated at top level
            depth, cur, tops = 0, "", []
            for ch in r.strip()[1:-1]:
                if ch == "[":
                    depth += 1
                if ch == "]":
                    depth -= 1
                if ch == "," and depth == 0:
                    tops.append(cur)
                    cur = ""
                else:
                    cur += ch
            tops.append(cur)
            ctx.traces += 1
            for k, txt in zip((2, 3, 4), tops):
                flat = parse_ints(txt)
                model = [flat[i:i + k] for i in range(0, len(flat), k)]
                got = out[f"c{k}"]
                if isinstance(got, tuple):
                    if model:
                        ctx.fail("correspondence", f"C07/corr/combinations{k}", f"implementation raised, model lists {len(model)} combinations", replay={"near": near.astype(int).tolist()}, has_input=True)
                    continue
                if got != model:
                    ctx.fail("correspondence", f"C07/corr/combinations{k}", f"combinations{k}: implementation and Cutoff.cut_combos differ (order included) for N={len(near)}",
                             replay={"near": near.astype(int).tolist(), "k": k, "impl": got[:20], "model": model[:20]}, has_input=True)
    try_coq(ctx, "C07/corr/model", corr)

    # ---- distances
    cells = [(n, d) for n in base_cells() for d in ((1, 1, 1), (2, 1, 1))] if not ctx.quick else \
        [(n, (1, 1, 1)) for n in ("sheared", "needle", "flat", "skew_unreduced", "tri2_P1", "hcp", "mono_C", "rhombo2", "fcc_conv")] + [("tri1", (2, 2, 1)), ("sheared", (2, 1, 1))]
    for cname, diag in cells:
        sc = make_supercell(base_cells()[cname], diag)
        if len(sc["numbers"]) > 12:
            continue
        # also an unreduced (unimodular) description of the same lattice
        for uni in (None, [[1, 0, 0], [2, 1, 0], [1, -3, 1]]):
            sc2 = make_supercell(base_cells()[cname], diag, unimodular=uni)
            at = atoms_of(sc2)
            fc = FCCutoff(at, cutoff=1.0)
            ref = min_image_distances(np.asarray(sc2["lattice"], float), np.asarray(sc2["positions"], float))
            err = float(np.abs(fc.distances - ref).max())
            ctx.case({"cell": sc2["name"], "N": len(sc2["numbers"])}, nontrivial=True)
            ctx.count("distances")
            if err > 1e-7:
                i, j = np.unravel_index(np.abs(fc.distances - ref).argmax(), ref.shape)
                ctx.fail("oracle", "C07/oracle/distances", f"{sc2['name']}: FCCutoff distance between atoms {i},{j} is {fc.distances[i, j]:.6f}, the minimum-image distance is {ref[i, j]:.6f}",
                         replay={"cell": sc2["name"], "lattice": np.asarray(sc2["lattice"]).tolist(), "positions": np.asarray(sc2["positions"]).tolist(), "i": int(i), "j": int(j)}, has_input=True)

    # ---- distances on random triclinic lattices (all-acute, all-obtuse and mixed cell angles between 50 and 130 degrees; cell edges of
    # unequal length) with atoms at random general positions, also outside [0,1): which of the 27 neighbouring images of the reduced
    # cell holds the nearest copy depends on the signs of the off-diagonal metric entries, so both sign patterns must occur
    n_acute = n_obtuse = 0
    for trial in range(40 if ctx.quick else 400):
        while True:
            a_, b_, c_ = rng.uniform(3.0, 7.5, size=3)
            kind_ = trial % 3
            lo_, hi_ = ((50.0, 88.0), (92.0, 130.0), (50.0, 130.0))[kind_]
            al_, be_, ga_ = np.radians(rng.uniform(lo_, hi_, size=3))
            cx_ = np.cos(be_)
            cy_ = (np.cos(al_) - np.cos(be_) * np.cos(ga_)) / np.sin(ga_)
            if 1 - cx_ ** 2 - cy_ ** 2 > 0.15:
                break
        Lr = np.array([[a_, 0, 0], [b_ * np.cos(ga_), b_ * np.sin(ga_), 0], [c_ * cx_, c_ * cy_, c_ * np.sqrt(1 - cx_ ** 2 - cy_ ** 2)]])
        Nr = int(rng.integers(5, 13))
        pos_r = rng.uniform(-0.5, 1.5, size=(Nr, 3))
        scr = {"lattice": Lr, "positions": pos_r, "numbers": np.arange(1, Nr + 1), "name": f"random-triclinic-{('acute', 'obtuse', 'mixed')[kind_]}-{trial}"}
        n_acute += kind_ == 0
        n_obtuse += kind_ == 1
        fc = FCCutoff(atoms_of(scr), cutoff=1.0)
        ref = min_image_distances(Lr, pos_r)
        err = float(np.abs(fc.distances - ref).max())
        ctx.case({"cell": scr["name"], "N": Nr}, nontrivial=True)
        ctx.count("distances-random-triclinic")
        if err > 1e-7:
            i, j = np.unravel_index(np.abs(fc.distances - ref).argmax(), ref.shape)
            ctx.fail("oracle", "C07/oracle/distances/random-triclinic", f"{scr['name']} (a,b,c = {a_:.3f},{b_:.3f},{c_:.3f}; angles {np.degrees(al_):.1f},{np.degrees(be_):.1f},{np.degrees(ga_):.1f}): FCCutoff distance between atoms {i},{j} "
                     f"is {fc.distances[i, j]:.6f}, the minimum-image distance is {ref[i, j]:.6f}",
                     replay={"cell": scr["name"], "lattice": Lr.tolist(), "positions": pos_r.tolist(), "i": int(i), "j": int(j)}, has_input=True)
    ctx.require("random triclinic lattices of both sign patterns were drawn", n_acute >= 5 and n_obtuse >= 5)

    # ---- a supercell with more than 48 atoms inside the order-3 cutoff sphere (54-atom bcc 3x3x3): enlarging the cutoff never shrinks
    # the basis and a cutoff beyond every distance gives the no-cutoff basis (sizes and span)
    from symfc.basis_sets import FCBasisSetO3 as _B3
    scb = make_supercell(base_cells()["bcc_conv"], (3, 3, 3))
    atb = atoms_of(scb)
    Db = min_image_distances(np.asarray(scb["lattice"], float), np.asarray(scb["positions"], float))
    shb = sorted(set(np.round(Db[Db > 1e-8], 6).tolist()))
    full_b = _B3(atb).run()
    nfull_b = full_b.basis_set.shape[1]
    prev_b = 0
    for cb in [(shb[-3] + shb[-2]) / 2, (shb[-2] + shb[-1]) / 2, shb[-1] + 0.3]:
        bb = _B3(atb, cutoff=cb).run()
        nb_b = bb.basis_set.shape[1]
        inside_b = int((Db[0] < cb).sum())
        ctx.case({"cell": scb["name"], "order": 3, "cutoff": round(cb, 4), "atoms_inside_cutoff": inside_b, "n_basis": int(nb_b)}, nontrivial=True)
        ctx.count("large-cutoff-54-atoms")
        repb = {"cell": scb["name"], "lattice": np.asarray(scb["lattice"]).tolist(), "positions": np.asarray(scb["positions"]).tolist(), "numbers": [int(x) for x in scb["numbers"]], "order": 3, "cutoff": cb}
        if nb_b < prev_b:
            ctx.fail("oracle", "C07/oracle/monotone/order3", f"{scb['name']} order 3: enlarging the cutoff to {cb:.4f} ({inside_b} atoms inside) shrinks the basis from {prev_b} to {nb_b}", replay=repb, has_input=True)
        prev_b = nb_b
        if cb > shb[-1] and nb_b != nfull_b:
            ctx.fail("oracle", "C07/oracle/large-cutoff/order3", f"{scb['name']} order 3: cutoff {cb:.4f} beyond every distance gives {nb_b} basis vectors, no cutoff gives {nfull_b}", replay=repb, has_input=True)

    # ---- API level: zeros outside, monotone, large cutoff = none, dictionaries
    api_cells = [("tri1", (2, 1, 1)), ("tri2_P1", (2, 1, 1)), ("hcp", (1, 1, 1)), ("tri1", (3, 1, 1)), ("tri2_obtuse", (2, 1, 1)), ("sheared", (2, 1, 1)), ("mono_P", (2, 1, 1))]
    if not ctx.quick:
        api_cells += [("mono_P", (2, 1, 1)), ("tri1", (2, 2, 1)), ("sheared", (2, 1, 1)), ("needle", (1, 1, 2)), ("ortho_C", (1, 1, 2)), ("flat", (1, 1, 1))]
    # small cells with INEQUIVALENT atoms, every shell boundary, natural and shuffled atom order (R14-K3: an order-4 shortcut for an
    # atom that has the whole cell inside its cutoff sphere while another pair is out of range; it needs that atom to carry the
    # largest index of the quadruple)
    from gens import _cell
    pool = dict(base_cells())
    pool["perovskite"] = _cell("perovskite", np.eye(3) * 4.0, [[0, 0, 0], [0.5, 0.5, 0.5], [0.5, 0.5, 0], [0.5, 0, 0.5], [0, 0.5, 0.5]], [56, 22, 8, 8, 8])
    api_cells = [(c, d, True, False) for c, d in api_cells]
    api_cells += [("perovskite", (1, 1, 1), False, True), ("perovskite", (1, 1, 1), True, True), ("guest", (1, 1, 1), False, True), ("p3_general", (1, 1, 1), True, True)]
    for cname, diag, shuf, all_bounds in api_cells:
        sc = make_supercell(pool[cname], diag, rng=rng, shuffle=shuf)
        N = len(sc["numbers"])
        at = atoms_of(sc)
        dist = min_image_distances(np.asarray(sc["lattice"], float), np.asarray(sc["positions"], float))
        shells = sorted(set(np.round(dist[dist > 1e-8], 6).tolist()))
        bounds = [(a + b) / 2 for a, b in zip(shells[:-1], shells[1:])] + [shells[-1] + 0.37]
        if ctx.quick and len(bounds) > 4 and not all_bounds:
            bounds = bounds[:2] + [bounds[len(bounds) // 2]] + bounds[-3:]     # the last gaps below the largest distance and one beyond it
        # close to the shells too (a radius just below / just above a shell is as valid as the mid-point): the two widest gaps
        gaps = sorted(zip(shells[:-1], shells[1:]), key=lambda g: g[0] - g[1])[:2]
        for a_, b_ in gaps:
            if b_ - a_ > 1e-2:
                bounds += [b_ - 1e-3, a_ + 1e-3]
        # radii shared by all cells (two structures with the same atom count then meet the same numeric cutoff)
        bounds += [c for c in (3.05, 3.45, 4.05) if all(abs(c - sh) > 2e-2 for sh in shells)]
        bounds = sorted(set(bounds))
        for order in ((3, 4) if all_bounds else (2, 3, 4)):
            if N ** order * 3 ** order > 300000:
                continue
            full = Symfc(at).compute_basis_set(orders=[order]).basis_set[order]
            Pfull, nfull = span_proj(full)
            prev_n = -1
            for cut in bounds:
                try:
                    b = Symfc(at, cutoff={order: cut}).compute_basis_set(orders=[order]).basis_set[order]
                except (IndexError, ValueError):
                    ctx.count("implementation-raised-on-degenerate-cutoff")
                    continue
                nb = b.basis_set.shape[1]
                rep = {"cell": sc["name"], "lattice": sc["lattice"].tolist(), "positions": sc["positions"].tolist(), "numbers": [int(x) for x in sc["numbers"]], "order": order, "cutoff": cut}
                ctx.case({"cell": sc["name"], "order": order, "cutoff": round(cut, 4), "n_basis": int(nb)}, nontrivial=cut < shells[-1])
                ctx.count(f"api-order{order}")
                if nb:
                    T = full_basis_tensors(b, order, N)
                    far = np.zeros((N,) * order, dtype=bool)
                    for tpl in itertools.product(range(N), repeat=order):
                        if any(dist[a, c] >= cut for a in tpl for c in tpl):
                            far[tpl] = True
                    mx = float(np.abs(T[:, far]).max()) if far.any() else 0.0
                    if mx != 0.0:
                        ctx.fail("oracle", f"C07/oracle/nonzero-outside/order{order}", f"{sc['name']} order {order} cutoff {cut:.4f}: an element with a pair beyond the cutoff is {mx:.2e}, not exactly zero", replay=rep, has_input=True)
                # exactness: the space with cutoff = {v in the no-cutoff space : v vanishes on the out-of-range elements}
                far_flat = np.repeat(far.reshape(-1), 3 ** order) if nb else None
                if far_flat is None:
                    far = np.zeros((N,) * order, dtype=bool)
                    for tpl in itertools.product(range(N), repeat=order):
                        if any(dist[a, c] >= cut for a in tpl for c in tpl):
                            far[tpl] = True
                    far_flat = np.repeat(far.reshape(-1), 3 ** order)
                if nfull:
                    Mfar = Pfull[far_flat]
                    rk = int(np.linalg.matrix_rank(Mfar, tol=1e-8)) if Mfar.size else 0
                    expect = nfull - rk
                    inside = 0.0
                    if nb:
                        Pc_, _ = span_proj(b)
                        inside = float(np.abs(Pc_ - Pfull @ (Pfull.T @ Pc_)).max())
                    if nb != expect or inside > 1e-8:
                        ctx.fail("oracle", f"C07/oracle/exact-space/order{order}", f"{sc['name']} order {order} cutoff {cut:.4f}: {nb} basis vectors, but the no-cutoff space restricted to vanish outside the range has dimension {expect} (distance of the basis from the no-cutoff space {inside:.1e})", replay=rep, has_input=True)
                if nb < prev_n:
                    ctx.fail("oracle", f"C07/oracle/monotone/order{order}", f"{sc['name']} order {order}: enlarging the cutoff to {cut:.4f} shrinks the basis from {prev_n} to {nb}", replay=rep, has_input=True)
                prev_n = nb
                if cut > shells[-1]:
                    Pc, nc = span_proj(b)
                    if not same_span(Pc, Pfull)[0]:
                        ctx.fail("oracle", f"C07/oracle/large-cutoff/order{order}", f"{sc['name']} order {order}: cutoff {cut:.4f} beyond every distance gives {nc} basis vectors, no cutoff gives {nfull}", replay=rep, has_input=True)
        # a radius that coincides bit for bit with an interatomic distance as the library computes it: a pair at distance >= cutoff
        # is out of range, so these pairs must vanish (strict comparison)
        try:
            Dimpl = np.asarray(FCCutoff(at, cutoff=1.0).distances)
            cands = sorted(set(Dimpl[Dimpl > 1e-8].tolist()))
            for cexact in (cands[:1] + cands[len(cands) // 2: len(cands) // 2 + 1]):
                for order in (2, 3):
                    if N ** order * 3 ** order > 300000:
                        continue
                    try:
                        b = Symfc(at, cutoff={order: cexact}).compute_basis_set(orders=[order]).basis_set[order]
                    except (IndexError, ValueError):
                        continue
                    ctx.case({"cell": sc["name"], "order": order, "cutoff_on_a_shell": cexact}, nontrivial=True)
                    ctx.count("api-cutoff-on-shell")
                    if b.basis_set.shape[1]:
                        T = full_basis_tensors(b, order, N)
                        far = np.zeros((N,) * order, dtype=bool)
                        for tpl in itertools.product(range(N), repeat=order):
                            if any(Dimpl[a, c] >= cexact for a in tpl for c in tpl):
                                far[tpl] = True
                        mx = float(np.abs(T[:, far]).max()) if far.any() else 0.0
                        if mx != 0.0:
                            ctx.fail("oracle", f"C07/oracle/on-shell/order{order}", f"{sc['name']} order {order}: with the cutoff equal to an interatomic distance ({cexact!r}) an element containing a pair at exactly that distance is {mx:.2e}, not zero",
                                     replay={"cell": sc["name"], "lattice": sc["lattice"].tolist(), "positions": sc["positions"].tolist(), "numbers": [int(x) for x in sc["numbers"]], "order": order, "cutoff": cexact}, has_input=True)
        except (IndexError, ValueError):
            pass
        # the same request spelled with numpy integer keys (hash-equal to the built-in ints): same basis
        try:
            cnp = bounds[0]
            o_int = Symfc(at, cutoff={2: cnp, 3: cnp}).compute_basis_set(orders=[2, 3])
            o_np = Symfc(at, cutoff={np.int64(2): cnp, np.intc(3): cnp}).compute_basis_set(orders=[2, 3])
            ctx.case({"cell": sc["name"], "cutoff_keys": "numpy integers", "cutoff": cnp}, nontrivial=True)
            ctx.count("api-cutoff-key-types")
            for k in (2, 3):
                Pa, na = span_proj(o_int.basis_set[k])
                Pb, nb_ = span_proj(o_np.basis_set[k])
                if na != nb_ or not same_span(Pa, Pb)[0]:
                    ctx.fail("oracle", "C07/oracle/cutoff-dict", f"{sc['name']}: cutoff {{np.int64(2): c, np.intc(3): c}} gives another order-{k} basis ({nb_} vectors) than {{2: c, 3: c}} ({na} vectors), c = {cnp:.4f}",
                             replay={"cell": sc["name"], "lattice": sc["lattice"].tolist(), "positions": sc["positions"].tolist(), "numbers": [int(x) for x in sc["numbers"]], "cutoff": cnp, "keys": "numpy integers", "order": k}, has_input=True)
        except (IndexError, ValueError):
            pass
        # per-order dictionary: a cutoff given only for order 3 must not affect order 2
        c3 = bounds[0]
        try:
            o = Symfc(at, cutoff={3: c3}).compute_basis_set(orders=[2, 3])
            P2, n2 = span_proj(o.basis_set[2])
            Pf, nf = span_proj(Symfc(at).compute_basis_set(orders=[2]).basis_set[2])
            ctx.case({"cell": sc["name"], "cutoff_dict": {"3": c3}}, nontrivial=True)
            if not same_span(P2, Pf)[0]:
                ctx.fail("oracle", "C07/oracle/cutoff-dict", f"{sc['name']}: a cutoff given for order 3 only changed the order-2 basis", replay={"cell": sc["name"], "cutoff": {"3": c3}}, has_input=True)
        except (IndexError, ValueError):
            pass
        # ... and the other way round, in ONE call over several orders: a cutoff given for order 2 only leaves order 3 (and 4) as
        # without any cutoff, and the order-2 basis is the one of a single-order call with that cutoff
        try:
            if N ** 3 * 27 <= 300000:
                o = Symfc(at, cutoff={2: c3}).compute_basis_set(orders=[2, 3])
                ctx.case({"cell": sc["name"], "cutoff_dict": {"2": c3}, "orders": [2, 3]}, nontrivial=True)
                ctx.count("api-cutoff-lower-order-only")
                P3, n3 = span_proj(o.basis_set[3])
                Pf3, nf3 = span_proj(Symfc(at).compute_basis_set(orders=[3]).basis_set[3])
                if n3 != nf3 or not same_span(P3, Pf3)[0]:
                    ctx.fail("oracle", "C07/oracle/cutoff-dict", f"{sc['name']}: cutoff {{2: {c3:.4f}}} with orders [2, 3] in one call: the order-3 basis has {n3} vectors, without any cutoff it has {nf3} (a cutoff given for order 2 only must not touch order 3)",
                             replay={"cell": sc["name"], "lattice": sc["lattice"].tolist(), "positions": sc["positions"].tolist(), "numbers": [int(x) for x in sc["numbers"]], "cutoff": {"2": c3}, "orders": [2, 3]}, has_input=True)
                P2b, n2b = span_proj(o.basis_set[2])
                P2s, n2s = span_proj(Symfc(at, cutoff={2: c3}).compute_basis_set(orders=[2]).basis_set[2])
                if n2b != n2s or not same_span(P2b, P2s)[0]:
                    ctx.fail("oracle", "C07/oracle/cutoff-dict", f"{sc['name']}: cutoff {{2: {c3:.4f}}}: the order-2 basis of a call over orders [2, 3] differs from the one of a call over [2]",
                             replay={"cell": sc["name"], "cutoff": {"2": c3}, "orders": [2, 3]}, has_input=True)
        except (IndexError, ValueError):
            pass
