"""C06 — least-squares optimality.  Coq: props/C06.v (status-checking solve_linear_equation is sound
given posv's contract; normal equations <-> minimiser; batch accumulation).  Oracle: normal-equation
residual of the returned coefficients against an independent dense design matrix, for determined,
under-determined and rank-deficient data; Gram matrices of the implementation against X^T X."""
from __future__ import annotations

import numpy as np

from solvers import solve_with_batch, COMBOS, Prepared, dense_design, solver_cells

UNITS = ["SolverStruct", "BatchGen", "DesignGen", "ShapesSolvers", "SkelSolvers", "ShapesApi", "SkelApi"]
PROPS = ["props/C06.v"]
ASSUMPTIONS = ["LAPACK posv: info = 0 -> A x = b (conformance-checked on every call made by this run); backward-error accuracy is a tolerance check (1e-7 relative)"]


def datasets(rng, N, n_coef):
    """(kind, disps, forces)"""
    need = max(1, int(np.ceil(n_coef / (3 * N))))
    out = []
    for kind, n in (("over", need + 4), ("exact-ish", need), ("under", max(1, need - 1)), ("one", 1)):
        d = rng.normal(size=(n, N, 3)) * 0.05
        f = rng.normal(size=(n, N, 3))
        out.append((kind, d, f))
    # tiny amplitudes: the columns of the different orders scale as |u|, |u|^2, |u|^3 -- small but perfectly determined
    out.append(("tiny-amplitude", rng.normal(size=(need + 6, N, 3)) * 0.0003, rng.normal(size=(need + 6, N, 3))))
    # repeated displacement patterns (bit-identical rows) with unequal multiplicities and independent noisy forces
    base_d = rng.normal(size=(need + 4, N, 3)) * 0.05
    reps = np.concatenate([base_d, base_d[[0, 0, 0, 1, 2, 2]]])
    out.append(("repeated-rows", reps, rng.normal(size=(len(reps), N, 3))))
    # displacements measured from their mean over the snapshots (MD relative to average positions): every component sums to zero
    # over the snapshots although the set is not symmetric under u -> -u; and triples {u, -u/2, -u/2}
    raw = rng.normal(size=(need + 5, N, 3)) * 0.05
    out.append(("centred", raw - raw.mean(axis=0), rng.normal(size=(need + 5, N, 3))))
    u_ = rng.normal(size=(need + 5, N, 3)) * 0.05       # need + 5 independent patterns (the copies add no rank for even orders)
    out.append(("zero-sum-triples", np.concatenate([u_, -u_ / 2, -u_ / 2]), rng.normal(size=(3 * len(u_), N, 3))))
    # the undisplaced supercell first (exact zeros, residual forces not zero), as finite-displacement workflows store it
    d_u = np.concatenate([np.zeros((1, N, 3)), rng.normal(size=(need + 4, N, 3)) * 0.05])
    out.append(("undisplaced-first", d_u, rng.normal(size=(need + 5, N, 3))))
    # some snapshots with forces exactly zero (displacements not): rows of the least-squares problem like any other
    f_z = rng.normal(size=(need + 5, N, 3))
    f_z[[0, 3]] = 0.0
    out.append(("zero-force-snapshots", rng.normal(size=(need + 5, N, 3)) * 0.05, f_z))
    # rank deficient: displacements confined to one direction of one atom
    d = np.zeros((need + 3, N, 3))
    d[:, 0, 0] = rng.normal(size=need + 3) * 0.05
    out.append(("rank-deficient", d, rng.normal(size=(need + 3, N, 3))))
    return out


def mixed_provenance(ctx, rng):
    """Basis sets of different provenance in one solve: one order from the full group, another built by a different object from the
    operations without fractional translation (fewer lattice points: another n_lp, another compact layout), handed over through the
    setter.  The returned coefficients must satisfy the normal equations of the design built from exactly these bases."""
    import spglib
    from symfc import Symfc
    from symfc.basis_sets import FCBasisSetO2, FCBasisSetO3, FCBasisSetO4
    from gens import atoms_of, base_cells, make_supercell
    from solvers import expanded_basis

    classes = {2: FCBasisSetO2, 3: FCBasisSetO3, 4: FCBasisSetO4}
    for cname, diag in [("tri2_P1", (2, 1, 1)), ("mono_P", (2, 1, 1))] + ([] if ctx.quick else [("cscl", (2, 1, 1)), ("tri1", (3, 1, 1))]):
        sc = make_supercell(base_cells()[cname], diag, rng=rng, shuffle=True)
        at = atoms_of(sc)
        N = len(sc["numbers"])
        ops = spglib.get_symmetry((sc["lattice"], sc["positions"], sc["numbers"]))
        rots, trans = np.asarray(ops["rotations"]), np.asarray(ops["translations"])
        t0 = [i for i in range(len(rots)) if np.abs(trans[i] - np.rint(trans[i])).max() < 1e-9]
        if len(t0) == len(rots) or not t0 or not (rots[t0[0]] == np.eye(3, dtype=int)).all():
            continue
        sub = {"rotations": rots[t0], "translations": trans[t0]}
        for orders, reduced in (((3, 4), 4), ((3, 4), 3), ((2, 3), 2), ((2, 3), 3), ((2, 3, 4), 3)):
            if 4 in orders and N > 4:
                continue
            try:
                basis = {m: classes[m](at, spacegroup_operations=sub if m == reduced else None).run() for m in orders}
            except (ValueError, IndexError):
                continue
            nb = {m: basis[m].basis_set.shape[1] for m in orders}
            if min(nb.values()) == 0 or sum(nb.values()) > 400:
                continue
            ncoef = sum(nb.values())
            n = int(np.ceil(ncoef / (3 * N))) + 5
            d, f = rng.normal(size=(n, N, 3)) * 0.05, rng.normal(size=(n, N, 3))
            o = Symfc(at, displacements=d, forces=f)
            o.basis_set = dict(basis)
            ctx.case({"cell": sc["name"], "orders": list(orders), "basis_without_fractional_translations": reduced, "n_coef": int(ncoef)}, nontrivial=True)
            ctx.count("mixed-provenance-bases")
            try:
                o.solve(orders=list(orders), is_compact_fc=False)
            except (np.linalg.LinAlgError, ValueError, RuntimeError, IndexError) as e:
                ctx.count("outcome:" + type(e).__name__)
                continue
            X = dense_design(basis, orders, d)
            y = f.reshape(-1)
            c = np.concatenate([expanded_basis(basis[m], m, N).reshape(nb[m], -1) @ np.asarray(o.force_constants[m]).reshape(-1) for m in orders])
            g = X.T @ (y - X @ c)
            scale = max(np.abs(X.T @ y).max(), np.abs(X.T @ X).max() * max(np.abs(c).max(), 1e-300), 1e-300)
            rel = float(np.abs(g).max() / scale)
            if not rel <= 1e-7:
                ctx.fail("oracle", "C06/oracle/normal-eq/mixed-provenance", f"{sc['name']} orders {orders}, order-{reduced} basis built from the {len(t0)} operations without fractional translation (of {len(rots)}) and handed over: "
                         f"returned coefficients violate the normal equations (relative residual {rel:.2e})",
                         replay={"cell": sc["name"], "lattice": sc["lattice"].tolist(), "positions": sc["positions"].tolist(), "numbers": [int(x) for x in sc["numbers"]], "orders": list(orders), "reduced_order": reduced,
                                 "disps": d.tolist(), "forces": f.tolist(), "rel_residual": rel}, has_input=True)


def check(ctx):
    mixed_provenance(ctx, np.random.default_rng(ctx.seed + 91))
    import scipy.linalg.lapack as lp
    import symfc.utils.solver_funcs as sf

    rng = np.random.default_rng(ctx.seed)
    ctx.rule = ("cells: small low-symmetry supercells (N<=4, n_lp in {1,2,4}); datasets: over-determined, exactly determined, under-determined, single snapshot, "
                "rank-deficient by construction; all six solver combinations with non-empty bases; batch sizes 1,2,100. Non-trivial: the solver returned coefficients")
    # spy on posv to check its contract on the calls actually made
    calls = {"n": 0, "info_nonzero": 0, "contract_violations": 0}
    orig = sf.get_lapack_funcs

    def spy_get(names, arrays=(), **kw):
        fns = orig(names, arrays, **kw)
        if tuple(names) != ("posv",):
            return fns
        posv = fns[0]

        def wrapped(A, b, **k):
            c, x, info = posv(A, b, **k)
            calls["n"] += 1
            if info != 0:
                calls["info_nonzero"] += 1
            else:
                r = np.abs(A @ x - b).max()
                if r > 1e-6 * max(1.0, np.abs(b).max(), np.abs(A).max() * max(np.abs(x).max(), 1e-300)):
                    calls["contract_violations"] += 1
            return c, x, info
        return (wrapped,)
    sf.get_lapack_funcs = spy_get
    try:
        for cname, diag in solver_cells(ctx.quick):
            P = Prepared(cname, diag, rng)
            for orders in COMBOS:
                if not P.usable(orders):
                    continue
                ncoef = sum(P.nb[m] for m in orders)
                for kind, d, f in datasets(rng, P.N, ncoef):
                    n_s = d.shape[0]
                    for bs in sorted({100, max(1, n_s - 1)} if ctx.quick else {1, 2, 3, 100, max(1, n_s - 1)}):
                        o = P.new(d, f)
                        raised = None
                        try:
                            solve_with_batch(o, P, orders, False, bs)
                        except (np.linalg.LinAlgError, ValueError, RuntimeError, IndexError, ZeroDivisionError) as e:   # the implementation failing loudly
                            raised = e
                        ctx.case({"cell": P.sc["name"], "orders": list(orders), "data": kind, "n_snap": int(d.shape[0]), "batch": bs, "n_coef": int(ncoef)},
                                 nontrivial=raised is None)
                        ctx.count("data:" + kind)
                        ctx.count("outcome:" + ("returned" if raised is None else type(raised).__name__))
                        if raised is not None:
                            continue  # failing loudly is allowed
                        X = dense_design(P.basis, orders, d)
                        y = f.reshape(-1)
                        # coefficients back from the returned full force constants (expanded basis is orthonormal)
                        coefs = []
                        from solvers import expanded_basis
                        for m in orders:
                            T = expanded_basis(P.basis[m], m, P.N).reshape(P.nb[m], -1)
                            coefs.append(T @ o.force_constants[m].reshape(-1))
                        c = np.concatenate(coefs)
                        g = X.T @ (y - X @ c)
                        scale = max(np.abs(X.T @ y).max(), np.abs(X.T @ X).max() * max(np.abs(c).max(), 1e-300), 1e-300)
                        rel = float(np.abs(g).max() / scale)
                        # column-wise: the residual is orthogonal to every basis force pattern (cosines, scale-free per column)
                        r_ = y - X @ c
                        nr = float(np.linalg.norm(r_))
                        if nr > 1e-9 * float(np.linalg.norm(y)):
                            cn = np.linalg.norm(X, axis=0)
                            ok_cols = cn > 0
                            # normal equations in column-scaled form (every basis force pattern normalised to unit length): the residual
                            # projected on each unit column, relative to the largest scaled coefficient / scaled right-hand side.  Cholesky's
                            # backward error is invariant under this scaling, so the bound holds for ill-conditioned designs as well, and a
                            # block of columns of small norm (higher orders at small amplitudes) is not drowned by a large one
                            gs = np.abs(X[:, ok_cols].T @ r_) / cn[ok_cols]
                            cs = np.abs(c[ok_cols]) * cn[ok_cols]
                            bsc = np.abs(X[:, ok_cols].T @ y) / cn[ok_cols]
                            worst_cos = float(gs.max() / max(cs.max(), bsc.max(), 1e-300)) if gs.size else 0.0
                            well = True
                            if well and not worst_cos <= 1e-6:
                                ctx.fail("oracle", f"C06/oracle/orthogonality/{kind}", f"{P.sc['name']} orders {orders} data '{kind}' ({d.shape[0]} snapshots, batch_size {bs}): the residual is not orthogonal to a basis force pattern "
                                         f"(column-scaled normal-equation residual {worst_cos:.2e}), i.e. a better admissible fit exists, and no exception was raised",
                                         replay={**P.describe(), "orders": list(orders), "data_kind": kind, "n_snap": int(d.shape[0]), "batch_size": bs, "disps": d.tolist(), "forces": f.tolist(), "cosine": worst_cos}, has_input=True)
                        # the same numbers held in single precision: the conversion to double is exact, so the fit must be the one of
                        # the float64 copy (anything else means part of the accumulation ran in single precision, i.e. normal
                        # equations satisfied to 1e-8 only)
                        if kind == "over" and bs == 100:
                            f32 = f.astype(np.float32)
                            pair = []
                            for ff in (f32, f32.astype(np.float64)):
                                o32 = P.new(d, ff)
                                try:
                                    solve_with_batch(o32, P, orders, False, bs)
                                    pair.append({m: np.array(o32.force_constants[m]) for m in orders})
                                except (np.linalg.LinAlgError, ValueError, RuntimeError, IndexError, ZeroDivisionError, TypeError):
                                    pair.append(None)
                            ctx.count("float32-twin")
                            if pair[0] is not None and pair[1] is not None:
                                dev = max(float(np.abs(pair[0][m] - pair[1][m]).max() / max(np.abs(pair[1][m]).max(), 1e-300)) for m in orders)
                                if dev > 1e-11:
                                    ctx.fail("oracle", "C06/oracle/float32-forces", f"{P.sc['name']} orders {orders}: forces given as float32 are fitted differently from the same numbers given as float64 "
                                             f"(relative deviation {dev:.2e}); the float64 fit satisfies the normal equations to rounding, so the float32 one does not",
                                             replay={**P.describe(), "orders": list(orders), "disps": d.tolist(), "forces_float32": f32.astype(float).tolist(), "deviation": dev}, has_input=True)
                        # displacements on an integer grid typed int64 (the constructor keeps the array as given): the fit must be the one
                        # of the same numbers typed float64 (R14-K2: forces cast to the displacement dtype); a design that the rounding
                        # makes rank deficient raises and is skipped
                        if kind == "over" and bs == 100:
                            di = np.rint(d * 40).astype(np.int64)
                            pair = []
                            for dd in (di, di.astype(np.float64)):
                                oi = P.new(dd, f)
                                try:
                                    solve_with_batch(oi, P, orders, False, bs)
                                    pair.append({m: np.array(oi.force_constants[m]) for m in orders})
                                except (np.linalg.LinAlgError, ValueError, RuntimeError, IndexError, ZeroDivisionError, TypeError):
                                    pair.append(None)
                            ctx.count("integer-displacement-twin")
                            Xi = dense_design(P.basis, orders, di.astype(float))
                            svi = np.linalg.svd(Xi, compute_uv=False)
                            if pair[0] is not None and pair[1] is not None and svi[-1] >= 1e-3 * svi[0]:
                                dev = max(float(np.abs(pair[0][m] - pair[1][m]).max() / max(np.abs(pair[1][m]).max(), 1e-300)) for m in orders)
                                if dev > 1e-8:
                                    ctx.fail("oracle", "C06/oracle/integer-displacements", f"{P.sc['name']} orders {orders}: displacements given as int64 are fitted differently from the same numbers given as float64 "
                                             f"(relative deviation {dev:.2e}); the float64 fit satisfies the normal equations to rounding, so the int64 one does not",
                                             replay={**P.describe(), "orders": list(orders), "disps_int64": di.tolist(), "forces": f.tolist(), "deviation": dev}, has_input=True)
                        if not rel <= 1e-7:
                            key = f"C06/oracle/normal-eq/{kind}"
                            ctx.fail("oracle", key, f"{P.sc['name']} orders {orders} data '{kind}' ({d.shape[0]} snapshots, {ncoef} coefficients, batch_size {bs}): "
                                     f"returned coefficients violate the normal equations (relative residual {rel:.2e}) and no exception was raised",
                                     replay={**P.describe(), "orders": list(orders), "data_kind": kind, "n_snap": int(d.shape[0]), "batch_size": bs,
                                             "disps": d.tolist(), "forces": f.tolist(), "rel_residual": rel}, has_input=True)
    finally:
        sf.get_lapack_funcs = orig
    ctx.require("some over-determined fits returned coefficients (outcome:returned > 0) and posv was called", ctx.distribution.get("outcome:returned", 0) > 0 and calls["n"] > 0)
    ctx.distribution["posv_calls"] = calls["n"]
    ctx.distribution["posv_info_nonzero"] = calls["info_nonzero"]
    if calls["contract_violations"]:
        ctx.fail("oracle", "C06/conformance/posv", f"posv returned info = 0 with A x != b on {calls['contract_violations']} calls")
