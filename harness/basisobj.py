"""One basis-set object run several times (C11: "basis sets computed in one object or separately"; C12: nothing may depend on
the object's history): FCBasisSetO2/O3/O4.run() repeated, and for order 2 run(rotational_sum_rules=True) followed by run()
(and the other way round) -- the span after each call must be the one a freshly created object gives for the same call."""
from __future__ import annotations

import numpy as np

from gens import atoms_of, base_cells, make_supercell
from tensors import same_span


def _span(b):
    return np.asarray(b.compression_matrix @ b.basis_set)


def check_basis_objects(ctx, pid, rng):
    from symfc.basis_sets import FCBasisSetO2, FCBasisSetO3, FCBasisSetO4

    cells = [("wurtzite", (1, 1, 1)), ("mono_P", (1, 1, 1)), ("hcp", (1, 1, 1))] + ([] if ctx.quick else [("nacl_prim", (2, 1, 1)), ("tri1", (3, 1, 1)), ("mono_P", (2, 1, 1))])
    for cname, diag in cells:
        sc = make_supercell(base_cells()[cname], diag, rng=rng, shuffle=True)
        N = len(sc["numbers"])
        at = atoms_of(sc)
        rep = {"cell": sc["name"], "lattice": sc["lattice"].tolist(), "positions": sc["positions"].tolist(), "numbers": [int(x) for x in sc["numbers"]]}
        for cls, order in ((FCBasisSetO2, 2), (FCBasisSetO3, 3), (FCBasisSetO4, 4)):
            if N ** order * 3 ** order > 200000:
                continue
            fresh = _span(cls(at).run())
            seqs = [("run, run", [{}, {}])]
            if order == 2:
                seqs += [("run(rotational_sum_rules=True), run", [{"rotational_sum_rules": True}, {}]),
                         ("run, run(rotational_sum_rules=True), run", [{}, {"rotational_sum_rules": True}, {}])]
            for sname, calls in seqs:
                obj = cls(at)
                try:
                    for kw in calls:
                        obj.run(**kw)
                except (ValueError, IndexError, np.linalg.LinAlgError):
                    ctx.count("basis-object-sequence-raised")      # the rotational option fails loudly on some cells
                    continue
                ctx.case({"cell": sc["name"], "order": order, "basis_object_sequence": sname}, nontrivial=fresh.shape[1] > 0)
                ctx.count("basis-object-sequence")
                got = _span(obj)
                if got.shape[1] != fresh.shape[1] or not same_span(got, fresh)[0]:
                    ctx.fail("oracle", f"{pid}/oracle/basis-object-history/order{order}", f"{sc['name']}: FCBasisSetO{order} after the calls [{sname}] holds {got.shape[1]} basis vectors, a fresh object's run() gives {fresh.shape[1]} "
                             "(the last call is the same plain run() in both): the result depends on what the object did before",
                             replay={**rep, "order": order, "sequence": sname}, has_input=True)


def check_estimate_then_run(ctx, pid, rng):
    """estimate_basis_size() before run() on one basis-set object (with and without cutoff; supercells with a lattice translation of
    order 3): the estimate is a read-only query, the basis computed afterwards is the one of a fresh object."""
    from symfc.basis_sets import FCBasisSetO2, FCBasisSetO3, FCBasisSetO4
    from reference import min_image_distances

    for cname, diag in [("cscl", (3, 2, 1)), ("tri2_P1", (3, 1, 1))] + ([] if ctx.quick else [("hcp", (3, 1, 1)), ("mono_P", (1, 3, 1)), ("tri1", (4, 1, 1))]):
        sc = make_supercell(base_cells()[cname], diag, rng=rng, shuffle=True)
        N = len(sc["numbers"])
        at = atoms_of(sc)
        dist = min_image_distances(np.asarray(sc["lattice"], float), np.asarray(sc["positions"], float))
        shells = sorted(set(np.round(dist[dist > 1e-8], 6).tolist()))
        cuts = [None] + ([(shells[len(shells) // 2 - 1] + shells[len(shells) // 2]) / 2] if len(shells) >= 2 else [])
        for cls, order in ((FCBasisSetO2, 2), (FCBasisSetO3, 3), (FCBasisSetO4, 4)):
            if N ** order * 3 ** order > 200000:
                continue
            for cut in cuts:
                try:
                    fresh = _span(cls(at, cutoff=cut).run())
                    obj = cls(at, cutoff=cut)
                    obj.estimate_basis_size()
                    obj.run()
                except (ValueError, IndexError):
                    ctx.count("basis-object-sequence-raised")
                    continue
                got = _span(obj)
                ctx.case({"cell": sc["name"], "order": order, "cutoff": None if cut is None else round(cut, 4), "basis_object_sequence": "estimate_basis_size, run"}, nontrivial=fresh.shape[1] > 0)
                ctx.count("estimate-then-run")
                if got.shape[1] != fresh.shape[1] or not same_span(got, fresh)[0]:
                    ctx.fail("oracle", f"{pid}/oracle/estimate-then-run/order{order}", f"{sc['name']} cutoff={cut}: FCBasisSetO{order} after estimate_basis_size() and run() holds {got.shape[1]} basis vectors, run() alone gives {fresh.shape[1]}: "
                             "the size estimate changed the object",
                             replay={"cell": sc["name"], "lattice": sc["lattice"].tolist(), "positions": sc["positions"].tolist(), "numbers": [int(x) for x in sc["numbers"]], "order": order, "cutoff": cut}, has_input=True)


def check_handover_then_compute(ctx, pid, rng):
    """A basis set of one order built by another object from a proper SUBGROUP of operations (translations only / proper rotations only)
    is handed to an object created without operations; a different order computed afterwards on the receiving object must be the
    full-group basis a fresh object computes (and therefore invariant under every operation of the crystal)."""
    import spglib
    from symfc import Symfc

    for cname, diag in [("hcp", (1, 1, 1)), ("si_prim", (1, 1, 1))] + ([] if ctx.quick else [("mono_P", (1, 1, 1)), ("wurtzite", (1, 1, 1)), ("bcc_conv", (1, 1, 1))]):
        sc = make_supercell(base_cells()[cname], diag, rng=rng, shuffle=True)
        at = atoms_of(sc)
        ops = spglib.get_symmetry((sc["lattice"], sc["positions"], sc["numbers"]))
        rots, trans = np.asarray(ops["rotations"]), np.asarray(ops["translations"])
        pure = [i for i in range(len(rots)) if (rots[i] == np.eye(3, dtype=int)).all()]
        if len(pure) == len(rots) or not ((rots[0] == np.eye(3, dtype=int)).all() and np.abs(trans[0]).max() < 1e-9):
            continue
        for give, compute in ((2, 3), (3, 2)):
            A = Symfc(at, spacegroup_operations={"rotations": rots[pure], "translations": trans[pure]}).compute_basis_set(orders=[give])
            B = Symfc(at)
            B.basis_set = {give: A.basis_set[give]}
            B.compute_basis_set(orders=[compute])
            fresh = _span(Symfc(at).compute_basis_set(orders=[compute]).basis_set[compute])
            got = _span(B.basis_set[compute])
            ctx.case({"cell": sc["name"], "handed_over_order": give, "computed_order": compute, "subgroup": "translations only"}, nontrivial=True)
            ctx.count("handover-then-compute")
            if got.shape[1] != fresh.shape[1] or not same_span(got, fresh)[0]:
                ctx.fail("oracle", f"{pid}/oracle/handover-then-compute/order{compute}", f"{sc['name']}: an object created without operations received an order-{give} basis built from the translations only and then computed order {compute}: "
                         f"{got.shape[1]} basis vectors, a fresh object gives {fresh.shape[1]} (the computed basis depends on what the object held before; it is invariant under a subgroup only)",
                         replay={"cell": sc["name"], "lattice": sc["lattice"].tolist(), "positions": sc["positions"].tolist(), "numbers": [int(x) for x in sc["numbers"]], "handed_over_order": give, "computed_order": compute}, has_input=True)
