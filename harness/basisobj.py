"""One basis-set object run several times (C11: "basis sets computed in one object or separately"; C12: nothing may depend on
the object's history): FCBasisSetO2/O3/O4.run() repeated, and for order 2 run(rotational_sum_rules=True) followed by run()
(and the other way round) -- the span after each call must be the one a freshly created object gives for the same call."""
from __future__ import annotations

import numpy as np

from gens import atoms_of, base_cells, make_supercell
from tensors import same_span


def _span(b):
    return np.asarray(b.compression_matrix @ b.basis_set)


def check_basis_objects(ctx, pid, rng):
    from symfc.basis_sets import FCBasisSetO2, FCBasisSetO3, FCBasisSetO4

    cells = [("wurtzite", (1, 1, 1)), ("mono_P", (1, 1, 1)), ("hcp", (1, 1, 1))] + ([] if ctx.quick else [("nacl_prim", (2, 1, 1)), ("tri1", (3, 1, 1)), ("mono_P", (2, 1, 1))])
    for cname, diag in cells:
        sc = make_supercell(base_cells()[cname], diag, rng=rng, shuffle=True)
        N = len(sc["numbers"])
        at = atoms_of(sc)
        rep = {"cell": sc["name"], "lattice": sc["lattice"].tolist(), "positions": sc["positions"].tolist(), "numbers": [int(x) for x in sc["numbers"]]}
        for cls, order in ((FCBasisSetO2, 2), (FCBasisSetO3, 3), (FCBasisSetO4, 4)):
            if N ** order * 3 ** order > 200000:
                continue
            fresh = _span(cls(at).run())
            seqs = [("run, run", [{}, {}])]
            if order == 2:
                seqs += [("run(rotational_sum_rules=True), run", [{"rotational_sum_rules": True}, {}]),
                         ("run, run(rotational_sum_rules=True), run", [{}, {"rotational_sum_rules": True}, {}])]
            for sname, calls in seqs:
                obj = cls(at)
                try:
                    for kw in calls:
                        obj.run(**kw)
                except (ValueError, IndexError, np.linalg.LinAlgError):
                    ctx.count("basis-object-sequence-raised")      # the rotational option fails loudly on some cells
                    continue
                ctx.case({"cell": sc["name"], "order": order, "basis_object_sequence": sname}, nontrivial=fresh.shape[1] > 0)
                ctx.count("basis-object-sequence")
                got = _span(obj)
                if got.shape[1] != fresh.shape[1] or not same_span(got, fresh)[0]:
                    ctx.fail("oracle", f"{pid}/oracle/basis-object-history/order{order}", f"{sc['name']}: FCBasisSetO{order} after the calls [{sname}] holds {got.shape[1]} basis vectors, a fresh object's run() gives {fresh.shape[1]} "
                             "(the last call is the same plain run() in both): the result depends on what the object did before",
                             replay={**rep, "order": order, "sequence": sname}, has_input=True)
