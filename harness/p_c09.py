"""C09 — orthonormality and isometry.  Coq: props/C09.v.  Oracle: M^T M = I for basis_set, compression
matrix and product on cells (both eigen paths, with and without cutoff), c_pt and C_trans columns on
G-tables, and the eigen-solvers on G-mat with repeated blocks."""
from __future__ import annotations

import os

import numpy as np

from gens import atoms_of, base_cells, make_supercell, tables
from gmat import gmat, run_solver
from permcorr import fake_cutoff, impl_cpt_labels, random_near

UNITS = ["EigStruct", "SolverStruct", "IndepGen", "ShapesO1", "ShapesBasis", "ShapesAuxO1", "ShapesAuxEig", "SkelBasis", "SkelEig", "SkelIdx", "ShapesPerm", "SkelPerm", "ShapesApi", "SkelApi", "ShapesSpg", "ShapesReps", "SkelSpg"]
PROPS = ["props/C09.v"]
ASSUMPTIONS = ["numpy eigh returns orthonormal eigenvectors (conformance-checked: every solver output of this run is tested for E^T E = I)", "1e-8 tolerance on |M^T M - I|max"]


def dev(M):
    M = np.asarray(M.todense()) if hasattr(M, "todense") else np.asarray(M)
    if M.shape[1] == 0:
        return 0.0
    return float(np.abs(M.T @ M - np.eye(M.shape[1])).max())


def check(ctx):
    from symfc import Symfc
    import symfc.utils.utils_O2 as u2
    import symfc.utils.utils_O3 as u3

    rng = np.random.default_rng(ctx.seed)
    from o1 import check_o1
    check_o1(ctx, "C09", np.random.default_rng(ctx.seed + 1001))   # the exported first-order basis
    ctx.rule = ("G-tables: c_pt and C_trans columns for all small groups, orders 2-4, with/without cutoff relation; cells: low-symmetry and centred cells, both eigen paths "
                "(threshold hook below and above the projector size, sub-block size 5), cutoff none/real; G-mat with repeated blocks. Non-trivial: at least 2 columns")
    for name, tp in tables(4 if ctx.quick else 6, rng):
        N = tp.shape[1]
        for order in (2, 3, 4):
            if order == 4 and N > 4 or N < 2 and order == 4:
                continue
            for near in (None, random_near(tp, rng, 0.6)):
                try:
                    lab, c_pt, ok = impl_cpt_labels(tp, order, fc_cutoff=None if near is None else fake_cutoff(near))
                except (IndexError, ValueError):
                    continue
                d = dev(c_pt)
                ctx.case({"table": name, "order": order, "cutoff": near is not None, "matrix": "c_pt"}, nontrivial=c_pt.shape[1] >= 2)
                ctx.count("c_pt")
                if d > 1e-10:
                    ctx.fail("oracle", f"C09/oracle/c_pt/order{order}", f"c_pt of {name} order {order} is not orthonormal ({d:.2e})", replay={"tp": tp.tolist(), "order": order}, has_input=True)
        for order, fn in ((2, u2.get_lat_trans_compr_matrix_O2), (3, u3.get_lat_trans_compr_matrix_O3)):
            if N ** order * 3 ** order > 40000:
                continue
            ct = fn(tp)
            d = dev(ct)
            ctx.case({"table": name, "order": order, "matrix": "C_trans"}, nontrivial=tp.shape[0] >= 2)
            ctx.count("C_trans")
            if d > 1e-10:
                ctx.fail("oracle", f"C09/oracle/c_trans/order{order}", f"C_trans of {name} order {order} is not orthonormal ({d:.2e})", replay={"tp": tp.tolist(), "order": order}, has_input=True)
    cells = [("tri1", (2, 2, 1), None), ("tri2_P1", (1, 1, 1), None), ("bcc_conv", (1, 1, 1), None), ("hcp", (1, 1, 1), None), ("tri1", (2, 2, 1), 3.9), ("nacl_prim", (1, 1, 1), None), ("fcc_conv", (1, 1, 1), None), ("tri2_P1", (3, 1, 1), None), ("p4_general", (1, 1, 1), None)]
    if not ctx.quick:
        cells += [("tri1", (2, 2, 2), None), ("wurtzite", (1, 1, 1), None), ("ortho_C", (1, 1, 2), 4.5), ("si_prim", (2, 1, 1), None), ("rutile_like", (1, 1, 1), None), ("flat", (1, 1, 1), None)]
    for cname, diag, cut in cells:
        sc = make_supercell(base_cells()[cname], diag, rng=rng, shuffle=True)
        N = len(sc["numbers"])
        at = atoms_of(sc)
        for order in (2, 3, 4):
            if N ** order * 3 ** order > 700000 or (order == 4 and N >= 5 and ctx.quick):
                continue
            for thr in (None, 1):
                if thr is not None:
                    os.environ["SYMFC_VERIF_EIG_THRESHOLD"] = "1"
                    os.environ["SYMFC_VERIF_EIG_TARGET"] = "5"
                try:
                    obj = Symfc(at, cutoff=None if cut is None else {2: cut, 3: cut, 4: cut})
                    try:
                        obj.compute_basis_set(orders=[order])
                    except (IndexError, ValueError):
                        continue
                finally:
                    os.environ.pop("SYMFC_VERIF_EIG_THRESHOLD", None)
                    os.environ.pop("SYMFC_VERIF_EIG_TARGET", None)
                b = obj.basis_set[order]
                nb = b.basis_set.shape[1]
                ctx.case({"cell": sc["name"], "order": order, "cutoff": cut, "eig_path": "large" if thr else "default", "n_basis": int(nb)}, nontrivial=nb >= 2)
                ctx.count("cell")
                if nb == 0:
                    continue
                comp = b.compression_matrix
                mats = {"basis_set": b.basis_set, "compression_matrix": comp, "expanded": comp @ b.basis_set,
                        "compact*sqrt(n_lp)": b.compact_compression_matrix * np.sqrt(b.translation_permutations.shape[0])}
                for mname, M in mats.items():
                    d = dev(M)
                    if d > 1e-8:
                        ctx.fail("oracle", f"C09/oracle/{mname}/order{order}", f"{mname} of {sc['name']} order {order} cutoff={cut} eig_path={'large' if thr else 'default'} is not orthonormal ({d:.2e})",
                                 replay={"cell": sc["name"], "lattice": sc["lattice"].tolist(), "positions": sc["positions"].tolist(), "numbers": [int(x) for x in sc["numbers"]], "order": order, "cutoff": cut, "eig_threshold": thr}, has_input=True)
    for kind, M in gmat(rng, True):
        if M.shape[0] > 200:
            continue        # the large dense matrix is C15's
        for solver, target in (("eigsh_projector", None), ("stable", None), ("large", 3)):
            try:
                E = run_solver(solver, M.copy(), target=target)
            except Exception:  # noqa: BLE001
                ctx.count("gmat-solver-raised")
                continue  # C15 reports solver failures
            if E is None:
                continue
            d = dev(E)
            ctx.case({"matrix": kind, "solver": solver}, nontrivial=getattr(E, "shape", (0, 0))[1] >= 2)
            ctx.count("gmat")
            if d > 1e-7:
                ctx.fail("oracle", f"C09/oracle/gmat/{solver}", f"{solver} returned non-orthonormal columns on {kind} ({d:.2e})", replay={"matrix": M.tolist(), "solver": solver}, has_input=True)
    ctx.require("the eigen-solvers returned vectors for most generated matrices", ctx.distribution.get("gmat", 0) > 3 * ctx.distribution.get("gmat-solver-raised", 0))
