"""C03 — translational sum rule.  Coq: props/C03.v.  Correspondence: the sum-rule matrix built by
compressed_projector_sum_rules_On with an identity compression matrix against the model rows
(SumRule.sumrule_rows), every valid n_batch, fast and stable variants.  Oracle: axis sums of expanded
basis vectors and of fits, every index position, with and without cutoff, both eigen-solver paths."""
from __future__ import annotations

import importlib
import os

import numpy as np
import scipy.sparse as sp

from common import coq_eval, natll, parse_ints, try_coq
from gens import atoms_of, base_cells, make_supercell, random_dataset, tables
from permcorr import coq_near, fake_cutoff, random_near
from tensors import full_basis_tensors, sum_rule_residual

UNITS = ["SolverStruct", "BatchGen", "EigStruct", "ShapesO1", "ShapesBasis", "ShapesSumRule", "ShapesAuxO1", "ShapesAuxEig", "ShapesAuxBatch", "ShapesAuxRot", "SkelBasis", "SkelEig", "SkelMat", "ShapesPerm", "SkelPerm", "ShapesApi", "SkelApi", "ShapesSolvers", "SkelSolvers", "IndepGen", "ShapesSpg", "ShapesReps", "SkelSpg", "Tables", "ShapesCombos", "ShapesCoset", "CutoffGen", "ShapesGeom", "ShapesAuxCut", "SkelIdx", "SkelCut"]
PROPS = ["props/C03.v"]
EXTRA = ["theories/SumRule.vo"]
ASSUMPTIONS = ["eigen-solver selection of the unit eigenspace is C15's subject (oracle: numpy eigh); sums are checked to 1e-9 relative to the largest element"]


def impl_gram(tp, order, fc, n_batch, stable=False):
    mod = importlib.import_module(f"symfc.utils.matrix_tools_O{order}")
    fn = getattr(mod, f"compressed_projector_sum_rules_O{order}" + ("_stable" if stable else ""))
    n_lp, N = tp.shape
    size = N ** order * 3 ** order // n_lp
    eye = sp.identity(size, format="csr")
    kw = {}
    if n_batch is not None:
        kw["n_batch"] = n_batch
    elif order == 2:
        kw["n_batch"] = 1
    P = fn(np.asarray(tp), eye, fc_cutoff=fc, **kw)
    G = (sp.identity(size) - P).toarray()
    # the matrix is I - A^T A / c with c = N (orders 2, 3 fast), n_lp N (order 4 fast; the stable variants, whose A
    # has n_lp copies of every row).  Any c > 0 gives the same unit eigenspace (c03_unit_eig_iff_constraints), so the
    # comparison is made on the integer matrix A^T A after removing the scale: smallest positive entry -> 1.
    pos = G[G > 1e-12]
    scale = 1.0 / pos.min() if pos.size else 1.0
    G = G * scale
    if stable:
        G = G / n_lp if np.abs(G / n_lp - np.rint(G / n_lp)).max() < 1e-9 and False else G
    return np.rint(G).astype(int), float(np.abs(G - np.rint(G)).max())


def model_gram(cases, tag):
    exprs = []
    for tp, order, near in cases:
        N = tp.shape[1]
        exprs.append(f"sumrule_rows {order}%nat {N}%nat ({natll(tp)}) {coq_near(near)}")
    res = coq_eval(f"sumrule_{tag}", ["From SymfcV Require Import Tuples Concrete Cutoff SumRule."], [], exprs, timeout=900)
    out = []
    for (tp, order, near), r in zip(cases, res):
        n_lp, N = tp.shape
        size = N ** order * 3 ** order // n_lp
        rows = [parse_ints(x) for x in r.strip()[1:-1].split("];")] if r.strip() != "[]" else []
        G = np.zeros((size, size), dtype=int)
        for row in rows:
            if row:
                idx = np.array(row)
                G[np.ix_(idx, idx)] += 1
        out.append(G)
    return out


def weak_constraints_large_cell(ctx):
    """A sum-rule row with a single surviving element (the self-term of an atom without neighbour inside the cutoff) is the weakest
    constraint there is: eigenvalue 1 - 1/N of the matrix handed to the eigen-solver.  On a 648-atom supercell (216 lattice points)
    1/N = 1.5e-3 is still far from every tolerance; any extra factor (1/n_lp ...) would bring it below np.isclose's 1e-5."""
    from symfc import Symfc
    from symfc.utils.utils import SymfcAtoms

    prim_cell = np.array([[4.2, 0.3, 0.1], [0.2, 4.6, 0.4], [0.5, 0.1, 5.0]])
    prim_pos = np.array([[0.10, 0.12, 0.08], [0.33, 0.27, 0.21], [0.62, 0.66, 0.58]])     # A-B bonded (1.3), C isolated (> 2.6)
    dims = (6, 6, 6)
    pos, nums = [], []
    for p_, z_ in zip(prim_pos, (6, 8, 18)):
        for i_ in range(dims[0]):
            for j_ in range(dims[1]):
                for k_ in range(dims[2]):
                    pos.append([(p_[0] + i_) / dims[0], (p_[1] + j_) / dims[1], (p_[2] + k_) / dims[2]])
                    nums.append(z_)
    at = SymfcAtoms(numbers=nums, scaled_positions=np.array(pos), cell=prim_cell * np.array(dims)[:, None])
    N = len(nums)
    b = Symfc(at, cutoff={2: 2.0}).compute_basis_set(orders=[2]).basis_set[2]
    nb = b.basis_set.shape[1]
    ctx.case({"cell": "triclinic ABC 6x6x6 (648 atoms), cutoff {2: 2.0}", "n_basis": int(nb)}, nontrivial=nb > 0)
    ctx.count("weak-constraints-large-cell")
    if nb == 0:
        return
    E = np.asarray(b.compression_matrix @ b.basis_set).reshape(N, N, 3, 3, nb)
    worst = float(max(np.abs(E.sum(axis=0)).max(), np.abs(E.sum(axis=1)).max()) / max(np.abs(E).max(), 1e-300))
    if worst > 1e-8:
        ctx.fail("oracle", "C03/oracle/basis/weak-constraint", f"648-atom triclinic supercell (3 atoms x 6x6x6), cutoff {{2: 2.0}} (the third atom has no neighbour inside it): an expanded order-2 basis vector violates the "
                 f"translational sum rule by {worst:.2e} of its largest element ({nb} basis vectors)",
                 replay={"prim_cell": prim_cell.tolist(), "prim_positions": prim_pos.tolist(), "numbers": [6, 8, 18], "supercell": list(dims), "cutoff": {"2": 2.0}, "order": 2}, has_input=True)


def estimate_then_run(ctx, rng):
    """The sum rule of a basis computed by an object that was first asked for its size estimate (a read-only query), with a cutoff, on
    supercells with a lattice translation of order 3."""
    from symfc.basis_sets import FCBasisSetO2, FCBasisSetO3
    from reference import min_image_distances

    for cname, diag in [("cscl", (3, 2, 1))] + ([] if ctx.quick else [("tri2_P1", (3, 1, 1)), ("hcp", (3, 1, 1))]):
        sc = make_supercell(base_cells()[cname], diag, rng=rng, shuffle=True)
        N = len(sc["numbers"])
        at = atoms_of(sc)
        dist = min_image_distances(np.asarray(sc["lattice"], float), np.asarray(sc["positions"], float))
        shells = sorted(set(np.round(dist[dist > 1e-8], 6).tolist()))
        if len(shells) < 2:
            continue
        cut = (shells[len(shells) // 2 - 1] + shells[len(shells) // 2]) / 2
        for cls, order in ((FCBasisSetO2, 2), (FCBasisSetO3, 3)):
            obj = cls(at, cutoff=cut)
            obj.estimate_basis_size()
            obj.run()
            nb = obj.basis_set.shape[1]
            ctx.case({"cell": sc["name"], "order": order, "cutoff": round(cut, 4), "sequence": "estimate_basis_size, run", "n_basis": int(nb)}, nontrivial=nb > 0)
            ctx.count("estimate-then-run")
            if nb == 0:
                continue
            T = full_basis_tensors(obj, order, N)
            worst = max(sum_rule_residual(v, order)[0] for v in list(T[:20]) + [np.tensordot(rng.normal(size=nb), T, axes=(0, 0))])
            if worst > 1e-8:
                ctx.fail("oracle", f"C03/oracle/basis/estimate-then-run/order{order}", f"{sc['name']} cutoff {cut:.4f}: FCBasisSetO{order}.estimate_basis_size() followed by run(): an expanded basis vector violates the translational sum rule ({worst:.2e})",
                         replay={"cell": sc["name"], "lattice": sc["lattice"].tolist(), "positions": sc["positions"].tolist(), "numbers": [int(x) for x in sc["numbers"]], "order": order, "cutoff": cut}, has_input=True)


def check(ctx):
    rng = np.random.default_rng(ctx.seed)
    rotational_option(ctx, np.random.default_rng(ctx.seed + 61))
    estimate_then_run(ctx, np.random.default_rng(ctx.seed + 62))
    if not getattr(ctx, "_weak_done", False):
        ctx._weak_done = True
        weak_constraints_large_cell(ctx)
    from bigcell import check_bigcells
    check_bigcells(ctx, "C03", np.random.default_rng(ctx.seed + 2002))   # supercells of 36-216 atoms
    from o1 import check_o1
    check_o1(ctx, "C03", np.random.default_rng(ctx.seed + 1001))   # the exported first-order basis
    ctx.rule = ("Gram correspondence: G-tables with N<=4 (orders 2,3; order 4 N<=3), no cutoff and random T-invariant cutoff relation, every n_batch dividing pattern 1..N, fast and stable variants; "
                "oracle: low-symmetry cells, orders 2-4, cutoff none/real, sum over each index position of every expanded basis vector and of fits; both eigen paths via SYMFC_VERIF_EIG_THRESHOLD")
    cases = []
    from gens import abelian_table
    # natural labelling (orbit by orbit): independent atoms are not adjacent, so per-atom batches alternate between
    # batches with and without an independent atom
    natural = [("2_na2_natural", abelian_table((2,), 2)), ("2_na3_natural", abelian_table((2,), 3)) if not ctx.quick else ("3_na1_natural", abelian_table((3,), 1)), ("2x2_na1_natural", abelian_table((2, 2), 1))]
    for name, tp in natural + tables(4, rng):
        N = tp.shape[1]
        for order in (2, 3, 4):
            if order == 4 and N > 3:
                continue
            cases.append((name, tp, order, None))
            if N >= 2:
                cases.append((name, tp, order, random_near(tp, rng, 0.6)))
    if ctx.quick:
        cases = cases[:12] + cases[12:: 2] + cases[13:: 4]
    impl = []
    for name, tp, order, near in cases:
        fc = None if near is None else fake_cutoff(near)
        N = tp.shape[1]
        G0, frac = impl_gram(tp, order, fc, None)
        ctx.case({"table": name, "order": order, "cutoff": near is not None, "N": int(N)}, nontrivial=True)
        ctx.count(f"gram-order{order}")
        impl.append(G0)
        descr = {"table": name, "tp": tp.tolist(), "order": order, "near": None if near is None else near.astype(int).tolist()}
        if frac > 1e-9:
            ctx.fail("oracle", f"C03/oracle/gram-integrality/order{order}", f"sum-rule Gram matrix of {name} order {order} is not integral after scaling by N", replay=descr, has_input=True)
        for nb in range(1, N + 1):
            try:
                G, _ = impl_gram(tp, order, fc, nb)
            except ValueError:
                continue
            if not np.array_equal(G, G0):
                ctx.fail("oracle", f"C03/oracle/gram-nbatch/order{order}", f"sum-rule matrix of {name} order {order} depends on n_batch ({nb} vs default)", replay={**descr, "n_batch": nb}, has_input=True)
        if order in (2, 3, 4):
            Gs, _ = impl_gram(tp, order, fc, None, stable=True)
            # stable variant: rows for every J (n_lp copies of each row of the fast variant) -> same A^T A up to scale
            if not np.array_equal(Gs, G0):
                ctx.fail("oracle", f"C03/oracle/gram-stable/order{order}", f"fast and stable sum-rule matrices of {name} order {order} differ", replay=descr, has_input=True)

    def corr():
        step = 16
        for s in range(0, len(cases), step):
            mg = model_gram([(tp, order, near) for (_, tp, order, near) in cases[s:s + step]], f"{ctx.tier}_{s}")
            for (name, tp, order, near), G0, Gm in zip(cases[s:s + step], impl[s:s + step], mg):
                ctx.traces += 1
                if not np.array_equal(G0, Gm):
                    ctx.fail("correspondence", f"C03/corr/gram/order{order}", f"sum-rule Gram matrix of {name} order {order} cutoff={'yes' if near is not None else 'no'} differs from the model in {int((G0 != Gm).sum())} entries",
                             replay={"table": name, "tp": tp.tolist(), "order": order, "near": None if near is None else near.astype(int).tolist()}, has_input=True)
    try_coq(ctx, "C03/corr/model", corr)

    # ---- oracle through the public classes
    from symfc import Symfc
    cells = [("tri1", (2, 2, 1), None), ("tri2_P1", (1, 1, 1), None), ("mono_P", (1, 1, 1), None), ("hcp", (1, 1, 1), None), ("tri1", (2, 2, 1), 3.9), ("tri2_P1", (2, 1, 1), 4.2), ("sheared", (1, 1, 1), None), ("tri2_P1", (3, 1, 1), None), ("p4_general", (1, 1, 1), None), ("guest", (1, 1, 1), 2.2), ("guest", (2, 1, 1), 2.2)]
    if not ctx.quick:
        cells += [("tri1", (2, 2, 2), None), ("tri1", (3, 1, 1), 5.0), ("ortho_C", (1, 1, 2), None), ("mono_C", (1, 1, 1), 4.0), ("rhombo1", (2, 2, 1), None), ("needle", (1, 1, 1), None)]
    for cname, diag, cut in cells:
        sc = make_supercell(base_cells()[cname], diag, rng=rng, shuffle=True)
        N = len(sc["numbers"])
        at = atoms_of(sc)
        for order in (2, 3, 4):
            if N ** order * 3 ** order > 700000:
                continue
            for thr in (None, 1):
                if thr is not None:
                    os.environ["SYMFC_VERIF_EIG_THRESHOLD"] = str(thr)
                    os.environ["SYMFC_VERIF_EIG_TARGET"] = "7"
                try:
                    obj = Symfc(at, cutoff=None if cut is None else {2: cut, 3: cut, 4: cut})
                    try:
                        obj.compute_basis_set(orders=[order])
                    except (IndexError, ValueError):
                        ctx.count("implementation-raised-on-degenerate-cutoff")
                        continue
                finally:
                    os.environ.pop("SYMFC_VERIF_EIG_THRESHOLD", None)
                    os.environ.pop("SYMFC_VERIF_EIG_TARGET", None)
                b = obj.basis_set[order]
                nb = b.basis_set.shape[1]
                if nb == 0:
                    continue
                T = full_basis_tensors(b, order, N)
                worst, arg = 0.0, None
                for v in T[: min(nb, 40 if ctx.quick else 300)]:
                    r, k = sum_rule_residual(v, order)
                    if r > worst:
                        worst, arg = r, k
                # every column takes part: a random combination of all expanded basis vectors
                comb = np.tensordot(rng.normal(size=nb), T, axes=(0, 0))
                r, k = sum_rule_residual(comb, order)
                if r > worst:
                    worst, arg = r, k
                ctx.case({"cell": sc["name"], "order": order, "cutoff": cut, "eig_path": "large" if thr else "default", "n_basis": int(nb)}, nontrivial=True)
                ctx.count("cell-basis")
                if worst > 1e-8:
                    ctx.fail("oracle", f"C03/oracle/basis/order{order}", f"expanded basis vector of {sc['name']} order {order} cutoff={cut} eig_path={'large' if thr else 'default'} violates the sum rule at index position {arg} (relative {worst:.2e})",
                             replay={"cell": sc["name"], "lattice": sc["lattice"].tolist(), "positions": sc["positions"].tolist(), "numbers": [int(x) for x in sc["numbers"]], "order": order, "cutoff": cut, "eig_threshold": thr}, has_input=True)
        if N <= 4:
            for orders in ([2], [2, 3], [2, 3, 4]):
                d, f = random_dataset(rng, 4, N)
                o = Symfc(at, displacements=d, forces=f, cutoff=None if cut is None else {2: cut, 3: cut, 4: cut})
                try:
                    o.compute_basis_set(orders=orders)
                except (IndexError, ValueError):
                    continue
                if any(bb.basis_set.shape[1] == 0 for bb in o.basis_set.values()):
                    continue
                try:
                    o.solve(orders=orders, is_compact_fc=False)
                except np.linalg.LinAlgError:
                    ctx.count("fit-singular-raised")
                    continue
                for k, fc in o.force_constants.items():
                    r, pos = sum_rule_residual(fc, k)
                    ctx.case({"cell": sc["name"], "fit": orders, "order": k, "cutoff": cut}, nontrivial=True)
                    if r > 1e-8:
                        ctx.fail("oracle", f"C03/oracle/fit/order{k}", f"fitted fc{k} of {sc['name']} (orders {orders}) violates the sum rule at position {pos} ({r:.2e})",
                                 replay={"cell": sc["name"], "orders": orders, "order": k}, has_input=True)


def rotational_option(ctx, rng):
    """FCBasisSetO2.run(rotational_sum_rules=True) adds rotational-invariance conditions; the translational sum rule must hold
    with the option as well (basis vectors and an FCSolverO2 fit)."""
    from symfc.basis_sets import FCBasisSetO2
    from symfc.solvers import FCSolverO2

    for cname, diag in [("wurtzite", (1, 1, 1)), ("mono_P", (1, 1, 1)), ("hcp", (1, 1, 1))] + ([] if ctx.quick else [("nacl_prim", (2, 1, 1)), ("tri2_P1", (2, 1, 1)), ("hcp", (2, 2, 1)), ("mono_P", (2, 1, 1))]):
        sc = make_supercell(base_cells()[cname], diag, rng=rng, shuffle=True)
        N = len(sc["numbers"])
        at = atoms_of(sc)
        rep = {"cell": sc["name"], "lattice": sc["lattice"].tolist(), "positions": sc["positions"].tolist(), "numbers": [int(x) for x in sc["numbers"]], "order": 2, "rotational_sum_rules": True}
        try:
            b = FCBasisSetO2(at).run(rotational_sum_rules=True)
        except (ValueError, IndexError, np.linalg.LinAlgError):
            # the option itself fails loudly on some cells of the unchanged tree (e.g. a P1 cell without lattice translations:
            # ValueError in the rotational projector); C03 speaks about returned force constants, so this is only counted
            ctx.count("rotational-option-raised")
            continue
        nb = b.basis_set.shape[1]
        ctx.case({"cell": sc["name"], "rotational_sum_rules": True, "n_basis": int(nb)}, nontrivial=nb > 0)
        ctx.count("rotational-option")
        if nb == 0:
            continue
        T = full_basis_tensors(b, 2, N)
        worst = max([sum_rule_residual(v, 2)[0] for v in T] + [sum_rule_residual(np.tensordot(rng.normal(size=nb), T, axes=(0, 0)), 2)[0]])
        if worst > 1e-8:
            ctx.fail("oracle", "C03/oracle/rotational-option", f"{sc['name']}: with rotational_sum_rules=True an expanded order-2 basis vector violates the translational sum rule ({worst:.2e})", replay=rep, has_input=True)
            continue
        n = 3 * int(np.ceil(nb / (3 * N))) + 4
        d, f = rng.normal(size=(n, N, 3)) * 0.05, rng.normal(size=(n, N, 3))
        try:
            fc = np.asarray(FCSolverO2(b).solve(d, f).full_fc)
        except np.linalg.LinAlgError:
            continue
        r, pos = sum_rule_residual(fc, 2)
        if r > 1e-8:
            ctx.fail("oracle", "C03/oracle/rotational-option", f"{sc['name']}: FCSolverO2 fit on the rotational_sum_rules=True basis violates the sum rule at position {pos} ({r:.2e})", replay=rep, has_input=True)
