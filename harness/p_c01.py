"""C01 — index-permutation invariance.
Coq: props/C01.v (label invariance for every valid table / combination list / batch count, orders 2-4,
over the regenerated arrangement tables and representative choice).
Correspondence: translation-class tables and c_pt labels, implementation vs Pipeline.v.
Oracles: S_n-invariance of the c_pt partition (using the implementation's own class table), transposes
of expanded basis vectors and of fitted force constants."""
from __future__ import annotations

import itertools

import numpy as np

from common import try_coq
from gens import abelian_table, atoms_of, base_cells, make_supercell, random_dataset, tables
from permcorr import fake_cutoff, impl_cpt_labels, model_cls, model_labels_check, random_near
from tensors import full_basis_tensors, perm_asym

UNITS = ["Tables", "BatchGen", "ShapesCombos", "ShapesBasis", "ShapesPerm", "ShapesAuxPerm3", "SkelBasis", "SkelMat", "SkelPerm", "ShapesApi", "SkelApi", "SolverStruct", "ShapesSolvers", "SkelSolvers", "IndepGen", "ShapesSpg", "ShapesReps", "SkelSpg"]
PROPS = ["props/C01.v"]
EXTRA = ["theories/Pipeline.vo"]
ASSUMPTIONS = [
    "the 1/sqrt(count) values of c_pt and the later eigen/least-squares stages only take linear combinations of c_pt columns (checked numerically: C2 in span(c_pt)); floating-point symmetry 'to accuracy' is a tolerance check",
    "numpy fancy assignment with repeated indices is sequential (last wins); scipy connected_components returns weak components",
]


def impl_cls(tp, order):
    import symfc.utils.utils_O2 as u2
    import symfc.utils.utils_O3 as u3
    import symfc.utils.utils_O4 as u4

    fn = {2: u2._get_atomic_lat_trans_decompr_indices, 3: u3.get_atomic_lat_trans_decompr_indices_O3,
          4: u4.get_atomic_lat_trans_decompr_indices_O4}[order]
    return np.asarray(fn(np.asarray(tp)))


def partition_invariance(tp, order, lab, idx):
    """S_n invariance of the label array, evaluated with the implementation's class table idx."""
    N = tp.shape[1]
    grids = np.meshgrid(*([np.arange(3 * N)] * order), indexing="ij")
    P = np.stack([g.ravel() for g in grids], axis=1)  # all index tuples
    atoms, carts = P // 3, P % 3

    def code(at, ca):
        a = np.zeros(len(at), dtype=np.int64)
        c = np.zeros(len(at), dtype=np.int64)
        for k in range(order):
            a = a * N + at[:, k]
            c = c * 3 + ca[:, k]
        return idx[a] * 3 ** order + c
    e0 = code(atoms, carts)
    for pi in itertools.permutations(range(order)):
        e1 = code(atoms[:, list(pi)], carts[:, list(pi)])
        bad = np.nonzero(lab[e0] != lab[e1])[0]
        if len(bad):
            k = bad[0]
            return {"tuple": P[k].tolist(), "pi": list(pi), "label": int(lab[e0][k]), "label_permuted": int(lab[e1][k]),
                    "n_bad": int(len(bad))}
    return None


def table_cases(ctx, rng):
    quick = ctx.quick
    out = []
    for name, tp in tables(8 if not quick else 6, rng):
        N = tp.shape[1]
        for order in (2, 3, 4):
            if order == 4 and N > (4 if quick else 5):
                continue
            if order == 3 and N > 8:
                continue
            if order == 4 and N < 2:
                continue  # get_entire_combinations(3, 4) is empty and raises; the order-4 basis of a one-atom supercell is empty (outside the quantifier)
            out.append((name, tp, order, None))
            if N >= 2:
                out.append((name, tp, order, random_near(tp, rng, 0.5)))
    return out


def check(ctx):
    rng = np.random.default_rng(ctx.seed)
    from bigcell import check_bigcells
    check_bigcells(ctx, "C01", np.random.default_rng(ctx.seed + 2002))   # supercells of 36-216 atoms
    ctx.rule = ("G-tables: all free abelian translation groups Z_d1 x Z_d2 x Z_d3 (n_lp <= 8) x n_a in {1,2,3}, N <= 6 (quick) / 8, atoms relabelled and rows shuffled at random, "
                "each with no cutoff and with a random translation-invariant cutoff relation, orders 2,3,4 (order 4: N <= 4 quick / 6); G-cells: small low-symmetry crystals through the public classes. "
                "Non-trivial: n_lp >= 2 or a cutoff that removes elements")
    cases = table_cases(ctx, rng)
    # ---------------- oracle on the implementation: S_n invariance of the c_pt partition
    impl = []
    for name, tp, order, near in cases:
        fc = None if near is None else fake_cutoff(near)
        try:
            lab, c_pt, vals_ok = impl_cpt_labels(tp, order, fc_cutoff=fc)
        except (IndexError, ValueError) as e:
            if near is None:
                raise
            # a cutoff so small that one combination list is empty makes the routine raise (loudly); such
            # cutoffs leave an empty basis after the sum rule and are outside the property's quantifier
            ctx.count("implementation-raised-on-degenerate-cutoff")
            impl.append(None)
            continue
        idx = impl_cls(tp, order)
        impl.append((lab, idx))
        descr = {"table": name, "tp": tp.tolist(), "order": order, "near": None if near is None else near.astype(int).tolist()}
        ctx.case({"table": name, "order": order, "cutoff": near is not None, "N": int(tp.shape[1])},
                 nontrivial=tp.shape[0] >= 2 or near is not None)
        ctx.count(f"order{order}")
        ctx.count(f"nlp{tp.shape[0]}")
        if not vals_ok:
            ctx.fail("oracle", "C01/oracle/cpt-values", f"c_pt of {name} order {order}: values are not 1/sqrt(column size) or a row has two entries", replay=descr, has_input=True)
        bad = partition_invariance(tp, order, lab, idx)
        if bad is not None:
            key = f"C01/oracle/cpt-partition/order{order}"
            ctx.fail("oracle", key, f"c_pt of table {name} (N={tp.shape[1]}, n_lp={tp.shape[0]}), order {order}, cutoff={'yes' if near is not None else 'no'}: "
                     f"tuple {bad['tuple']} and its permutation {bad['pi']} lie in different columns ({bad['label']} vs {bad['label_permuted']}); {bad['n_bad']} such tuples",
                     replay={**descr, **bad}, has_input=True)

    # ---------------- correspondence with the Coq model
    def corr():
        cls_cases = [(tp, order) for (_, tp, order, near) in cases if near is None]
        res = model_cls(cls_cases, ctx.tier)
        from symfc.utils.utils import get_indep_atoms_by_lat_trans
        for (tp, order), (mi, mc, valid) in zip(cls_cases, res):
            ii = get_indep_atoms_by_lat_trans(np.asarray(tp)).tolist()
            ic = impl_cls(tp, order).tolist()
            ctx.traces += 1
            if not valid:
                ctx.fail("correspondence", "C01/corr/valid_tp", f"generated table rejected by valid_tp: {tp.tolist()}", replay={"tp": tp.tolist()}, has_input=True)
            if ii != mi:
                ctx.fail("correspondence", "C01/corr/indep", f"independent atoms differ: implementation {ii}, model {mi}", replay={"tp": tp.tolist()}, has_input=True)
            if ic != mc:
                ctx.fail("correspondence", "C01/corr/cls", f"atomic_decompr_idx differs from the model's class table (order {order})", replay={"tp": tp.tolist(), "order": order}, has_input=True)
        live = [i for i, x in enumerate(impl) if x is not None]
        cases_l = [cases[i] for i in live]
        impl_l = [impl[i] for i in live]
        mcases = [(tp, order, near, [1] * (order)) for (_, tp, order, near) in cases_l]
        # shard to keep each coqc run small
        step = 12
        for s in range(0, len(mcases), step):
            ml = model_labels_check(mcases[s:s + step], [x[0] for x in impl_l[s:s + step]], f"{ctx.tier}_{s}")
            for (name, tp, order, near), (lab, _), nbad in zip(cases_l[s:s + step], impl_l[s:s + step], ml):
                ctx.traces += 1
                if nbad != 0:
                    ctx.fail("correspondence", f"C01/corr/labels/order{order}",
                             f"c_pt partition of table {name} order {order} cutoff={'yes' if near is not None else 'no'} differs from the model in {nbad} elements",
                             replay={"table": name, "tp": tp.tolist(), "order": order, "near": None if near is None else near.astype(int).tolist()}, has_input=True)
    try_coq(ctx, "C01/corr/model", corr)

    # ---------------- oracles through the public classes: expanded basis vectors and fits
    from symfc import Symfc
    cells = [("tri1", (2, 2, 1)), ("tri2_P1", (1, 1, 1)), ("mono_P", (1, 1, 1)), ("tri1", (2, 1, 2)), ("hcp", (1, 1, 1)), ("sheared", (1, 1, 1)), ("tri1", (3, 1, 1)), ("p4_general", (1, 1, 1))]
    if not ctx.quick:
        cells += [("tri1", (2, 2, 2)), ("tri1", (3, 1, 1)), ("ortho_C", (1, 1, 2)), ("mono_C", (1, 1, 1)), ("bcc_conv", (1, 1, 2)), ("rhombo1", (2, 2, 1)), ("tri2_Pm1", (2, 1, 1))]
    for cname, diag in cells:
        sc = make_supercell(base_cells()[cname], diag, rng=rng, shuffle=True)
        N = len(sc["numbers"])
        at = atoms_of(sc)
        for order in (2, 3, 4):
            if N ** order * 3 ** order > 700000:
                continue
            obj = Symfc(at)
            obj.compute_basis_set(orders=[order])
            b = obj.basis_set[order]
            if b.basis_set.shape[1] == 0:
                continue
            nb = b.basis_set.shape[1]
            T = full_basis_tensors(b, order, N)
            worst = 0.0
            for v in T[: min(nb, 60 if ctx.quick else 400)]:
                a, pi = perm_asym(v, order)
                worst = max(worst, a)
            a, pi = perm_asym(np.tensordot(rng.normal(size=nb), T, axes=(0, 0)), order)      # every column takes part
            worst = max(worst, a)
            ctx.case({"cell": sc["name"], "order": order, "N": N, "n_basis": int(nb)}, nontrivial=True)
            ctx.count("cell-basis")
            if worst > 1e-8:
                ctx.fail("oracle", f"C01/oracle/basis/order{order}", f"expanded basis vector of {sc['name']} order {order} is not permutation symmetric (relative asymmetry {worst:.3e})",
                         replay={"cell": sc["name"], "lattice": sc["lattice"].tolist(), "positions": sc["positions"].tolist(), "numbers": list(map(int, sc["numbers"])), "order": order, "asymmetry": worst}, has_input=True)
        # fits with random data
        if N <= 4:
            for orders in ([2], [2, 3], [2, 3, 4], [3], [4], [3, 4]):
                d, f = random_dataset(rng, int(rng.choice([3, 12, 30])), N)
                o = Symfc(at, displacements=d, forces=f).compute_basis_set(orders=orders)
                if any(b.basis_set.shape[1] == 0 for b in o.basis_set.values()):
                    continue  # empty basis for one order (outside the quantifier)
                try:
                    o.solve(orders=orders, is_compact_fc=False)
                except np.linalg.LinAlgError:
                    ctx.count("fit-underdetermined-raised")   # too few snapshots: the solver fails loudly (C06), nothing to check
                    continue
                for k, fc in o.force_constants.items():
                    a, pi = perm_asym(fc, k)
                    ctx.case({"cell": sc["name"], "fit": orders, "order": k}, nontrivial=True)
                    ctx.count("cell-fit")
                    if a > 1e-8 and np.abs(fc).max() > 0:
                        ctx.fail("oracle", f"C01/oracle/fit/order{k}", f"fitted fc{k} of {sc['name']} (orders {orders}, random data) is not permutation symmetric ({a:.3e})",
                                 replay={"cell": sc["name"], "orders": orders, "order": k, "asymmetry": a}, has_input=True)

    # ---------------- fitted (not only basis) tensors on supercells with a lattice translation of order >= 3 and a non-empty
    # third-order basis: the solvers' own expansion of the full output is part of what the user receives
    fit_cells = [("tri2_P1", (3, 1, 1))] + ([] if ctx.quick else [("mono_P", (1, 3, 1)), ("tri2_P1", (1, 1, 4)), ("tri3_P1", (1, 3, 1))])
    from gens import reordered
    fit_scs = [make_supercell(base_cells()[cname], diag, rng=rng, shuffle=True) for cname, diag in fit_cells]
    fit_scs.insert(1, reordered(fit_scs[0]))      # a twin right after its sibling: same shapes, other translation table
    for sc in fit_scs:
        N = len(sc["numbers"])
        at = atoms_of(sc)
        for orders in ([2, 3], [3], [2]):
            d, f = random_dataset(rng, 70, N)
            o = Symfc(at, displacements=d, forces=f).compute_basis_set(orders=orders)
            if any(b.basis_set.shape[1] == 0 for b in o.basis_set.values()):
                continue
            for compact in (False, True):
                try:
                    o.solve(orders=orders, is_compact_fc=compact)
                except np.linalg.LinAlgError:
                    ctx.count("fit-underdetermined-raised")
                    break
                for k, fc in o.force_constants.items():
                    fc = np.asarray(fc)
                    if compact:
                        # expand the compact tensor with the translations before testing the symmetry
                        b = o.basis_set[k]
                        tp = np.asarray(b.translation_permutations)
                        p2s = list(map(int, b.p2s_map))
                        full = np.zeros((N,) * k + (3,) * k)
                        for t in tp:
                            for r, p in enumerate(p2s):
                                idx = np.ix_(*([t] * (k - 1)))
                                full[(t[p],) + tuple(idx)] = fc[r]
                        fc = full
                    a, pi = perm_asym(fc, k)
                    ctx.case({"cell": sc["name"], "fit": orders, "order": k, "compact": compact}, nontrivial=True)
                    ctx.count("cell-fit-order3-translations")
                    if a > 1e-8 and np.abs(fc).max() > 0:
                        ctx.fail("oracle", f"C01/oracle/fit/order{k}", f"fitted fc{k} of {sc['name']} (orders {orders}, {'compact, expanded by translations' if compact else 'full'} output) is not permutation symmetric ({a:.3e})",
                                 replay={"cell": sc["name"], "lattice": sc["lattice"].tolist(), "positions": sc["positions"].tolist(), "numbers": list(map(int, sc["numbers"])),
                                         "orders": orders, "order": k, "compact": compact, "asymmetry": a}, has_input=True)
