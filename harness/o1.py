"""The exported first-order basis (FCBasisSetO1): shared oracle used by C02, C03, C04 and C09.

A first-order tensor is a vector v[i, a] (atom, Cartesian).  Admissible space: invariant under every space-group
operation (v[g(i)] = R v[i]) and sum_i v[i] = 0.  The reference space is built densely and independently
(reference.projector_onto_admissible with order 1)."""
from __future__ import annotations

import numpy as np

from gens import atoms_of, base_cells, make_supercell
from reference import atom_perm_by_matching, projector_onto_admissible

CELLS_QUICK = [("tri2_P1", (1, 1, 1)), ("mono_P", (2, 1, 1)), ("rutile_like", (1, 1, 1)), ("rhombo2", (2, 1, 1)), ("tri3_P1", (1, 1, 2)), ("ortho2", (1, 1, 1)),
               ("tri2_Pm1", (3, 1, 1)), ("hcp", (1, 1, 1)), ("p4_general", (1, 1, 1)), ("p3_general", (1, 1, 1))]
CELLS_MORE = [("wurtzite", (1, 1, 1)), ("wurtzite", (2, 1, 1)), ("sheared", (2, 1, 1)), ("needle", (1, 2, 1)), ("skew_unreduced", (1, 1, 1)), ("mono_P", (2, 2, 1)),
              ("tri3_P1", (2, 1, 1)), ("si_prim", (1, 1, 1)), ("nacl_prim", (2, 1, 1)), ("flat", (1, 1, 3)), ("p4_general", (1, 1, 2)), ("p3_general", (2, 1, 1))]


def dense(m):
    return m.toarray() if hasattr(m, "toarray") else np.asarray(m)


def check_o1(ctx, prop, rng):
    import spglib
    from symfc.basis_sets.basis_sets_O1 import FCBasisSetO1

    cells = CELLS_QUICK + ([] if ctx.quick else CELLS_MORE)
    names = base_cells()
    for cname, diag in cells:
        if cname not in names:
            continue
        for shuffle in (False, True):
            sc = make_supercell(names[cname], diag, rng=rng, shuffle=shuffle)
            N = len(sc["numbers"])
            if N > 16:
                continue
            L = np.asarray(sc["lattice"], float)
            ops = spglib.get_symmetry((sc["lattice"], sc["positions"], sc["numbers"]))
            G = [(atom_perm_by_matching(L, sc["positions"], sc["numbers"], r, t), L.T @ r @ np.linalg.inv(L.T)) for r, t in zip(ops["rotations"], ops["translations"])]
            rep = {"cell": sc["name"], "lattice": L.tolist(), "positions": np.asarray(sc["positions"]).tolist(), "numbers": [int(z) for z in sc["numbers"]], "order": 1, "shuffled": shuffle}
            Q = projector_onto_admissible(N, 1, G)
            variants = [("spglib", None)]
            if not shuffle:
                variants.append(("explicit", {"rotations": ops["rotations"], "translations": ops["translations"]}))
            for vname, given in variants:
                ctx.case({"first_order_basis": sc["name"], "shuffled": shuffle, "operations": vname, "ref_dim": int(Q.shape[1])}, nontrivial=Q.shape[1] >= 1)
                ctx.count("first-order-basis")
                try:
                    b = FCBasisSetO1(atoms_of(sc), spacegroup_operations=given).run()
                    F = dense(b.full_basis_set)
                    Bc = dense(b.basis_set)
                except ValueError as e:
                    if "No basis vectors exist" in str(e) and Q.shape[1] == 0:
                        ctx.count("first-order-basis-empty")
                        continue
                    if prop == "C04":
                        ctx.fail("oracle", "C04/oracle/order1/raised", f"{sc['name']} ({vname} operations): FCBasisSetO1 raised {e} although the admissible space has dimension {Q.shape[1]}", replay=rep, has_input=True)
                    continue
                if F.ndim != 2 or F.shape[0] != 3 * N:
                    ctx.fail("oracle", f"{prop}/oracle/order1/shape", f"{sc['name']}: full_basis_set has shape {F.shape}, expected ({3 * N}, n)", replay=rep, has_input=True)
                    continue
                if prop == "C04":
                    resid = float(np.abs(F - Q @ (Q.T @ F)).max()) if F.shape[1] else 0.0
                    if resid > 1e-8:
                        ctx.fail("oracle", "C04/oracle/not-admissible/order1", f"{sc['name']} ({vname}): a first-order basis vector lies outside the admissible space (residual {resid:.2e})", replay=rep, has_input=True)
                    rank = int(np.linalg.matrix_rank(F, tol=1e-8)) if F.shape[1] else 0
                    if F.shape[1] != Q.shape[1] or rank != Q.shape[1]:
                        ctx.fail("oracle", "C04/oracle/dimension/order1", f"{sc['name']} ({vname}): first-order basis has {F.shape[1]} vectors (rank {rank}), the admissible space has dimension {Q.shape[1]}", replay=rep, has_input=True)
                elif prop == "C02":
                    V = F.reshape(N, 3, -1)
                    worst = 0.0
                    for perm, R in G:
                        W = np.zeros_like(V)
                        W[perm] = np.einsum("ab,ibk->iak", R, V)
                        worst = max(worst, float(np.abs(W - V).max()) if V.size else 0.0)
                    if worst > 1e-8:
                        ctx.fail("oracle", "C02/oracle/order1", f"{sc['name']} ({vname}): a first-order basis vector is not invariant under the space group (deviation {worst:.2e})", replay=rep, has_input=True)
                elif prop == "C03":
                    s = float(np.abs(F.reshape(N, 3, -1).sum(axis=0)).max()) if F.size else 0.0
                    if s > 1e-9:
                        ctx.fail("oracle", "C03/oracle/order1", f"{sc['name']} ({vname}): sum over atoms of a first-order basis vector is {s:.2e}, not zero", replay=rep, has_input=True)
                elif prop == "C09":
                    for nm, M in (("full_basis_set", F), ("basis_set", Bc)):
                        if M.shape[1]:
                            d = float(np.abs(M.T @ M - np.eye(M.shape[1])).max())
                            if d > 1e-9:
                                ctx.fail("oracle", "C09/oracle/order1", f"{sc['name']} ({vname}): columns of the first-order {nm} are not orthonormal (max deviation {d:.2e})", replay=rep, has_input=True)
