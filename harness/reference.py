"""Independent dense reference construction of the admissible space (small cells only):
tensors on the full index space that are permutation symmetric, invariant under every given operation,
obey the sum rule and vanish outside the cutoff.  Pure numpy; shares nothing with symfc's construction
except the operations' atom permutations and Cartesian rotations, which are re-derived here by exact
position matching."""
from __future__ import annotations

import itertools

import numpy as np

from tensors import axes_perm


def atom_perm_by_matching(lattice, positions, numbers, r, t, tol=1e-4):
    img = positions @ r.T + t
    N = len(numbers)
    perm = -np.ones(N, dtype=int)
    for i in range(N):
        d = positions - img[i]
        d -= np.rint(d)
        dist = np.linalg.norm(d @ lattice, axis=1)
        j = np.where((dist < tol) & (np.asarray(numbers) == numbers[i]))[0]
        if len(j) != 1:
            raise ValueError("operation does not map the structure onto itself")
        perm[i] = j[0]
    return perm


def min_image_distances(lattice, positions):
    """certified brute force: |k-th integer component| <= d0 * |b*_k| (Cauchy-Schwarz with the dual basis)."""
    B = np.asarray(lattice, float)
    Binv = np.linalg.inv(B)           # columns are dual vectors b*_k (B @ Binv = I)
    dual_norm = np.linalg.norm(Binv, axis=0)
    N = len(positions)
    D = np.zeros((N, N))
    for i in range(N):
        for j in range(N):
            s = positions[i] - positions[j]
            s = s - np.rint(s)
            d0 = np.linalg.norm(s @ B)
            rad = np.ceil(d0 * dual_norm * (1 + 1e-9) + 1e-9).astype(int) + 1
            best = d0
            for t in itertools.product(*[range(-r, r + 1) for r in rad]):
                d = np.linalg.norm((s - np.array(t)) @ B)
                if d < best:
                    best = d
            D[i, j] = best
    return D


def projector_onto_admissible(N, order, ops, near=None, drop_pattern_22=False):
    """Orthonormal basis Q (dim x r) of the admissible space, as the null space of G = sum_i A_i^T A_i over all constraints.
    For an orthogonal representation rho (index transpositions, space-group operations) A = rho^T - I gives
    A^T A = 2 I - rho - rho^T, so no matrix product is needed for those."""
    dim = N ** order * 3 ** order
    shape = (N,) * order + (3,) * order
    eye = np.eye(dim).reshape((dim,) + shape)
    G = np.zeros((dim, dim))
    I2 = 2.0 * np.eye(dim)
    # permutation symmetry: adjacent transpositions generate S_n
    for k in range(order - 1):
        pi = list(range(order))
        pi[k], pi[k + 1] = pi[k + 1], pi[k]
        ax = (0,) + tuple(1 + a for a in axes_perm(order, pi))
        M = np.transpose(eye, ax).reshape(dim, dim)
        G += I2 - M - M.T
    # space group: every operation
    for perm, R in ops:
        rot = eye
        for k in range(order):
            rot = np.moveaxis(np.tensordot(R, rot, axes=([1], [1 + order + k])), 0, 1 + order + k)
        out = np.zeros_like(eye)
        idx = (slice(None),) + np.ix_(*([perm] * order))
        out[idx] = rot
        M = out.reshape(dim, dim)
        G += I2 - M - M.T
    # sum rule over the first index (others follow from permutation symmetry)
    S = eye.sum(axis=1).reshape(dim, -1)          # dim x (dim / N): column = one sum-rule row
    G += S @ S.T
    # cutoff: elements whose atoms are not mutually near vanish
    zero = np.zeros(shape, dtype=bool)
    if near is not None or drop_pattern_22:
        for at in itertools.product(range(N), repeat=order):
            if near is not None and not all(near[a, b] for a in at for b in at):
                zero[at] = True
        if drop_pattern_22 and order == 4:
            for at in itertools.product(range(N), repeat=4):
                for ca in itertools.product(range(3), repeat=4):
                    idx4 = [3 * a + c for a, c in zip(at, ca)]
                    vals = sorted(set(idx4))
                    if len(vals) == 2 and sorted(idx4.count(v) for v in vals) == [2, 2]:
                        zero[at + ca] = True
        zr = np.nonzero(zero.reshape(-1))[0]
        G[zr, zr] += 1.0
    w, V = np.linalg.eigh(G)
    tol = 1e-9 * max(1.0, w.max())
    return V[:, w < tol]


