"""Correspondence of the translation-class tables and of the permutation/translation orbit labelling
(c_pt) between the implementation and the Coq model (Pipeline.v)."""
from __future__ import annotations

import importlib

import numpy as np

from common import coq_eval, natll, parse_ints, zl


def fake_cutoff(near):
    """FCCutoff whose distance matrix encodes a given boolean relation."""
    from symfc.utils.cutoff_tools import FCCutoff

    n = len(near)
    fc = FCCutoff.__new__(FCCutoff)
    fc._supercell = None
    fc._cutoff = 1.0
    fc._n_atom = n
    fc._distances = np.where(np.array(near, bool), 0.5, 2.0)
    np.fill_diagonal(fc._distances, 0.0)
    fc._neighbors = None
    fc._nonzero_fc2 = fc._nonzero_fc3 = fc._nonzero_fc4 = None
    return fc


def random_near(tp, rng, density=0.5):
    """symmetric, reflexive, translation-invariant relation on atoms"""
    n_lp, N = tp.shape
    near = np.zeros((N, N), bool)
    seen = np.zeros((N, N), bool)
    for i in range(N):
        for j in range(N):
            if seen[i, j]:
                continue
            v = (i == j) or (rng.random() < density)
            for t in range(n_lp):
                a, b = tp[t, i], tp[t, j]
                seen[a, b] = seen[b, a] = True
                near[a, b] = near[b, a] = v
    np.fill_diagonal(near, True)
    return near


def impl_cpt_labels(tp, order, fc_cutoff=None, n_batch=None):
    mod = importlib.import_module(f"symfc.utils.permutation_tools_O{order}")
    fn = getattr(mod, f"compr_permutation_lat_trans_O{order}")
    kw = {} if n_batch is None else {"n_batch": n_batch}
    c_pt = fn(np.asarray(tp), fc_cutoff=fc_cutoff, **kw).tocsr()
    size = c_pt.shape[0]
    lab = -np.ones(size, dtype=int)
    coo = c_pt.tocoo()
    col_min = {}
    for r, c in zip(coo.row, coo.col):
        col_min[c] = min(col_min.get(c, r), r)
    for r, c in zip(coo.row, coo.col):
        lab[r] = col_min[c]
    counts = np.bincount(coo.col, minlength=c_pt.shape[1])
    vals_ok = np.allclose(coo.data, 1.0 / np.sqrt(counts[coo.col]))
    one_per_row = len(set(coo.row)) == len(coo.row)
    return lab, c_pt, vals_ok and one_per_row


def coq_near(near):
    if near is None:
        return "None"
    return "(Some [" + "; ".join("[" + "; ".join("true" if x else "false" for x in row) + "]" for row in near) + "])"


def model_labels(cases, tag, rep="RepRowMin"):
    """cases: list of (tp, order, near|None, nbs list). Returns list of label arrays (or None on model error)."""
    exprs = []
    for tp, order, near, nbs in cases:
        N = tp.shape[1]
        exprs.append(f"match perm_labels {order}%nat {N}%nat ({natll(tp)}) {coq_near(near)} {rep} blocks_O{order} {zl(nbs)} "
                     f"with Ok l => l | Err _ => [(-7)] end")
    res = coq_eval(f"permcorr_{tag}", ["From SymfcV Require Import PyPrelude Tuples Concrete Cutoff Pipeline.", "From SymfcG Require Import Tables."], [], exprs,
                   timeout=1200)
    return [np.array(parse_ints(r), dtype=int) for r in res]


def model_labels_check(cases, impl_labels, tag, rep="RepRowMin"):
    """as model_labels, but the comparison with the implementation's label arrays is made inside Coq;
    returns for each case the number of differing positions (or -7 when the model raised, -9 on length mismatch)"""
    exprs = []
    for (tp, order, near, nbs), lab in zip(cases, impl_labels):
        N = tp.shape[1]
        exprs.append(f"match perm_labels {order}%nat {N}%nat ({natll(tp)}) {coq_near(near)} {rep} blocks_O{order} {zl(nbs)} with "
                     f"Ok l => (fix cnt (a b : list Z) : Z := match a, b with x :: a', y :: b' => (if Z.eqb x y then 0 else 1) + cnt a' b' | [], [] => 0 | _, _ => -9 end) l {zl(lab)} "
                     f"| Err _ => (-7) end")
    res = coq_eval(f"permchk_{tag}", ["From SymfcV Require Import PyPrelude Tuples Concrete Cutoff Pipeline.", "From SymfcG Require Import Tables."], [], exprs, timeout=2400)
    return [parse_ints(r)[0] for r in res]


def model_cls(cases, tag):
    exprs = []
    for tp, order in cases:
        N = tp.shape[1]
        exprs.append(f"(indep_list {N}%nat ({natll(tp)}), cls_table {order}%nat {N}%nat ({natll(tp)}), valid_tp {N}%nat ({natll(tp)}))")
    res = coq_eval(f"clscorr_{tag}", ["From SymfcV Require Import PyPrelude Tuples Concrete Pipeline."], [], exprs, timeout=900)
    out = []
    for r in res:
        valid = r.strip().endswith("true)")
        body = r[: r.rfind(",")]
        a, b = body.split("],", 1)
        out.append((parse_ints(a), parse_ints(b), valid))
    return out
