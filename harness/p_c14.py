"""C14 — permutations and rotations represent the group.  Coq: props/C14.v (matching modulo a common
denominator: uniqueness, homomorphism, free translations, normalisation; orbit sizes from valid_tp).
Correspondence: the permutations computed by the implementation against the exact matcher Spg.perm_of_op
(evaluated in Coq) on rational cells described in hostile ways; valid_tp evaluated in Coq on every
translation table returned.  Oracles: stable variant, composition table, orthogonality of L r L^-1."""
from __future__ import annotations

import numpy as np

from common import coq_eval, natll, parse_ints, try_coq
from gens import atoms_of
from spgcells import exact_cell, exact_perm, hostile_descriptions, op_numerators, symmetry_ops

UNITS = ["IndepGen", "ShapesSpg", "ShapesReps", "SkelSpg", "SkelIdx"]
PROPS = ["props/C14.v"]
EXTRA = ["theories/Spg.vo", "theories/Pipeline.vo"]
ASSUMPTIONS = ["spglib returns operations of the structure (each returned operation is re-validated by the exact matcher: an operation that maps some atom nowhere is reported)",
               "the float fast path (rounding, decimal search, sorting) is tied by correspondence only"]

CELLS = [("sc1", (2, 2, 1)), ("cscl", (1, 1, 1)), ("bcc_conv", (1, 1, 1)), ("fcc_conv", (1, 1, 1)), ("nacl_prim", (2, 1, 1)), ("si_prim", (1, 1, 1)),
         ("hcp", (1, 1, 1)), ("wurtzite", (1, 1, 1)), ("tet_bc", (1, 1, 2)), ("ortho_C", (1, 1, 1)), ("ortho_I", (1, 1, 1)), ("mono_P", (1, 1, 1)),
         ("mono_C", (1, 1, 1)), ("tri2_P1", (2, 1, 1)), ("tri2_Pm1", (1, 1, 1)), ("tri3_P1", (1, 1, 1)), ("rhombo2", (1, 1, 1)), ("hex1", (2, 2, 1)),
         ("sheared", (1, 1, 1)), ("needle", (1, 1, 1)), ("rutile_like", (1, 1, 1)), ("cscl", (3, 1, 1)), ("tri2_P1", (3, 1, 1))]   # thirds in the translations
CELLS_MORE = [("sc1", (2, 2, 2)), ("fcc_conv", (1, 1, 2)), ("si_prim", (2, 2, 1)), ("hcp", (2, 1, 1)), ("tri1", (3, 2, 1)), ("flat", (1, 1, 1)), ("skew_unreduced", (1, 1, 1)),
              ("wurtzite", (2, 1, 1)), ("ortho2", (2, 1, 1)), ("tet1", (2, 2, 1)), ("rhombo1", (2, 1, 1))]


def coq_mat(r):
    return "(" + ", ".join("(" + ", ".join(f"({int(x)})" for x in row) + ")" for row in r) + ")"


def coq_vec(v):
    return "(" + ", ".join(f"({int(x)})" for x in v) + ")"


def check(ctx):
    from symfc.spg_reps import SpgRepsBase, SpgRepsO2
    from symfc.utils.utils import compute_sg_permutations, compute_sg_permutations_stable

    rng = np.random.default_rng(ctx.seed)
    ctx.rule = ("rational G-cells (7 crystal systems, centred cells, supercells) x descriptions {ideal, integer wraps in [-2,2], +-1e-9 jitter, shuffled atom order} x operation sets "
                "{all spglib operations, pure translations only, proper rotations only}; every operation of every set is compared. Non-trivial: at least 2 operations")
    todo = CELLS + ([] if ctx.quick else CELLS_MORE)
    coq_cases = []
    variants_ = []
    for cname, diag in todo:
        ex = exact_cell(cname, diag)
        if ex is None:
            ctx.count("skipped-not-rational")
            continue
        variants_.append(ex)
        # the same structure given with few decimals (1/3 as 0.3333): still a rational description (denominator 10000); the
        # operations are whatever spglib finds for it
        r4 = np.round(np.asarray(ex[0]["positions"], float), 4)
        if np.abs(r4 - np.asarray(ex[0]["positions"], float)).max() > 1e-9:
            variants_.append(({**ex[0], "positions": r4, "name": ex[0]["name"] + "-4decimals"}, 10000, np.rint(r4 * 10000).astype(int)))
            ctx.count("few-decimals-variant")
    # left-handed descriptions (basis vectors a and b exchanged: det(cell) < 0): every third structure
    for ex in list(variants_)[::3]:
        sc_l = {**ex[0], "lattice": np.asarray(ex[0]["lattice"], float)[[1, 0, 2]], "positions": np.asarray(ex[0]["positions"], float)[:, [1, 0, 2]], "name": ex[0]["name"] + "-lefthanded"}
        if np.linalg.det(sc_l["lattice"]) < 0:
            variants_.append((sc_l, ex[1], np.asarray(ex[2])[:, [1, 0, 2]]))
            ctx.count("left-handed-variant")
    # the crystal turned by 180 degrees about b: basis vectors a and c negated (right-handed, but an axis-aligned cell no longer has a
    # positive diagonal: L r L^-1 differs from r by signs)
    sgn = np.array([-1, 1, -1])
    for ex in [v for v in variants_ if not v[0]["name"].endswith(("-lefthanded", "-4decimals"))][1::3]:
        sc_n = {**ex[0], "lattice": np.asarray(ex[0]["lattice"], float) * sgn[:, None], "positions": (np.asarray(ex[0]["positions"], float) * sgn) % 1.0, "name": ex[0]["name"] + "-a,c-negated"}
        variants_.append((sc_n, ex[1], (np.asarray(ex[2]) * sgn) % ex[1]))
        ctx.count("two-axes-negated-variant")
    for sc0, D, P0 in variants_:
        rots, trans = symmetry_ops(sc0)
        descrs = [("ideal", sc0, np.arange(len(sc0["numbers"])))] + hostile_descriptions(sc0, rng)
        for dname, sc, perm in descrs[: (2 if ctx.quick else 4)] if dname_filter(ctx) else descrs:
            P = P0[perm]
            nums = np.asarray(sc0["numbers"])[perm]
            N = len(nums)
            subsets = {"all": np.arange(len(rots))}
            subsets["translations"] = np.array([i for i in range(len(rots)) if (rots[i] == np.eye(3, dtype=int)).all()])
            proper = np.array([i for i in range(len(rots)) if round(np.linalg.det(rots[i])) == 1])
            if 0 < len(proper) < len(rots):
                subsets["proper"] = proper
            # the operations as a caller would type them in: translations with six decimals (1/3 as 0.333333, error 3e-7 < symprec);
            # the permutation of each operation must still be the one of the exact operation
            if np.abs(np.round(trans, 6) - trans).max() > 1e-9:
                subsets["all-6decimals"] = np.arange(len(rots))
            for sname, idx in subsets.items():
                r_sub, t_sub = rots[idx], trans[idx]
                t_exact = t_sub
                if sname == "all-6decimals":
                    t_sub = np.round(t_sub, 6)
                at = atoms_of(sc)
                try:
                    reps = SpgRepsO2(at, spacegroup_operations={"rotations": r_sub, "translations": t_sub} if sname != "all" or dname != "ideal" else None)
                except Exception as e:  # noqa: BLE001
                    ctx.fail("oracle", "C14/oracle/raised", f"{sc['name']}/{dname}/{sname}: SpgReps raised {type(e).__name__}: {e}",
                             replay={"cell": sc["name"], "description": dname, "subset": sname, "positions": sc["positions"].tolist(), "lattice": sc["lattice"].tolist()}, has_input=True)
                    continue
                if sname == "all" and dname == "ideal":
                    # spglib path: operations found by the implementation itself; re-derive them for the comparison
                    r_use, t_use = reps._get_symops(None)
                    r_use, t_use = np.array(r_use), np.array(t_use)
                else:
                    r_use, t_use = r_sub, t_exact
                perms = np.asarray(reps._permutations)
                ctx.case({"cell": sc["name"], "description": dname, "ops": sname, "n_ops": int(len(r_use)), "N": int(N)}, nontrivial=len(r_use) >= 2)
                ctx.count("desc:" + dname)
                ctx.count("ops:" + sname)
                rep = {"cell": sc["name"], "description": dname, "subset": sname, "D": int(D), "numerators": P.tolist(), "numbers": nums.tolist(),
                       "positions": sc["positions"].tolist(), "lattice": sc["lattice"].tolist()}
                # --- exact reference (Python mirror; the Coq evaluation of the same definition follows)
                bad_ops = 0
                for k in range(len(r_use)):
                    s = op_numerators(t_use[k], D)
                    if s is None:
                        ctx.count("skipped-op-irrational-translation")
                        continue
                    ref = exact_perm(P, D, nums, r_use[k], s)
                    if (ref < 0).any():
                        ctx.count("skipped-op-not-a-symmetry")
                        continue
                    if not np.array_equal(ref, perms[k]):
                        bad_ops += 1
                        if bad_ops == 1:
                            ctx.fail("oracle", "C14/oracle/permutation", f"{sc['name']}/{dname}/{sname}: operation {k} (r={r_use[k].tolist()}, t={t_use[k].tolist()}): implementation permutation {perms[k].tolist()} != exact matcher {ref.tolist()}",
                                     replay={**rep, "op": k, "r": r_use[k].tolist(), "t": t_use[k].tolist(), "impl": perms[k].tolist(), "exact": ref.tolist()}, has_input=True)
                    if len(coq_cases) < (60 if ctx.quick else 400) and k % 3 == 0:
                        coq_cases.append((D, P, nums, r_use[k], s, perms[k], rep, k))
                # --- stable variant
                st = compute_sg_permutations_stable(np.asarray(sc["positions"], float), r_use, t_sub if sname == "all-6decimals" else t_use, np.asarray(sc["lattice"], float).T, 1e-5)
                if not np.array_equal(st, perms):
                    ctx.fail("oracle", "C14/oracle/stable", f"{sc['name']}/{dname}/{sname}: compute_sg_permutations differs from compute_sg_permutations_stable", replay=rep, has_input=True)
                # --- group structure of the returned permutations
                tp = np.asarray(reps.translation_permutations)
                n_lp = tp.shape[0]
                if N % n_lp or not (tp[0] == np.arange(N)).all():
                    ctx.fail("oracle", "C14/oracle/translations", f"{sc['name']}/{dname}/{sname}: translation table malformed", replay=rep, has_input=True)
                orb = np.sort(tp, axis=0)
                if any(len(set(tp[:, i].tolist())) != n_lp for i in range(N)):
                    ctx.fail("oracle", "C14/oracle/free", f"{sc['name']}/{dname}/{sname}: an orbit of the translations has fewer than n_lp members", replay=rep, has_input=True)
                if sorted(set(tp.min(axis=0).tolist())) != list(map(int, reps.p2s_map)):
                    ctx.fail("oracle", "C14/oracle/p2s", f"{sc['name']}/{dname}/{sname}: p2s_map {list(reps.p2s_map)} is not the list of orbit minima", replay=rep, has_input=True)
                ctx.tables = getattr(ctx, "tables", [])
                if len(ctx.tables) < (40 if ctx.quick else 200):
                    ctx.tables.append((tp, rep))
                # composition: sigma_(g h) = sigma_g o sigma_h for random pairs
                L = np.asarray(sc["lattice"], float)
                for _ in range(6 if ctx.quick else 30):
                    a, b = rng.integers(len(r_use), size=2)
                    rg = r_use[a] @ r_use[b]
                    tg = r_use[a] @ t_use[b] + t_use[a]
                    hit = [k for k in range(len(r_use)) if (r_use[k] == rg).all() and np.abs((t_use[k] - tg) - np.rint(t_use[k] - tg)).max() < 1e-4]
                    if not hit:
                        continue  # subset not closed (not a subgroup): nothing to compare
                    if not np.array_equal(perms[hit[0]], perms[a][perms[b]]):
                        ctx.fail("oracle", "C14/oracle/homomorphism", f"{sc['name']}/{dname}/{sname}: sigma(g h) != sigma(g) o sigma(h) for operations {a},{b}", replay={**rep, "a": int(a), "b": int(b)}, has_input=True)
                # rotations: orthogonal L r L^-1 and kron structure
                for i, ui in enumerate(reps.unique_rotation_indices):
                    rc = L.T @ r_use[ui] @ np.linalg.inv(L.T)
                    if np.abs(rc @ rc.T - np.eye(3)).max() > 1e-8:
                        ctx.fail("oracle", "C14/oracle/orthogonal", f"{sc['name']}: L r L^-1 not orthogonal for operation {ui}", replay=rep, has_input=True)
                    k2 = np.kron(rc, rc)
                    if np.abs(reps.r_reps[i].toarray() - np.where(np.abs(k2) > 1e-10, k2, 0)).max() > 1e-12:
                        ctx.fail("oracle", "C14/oracle/r_reps", f"{sc['name']}: r_reps[{i}] is not kron(R, R) with R = L r L^-1", replay=rep, has_input=True)
                # the same for the first-, third- and fourth-order representation classes (R, R x R x R, R x R x R x R),
                # and the first-order atom-permutation matrices
                from symfc.spg_reps import SpgRepsO1, SpgRepsO3, SpgRepsO4
                given = {"rotations": r_sub, "translations": t_sub} if sname != "all" or dname != "ideal" else None
                for cls, kk in ((SpgRepsO1, 1), (SpgRepsO3, 3), (SpgRepsO4, 4)):
                    if kk >= 3 and (N > 4 or (ctx.quick and dname != "ideal")):
                        continue
                    try:
                        rk = cls(at, spacegroup_operations=given)
                    except Exception as e:  # noqa: BLE001
                        ctx.fail("oracle", "C14/oracle/raised", f"{sc['name']}/{dname}/{sname}: {cls.__name__} raised {type(e).__name__}: {e}", replay=rep, has_input=True)
                        continue
                    ctx.count(f"r_reps-order{kk}")
                    if not np.array_equal(np.asarray(rk._permutations), perms) or list(rk.unique_rotation_indices) != list(reps.unique_rotation_indices):
                        ctx.fail("oracle", f"C14/oracle/permutation/O{kk}", f"{sc['name']}/{dname}/{sname}: {cls.__name__} holds other permutations / unique rotations than SpgRepsO2", replay=rep, has_input=True)
                        continue
                    for i, ui in enumerate(rk.unique_rotation_indices):
                        rc = L.T @ r_use[ui] @ np.linalg.inv(L.T)
                        kr = rc
                        for _ in range(kk - 1):
                            kr = np.kron(rc, kr)
                        got = rk.r_reps[i].toarray()
                        if got.shape != kr.shape or np.abs(got - np.where(np.abs(kr) > 1e-10, kr, 0)).max() > 1e-12:
                            ctx.fail("oracle", f"C14/oracle/r_reps/O{kk}", f"{sc['name']}/{dname}/{sname}: {cls.__name__}.r_reps[{i}] is not the {kk}-fold Kronecker power of R = L r L^-1 (operation {ui})", replay={**rep, "op": int(ui)}, has_input=True)
                            break
                    if kk == 1 and N <= 6:
                        # the matrix-representation variant of order 2: sigma2 = permutation matrix of atom pairs, r_reps = R x R
                        from symfc.spg_reps.spg_reps_O2 import SpgRepsO2MatrixReps
                        try:
                            rm = SpgRepsO2MatrixReps(at, spacegroup_operations=given)
                            for i, ui in enumerate(rm.unique_rotation_indices):
                                S2 = rm.get_sigma2_rep(i).toarray()
                                Pm = np.zeros((N, N))
                                Pm[perms[ui], np.arange(N)] = 1
                                rc = L.T @ r_use[ui] @ np.linalg.inv(L.T)
                                k2 = np.kron(rc, rc)
                                if not np.array_equal(S2, np.kron(Pm, Pm)) or np.abs(rm.r_reps[i].toarray() - np.where(np.abs(k2) > 1e-10, k2, 0)).max() > 1e-12:
                                    ctx.fail("oracle", "C14/oracle/matrix-reps/O2", f"{sc['name']}/{dname}/{sname}: SpgRepsO2MatrixReps: sigma2 / r_reps of operation {ui} are not P x P / R x R", replay={**rep, "op": int(ui)}, has_input=True)
                                    break
                        except Exception as e:  # noqa: BLE001
                            ctx.fail("oracle", "C14/oracle/raised", f"{sc['name']}/{dname}/{sname}: SpgRepsO2MatrixReps raised {type(e).__name__}: {e}", replay=rep, has_input=True)
                    if kk == 1:
                        for i, ui in enumerate(rk.unique_rotation_indices):
                            S = rk.get_sigma1_rep(i).toarray()
                            E = np.zeros((N, N))
                            E[perms[ui], np.arange(N)] = 1
                            if not np.array_equal(S, E):
                                ctx.fail("oracle", "C14/oracle/sigma/O1", f"{sc['name']}/{dname}/{sname}: get_sigma1_rep({i}) is not the permutation matrix of operation {ui}", replay={**rep, "op": int(ui)}, has_input=True)
                                break

    # ---- the same definitions evaluated in Coq
    def corr():
        for s0 in range(0, len(coq_cases), 40):
            chunk = coq_cases[s0:s0 + 40]
            exprs = []
            for (D, P, nums, r, s, impl, rep, k) in chunk:
                pos = "[" + "; ".join(coq_vec(p) for p in P) + "]"
                nm = "[" + "; ".join(str(int(z)) for z in nums) + "]%nat"
                exprs.append(f"perm_of_op {int(D)} {pos} {nm} ({coq_mat(r)}, {coq_vec(s)})")
            res = coq_eval(f"c14_perm_{ctx.tier}_{s0}", ["From SymfcV Require Import Spg."], [], exprs)
            for (D, P, nums, r, s, impl, rep, k), rr in zip(chunk, res):
                m = parse_ints(rr)
                ctx.traces += 1
                if m != [int(x) for x in impl]:
                    ctx.fail("correspondence", "C14/corr/perm_of_op", f"{rep['cell']}/{rep['description']}/{rep['subset']} operation {k}: implementation {list(map(int, impl))} vs Spg.perm_of_op {m}",
                             replay={**rep, "op": k, "r": r.tolist(), "s": s.tolist()}, has_input=True)
        tabs = getattr(ctx, "tables", [])
        for s0 in range(0, len(tabs), 40):
            chunk = tabs[s0:s0 + 40]
            exprs = [f"valid_tp {tp.shape[1]}%nat ({natll(tp)})" for tp, _ in chunk]
            res = coq_eval(f"c14_valid_{ctx.tier}_{s0}", ["From SymfcV Require Import Concrete."], [], exprs)
            for (tp, rep), rr in zip(chunk, res):
                ctx.traces += 1
                if rr.strip() != "true":
                    ctx.fail("correspondence", "C14/corr/valid_tp", f"{rep['cell']}/{rep['description']}/{rep['subset']}: the translation table returned by the implementation does not satisfy valid_tp",
                             replay={**rep, "trans_perms": tp.tolist()}, has_input=True)
    try_coq(ctx, "C14/corr/model", corr)


def dname_filter(ctx):
    return False
