"""Admissible force-constant tensors from a physical model, for supercells far beyond the reach of a dense reference.

Energy E = 1/2 sum_{i != j or T != 0} phi_{Z_i Z_j}(|x_j + T - x_i|) over all periodic images within rc, with the smooth compactly
supported phi(r) = A (1 - r^2/rc^2)^m.  Its n-th derivatives at the given positions are tensors that are index-permutation
symmetric, invariant under the space group of the crystal and obey the translational sum rule (E is invariant under rigid
translations): they must lie in the span of the basis (C04), whatever the size of the supercell."""
from __future__ import annotations

import itertools

import numpy as np


def _derivs(d, rc, m, A):
    """f1..f4 of the radial expansion in powers of the Cartesian difference vector d (psi(s) = A (1 - s/rc^2)^m, s = |d|^2)"""
    s = float(d @ d)
    t = 1.0 - s / rc ** 2
    k = -1.0 / rc ** 2
    p1 = A * m * t ** (m - 1) * k
    p2 = A * m * (m - 1) * t ** (m - 2) * k ** 2
    p3 = A * m * (m - 1) * (m - 2) * t ** (m - 3) * k ** 3
    p4 = A * m * (m - 1) * (m - 2) * (m - 3) * t ** (m - 4) * k ** 4
    return 2 * p1, 4 * p2, 8 * p3, 16 * p4


def pair_tensor(order, lattice, frac_positions, numbers, rc=None, m=8):
    """dense tensor of shape (N,)*order + (3,)*order"""
    L = np.asarray(lattice, float)
    X = np.asarray(frac_positions, float) @ L
    N = len(X)
    if rc is None:
        rc = 0.9 * min(np.linalg.norm(L[0]), np.linalg.norm(L[1]), np.linalg.norm(L[2]), 7.0) + 1.5
    out = np.zeros((N,) * order + (3,) * order)
    eye = np.eye(3)
    reach = [int(np.ceil(rc * np.linalg.norm(np.linalg.inv(L)[:, k]))) + 1 for k in range(3)]
    images = [np.array(t) @ L for t in itertools.product(*[range(-r, r + 1) for r in reach])]
    for i in range(N):
        for j in range(N):
            A = 1.0 + 0.1 * ((int(numbers[i]) * int(numbers[j])) % 7)
            for T in images:
                if i == j and not T.any():
                    continue
                d = X[j] + T - X[i]
                if d @ d >= rc * rc or i == j:
                    continue          # i == j: both ends move together, no dependence on the displacement
                f1, f2, f3, f4 = _derivs(d, rc, m, 0.5 * A)      # 1/2: every ordered pair is visited
                if order == 2:
                    D = f1 * eye + f2 * np.outer(d, d)
                elif order == 3:
                    D = (f2 * (np.einsum("ab,c->abc", eye, d) + np.einsum("ac,b->abc", eye, d) + np.einsum("bc,a->abc", eye, d))
                         + f3 * np.einsum("a,b,c->abc", d, d, d))
                else:
                    D = (f2 * (np.einsum("ab,cd->abcd", eye, eye) + np.einsum("ac,bd->abcd", eye, eye) + np.einsum("ad,bc->abcd", eye, eye))
                         + f3 * (np.einsum("ab,c,d->abcd", eye, d, d) + np.einsum("ac,b,d->abcd", eye, d, d) + np.einsum("bc,a,d->abcd", eye, d, d)
                                 + np.einsum("ad,b,c->abcd", eye, d, d) + np.einsum("bd,a,c->abcd", eye, d, d) + np.einsum("cd,a,b->abcd", eye, d, d))
                         + f4 * np.einsum("a,b,c,d->abcd", d, d, d, d))
                for slots in itertools.product((0, 1), repeat=order):       # 0: atom i (sign -1), 1: atom j (sign +1)
                    sign = (-1.0) ** (order - sum(slots))
                    idx = tuple(j if s_ else i for s_ in slots)
                    out[idx] += sign * D
    return out
