"""Input generators: crystals (G-cells), translation tables (G-tables), datasets (G-data).
Every random choice comes from the numpy Generator passed in."""
from __future__ import annotations

import itertools

import numpy as np

from symfc.utils.utils import SymfcAtoms


# ----------------------------------------------------------------------------- cells
def _cell(name, lattice, positions, numbers):
    return {"name": name, "lattice": np.array(lattice, float), "positions": np.array(positions, float) % 1.0,
            "numbers": list(numbers)}


def lattice_from_params(a, b, c, al, be, ga):
    al, be, ga = np.radians([al, be, ga])
    ax = [a, 0, 0]
    bx = [b * np.cos(ga), b * np.sin(ga), 0]
    cx = c * np.cos(be)
    cy = c * (np.cos(al) - np.cos(be) * np.cos(ga)) / np.sin(ga)
    cz = np.sqrt(max(c * c - cx * cx - cy * cy, 1e-12))
    return np.array([ax, bx, [cx, cy, cz]])


def base_cells():
    s3 = np.sqrt(3)
    cells = [
        _cell("sc1", np.eye(3) * 3.0, [[0, 0, 0]], [29]),
        _cell("cscl", np.eye(3) * 4.1, [[0, 0, 0], [0.5, 0.5, 0.5]], [55, 17]),
        _cell("bcc_conv", np.eye(3) * 3.2, [[0, 0, 0], [0.5, 0.5, 0.5]], [26, 26]),
        _cell("fcc_conv", np.eye(3) * 4.0, [[0, 0, 0], [0, 0.5, 0.5], [0.5, 0, 0.5], [0.5, 0.5, 0]], [13] * 4),
        _cell("fcc_prim", np.array([[0, 2, 2], [2, 0, 2], [2, 2, 0]], float), [[0, 0, 0]], [13]),
        _cell("nacl_prim", np.array([[0, 2.8, 2.8], [2.8, 0, 2.8], [2.8, 2.8, 0]]), [[0, 0, 0], [0.5, 0.5, 0.5]], [11, 17]),
        _cell("si_prim", np.array([[0, 2.7, 2.7], [2.7, 0, 2.7], [2.7, 2.7, 0]]), [[0, 0, 0], [0.25, 0.25, 0.25]], [14, 14]),
        _cell("hcp", [[3.2, 0, 0], [-1.6, 1.6 * s3, 0], [0, 0, 5.2]], [[1 / 3, 2 / 3, 0.25], [2 / 3, 1 / 3, 0.75]], [12, 12]),
        _cell("wurtzite", [[3.2, 0, 0], [-1.6, 1.6 * s3, 0], [0, 0, 5.2]],
              [[1 / 3, 2 / 3, 0.0], [2 / 3, 1 / 3, 0.5], [1 / 3, 2 / 3, 0.375], [2 / 3, 1 / 3, 0.875]], [31, 31, 7, 7]),
        _cell("tet1", np.diag([3.0, 3.0, 4.1]), [[0, 0, 0]], [50]),
        _cell("tet_bc", np.diag([3.3, 3.3, 5.0]), [[0, 0, 0], [0.5, 0.5, 0.5]], [49, 49]),
        _cell("rutile_like", np.diag([4.6, 4.6, 3.0]), [[0, 0, 0], [0.5, 0.5, 0.5], [0.3, 0.3, 0], [0.7, 0.7, 0], [0.2, 0.8, 0.5], [0.8, 0.2, 0.5]], [22, 22, 8, 8, 8, 8]),
        _cell("ortho1", np.diag([3.0, 3.7, 4.4]), [[0, 0, 0]], [30]),
        _cell("ortho2", np.diag([3.0, 3.7, 4.4]), [[0, 0, 0], [0.5, 0.5, 0.31]], [30, 8]),
        _cell("ortho_C", np.diag([3.1, 4.9, 4.0]), [[0, 0, 0.1], [0.5, 0.5, 0.1]], [6, 6]),
        _cell("ortho_I", np.diag([3.1, 3.9, 4.6]), [[0, 0, 0], [0.5, 0.5, 0.5]], [47, 47]),
        _cell("mono_P", lattice_from_params(3.4, 4.1, 4.9, 90, 103, 90), [[0.1, 0.25, 0.2], [0.9, 0.75, 0.8]], [16, 16]),
        _cell("mono_C", lattice_from_params(5.1, 3.3, 4.2, 90, 99, 90), [[0, 0.1, 0], [0.5, 0.6, 0]], [34, 34]),
        _cell("tri1", lattice_from_params(3.1, 3.6, 4.2, 77, 83, 101), [[0, 0, 0]], [5]),
        _cell("tri2_P1", lattice_from_params(3.3, 3.9, 4.4, 74, 85, 97), [[0.05, 0.1, 0.02], [0.43, 0.61, 0.52]], [5, 7]),
        _cell("tri2_Pm1", lattice_from_params(3.3, 3.9, 4.4, 74, 85, 97), [[0.2, 0.3, 0.1], [0.8, 0.7, 0.9]], [7, 7]),
        _cell("tri3_P1", lattice_from_params(3.6, 4.0, 4.7, 81, 72, 95), [[0.0, 0.1, 0.0], [0.4, 0.5, 0.3], [0.7, 0.2, 0.8]], [5, 7, 8]),
        _cell("rhombo1", lattice_from_params(3.4, 3.4, 3.4, 70, 70, 70), [[0, 0, 0]], [83]),
        _cell("rhombo2", lattice_from_params(3.8, 3.8, 3.8, 57, 57, 57), [[0.1, 0.1, 0.1], [0.9, 0.9, 0.9]], [33, 33]),
        _cell("hex1", [[3.0, 0, 0], [-1.5, 1.5 * s3, 0], [0, 0, 4.3]], [[0, 0, 0]], [4]),
        # hostile shapes
        _cell("sheared", np.array([[3.0, 0, 0], [2.7, 3.1, 0], [2.5, 2.9, 3.3]]), [[0, 0, 0], [0.37, 0.21, 0.55]], [5, 7]),
        _cell("needle", np.array([[2.6, 0, 0], [0.3, 2.9, 0], [0.2, 0.4, 11.5]]), [[0, 0, 0], [0.5, 0.4, 0.31]], [5, 7]),
        _cell("flat", np.array([[7.9, 0, 0], [3.1, 8.3, 0], [0.4, 0.2, 2.5]]), [[0, 0, 0], [0.35, 0.62, 0.4]], [5, 7]),
        _cell("skew_unreduced", np.array([[3.0, 0, 0], [9.1, 3.2, 0], [6.2, 6.6, 3.4]]), [[0, 0, 0], [0.45, 0.3, 0.6]], [5, 5]),
        # all three angles obtuse: a+b+c is a short body diagonal, interatomic distances exceed half of it
        # cyclic point groups 4 and 3 with atoms off the axis (sigma(g) is not symmetric: g and g^-1 act differently)
        _cell("p4_general", np.diag([4.0, 4.0, 5.1]), [[0.13, 0.27, 0.1], [-0.27, 0.13, 0.1], [-0.13, -0.27, 0.1], [0.27, -0.13, 0.1], [0, 0, 0.5]], [5, 5, 5, 5, 7]),
        _cell("p3_general", [[4.2, 0, 0], [-2.1, 2.1 * s3, 0], [0, 0, 5.0]], [[0.12, 0.31, 0.07], [-0.31, -0.19, 0.07], [0.19, -0.12, 0.07], [0, 0, 0.4]], [5, 5, 5, 7]),
        # a bonded group plus a distant guest atom on a site without inversion symmetry: a small cutoff leaves the guest with no
        # partner (its sum rule then constrains the on-site element alone)
        _cell("guest", np.diag([5.0, 5.6, 6.4]), [[0.1, 0.1, 0.1], [0.32, 0.15, 0.12], [0.12, 0.38, 0.2], [0.6, 0.62, 0.65]], [8, 1, 1, 2]),
        _cell("tri2_obtuse", lattice_from_params(3.3, 3.8, 4.4, 108, 104, 112), [[0.04, 0.1, 0.02], [0.47, 0.58, 0.55]], [5, 7]),
    ]
    return {c["name"]: c for c in cells}


def make_supercell(cell, diag=(1, 1, 1), rng=None, shuffle=False, shift=None, wrap=None, unimodular=None):
    """Return dict(lattice, positions, numbers) of a diag supercell, optionally hostile-described."""
    d = np.array(diag)
    lat = cell["lattice"] * d[:, None]
    pos, nums = [], []
    for p, z in zip(cell["positions"], cell["numbers"]):
        for t in itertools.product(range(d[0]), range(d[1]), range(d[2])):
            pos.append((p + np.array(t)) / d)
            nums.append(z)
    pos = np.array(pos)
    nums = np.array(nums)
    if shift is not None:
        pos = pos + np.array(shift)
    if wrap is not None:
        pos = pos + np.array(wrap)
    if unimodular is not None:
        U = np.array(unimodular)
        # new lattice rows = U @ old rows ; fractional coords transform with inverse transpose
        lat = U @ lat
        pos = pos @ np.linalg.inv(U)
    if shuffle and rng is not None:
        perm = rng.permutation(len(nums))
        pos, nums = pos[perm], nums[perm]
    return {"lattice": lat, "positions": pos, "numbers": nums, "name": f"{cell['name']}-{'x'.join(map(str, diag))}"
            + ("-shuf" if shuffle else "") + ("-shift" if shift is not None else "") + ("-wrap" if wrap is not None else "")
            + ("-uni" if unimodular is not None else "")}


def atoms_of(sc) -> SymfcAtoms:
    return SymfcAtoms(numbers=sc["numbers"], scaled_positions=sc["positions"], cell=sc["lattice"])


def small_supercells(max_atoms, rng, names=None, diags=None, with_shuffle=True):
    """Enumerate supercells with at most max_atoms atoms."""
    cells = base_cells()
    if diags is None:
        diags = [(1, 1, 1), (2, 1, 1), (1, 2, 1), (1, 1, 2), (2, 2, 1), (2, 1, 2), (1, 2, 2), (2, 2, 2), (3, 1, 1), (1, 1, 3), (4, 1, 1), (3, 2, 1)]
    out = []
    for name, c in cells.items():
        if names is not None and name not in names:
            continue
        for d in diags:
            n = len(c["numbers"]) * int(np.prod(d))
            if n > max_atoms:
                continue
            out.append(make_supercell(c, d))
            if with_shuffle and n > 1:
                out.append(make_supercell(c, d, rng=rng, shuffle=True))
    return out


# ----------------------------------------------------------------------------- translation tables
def abelian_table(dims, n_a, rng=None, relabel=True, shuffle_rows=True):
    """trans_perms of Z_d1 x Z_d2 x ... acting freely on n_a orbits; identity first."""
    pts = list(itertools.product(*[range(d) for d in dims]))
    n_lp = len(pts)
    N = n_lp * n_a
    idx = {(o, p): o * n_lp + i for o in range(n_a) for i, p in enumerate(pts)}
    rows = []
    for t in pts:
        row = np.zeros(N, dtype=int)
        for o in range(n_a):
            for p in pts:
                q = tuple((a + b) % d for a, b, d in zip(p, t, dims))
                row[idx[(o, p)]] = idx[(o, q)]
        rows.append(row)
    rows = np.array(rows)
    if rng is not None and relabel:
        lab = rng.permutation(N)  # new label of old atom
        new = np.zeros_like(rows)
        for r in range(n_lp):
            new[r, lab] = lab[rows[r]]
        rows = new
    if rng is not None and shuffle_rows and n_lp > 2:
        order = [0] + list(1 + rng.permutation(n_lp - 1))
        rows = rows[order]
    return rows


def all_group_shapes(max_nlp):
    shapes = [()]
    for n in range(2, max_nlp + 1):
        # factorizations into <= 3 factors >= 2, non-increasing
        def facs(n, maxf, k):
            if n == 1:
                yield ()
                return
            if k == 0:
                return
            for f in range(min(n, maxf), 1, -1):
                if n % f == 0:
                    for rest in facs(n // f, f, k - 1):
                        yield (f,) + rest
        shapes.extend(facs(n, n, 3))
    return shapes


def tables(max_N, rng, max_nlp=8):
    out = []
    for dims in all_group_shapes(max_nlp):
        n_lp = int(np.prod(dims)) if dims else 1
        for n_a in (1, 2, 3):
            if n_lp * n_a > max_N:
                continue
            d = dims if dims else (1,)
            out.append(("x".join(map(str, d)) + f"_na{n_a}", abelian_table(d, n_a, rng=rng)))
    return out


# ----------------------------------------------------------------------------- datasets
def random_dataset(rng, n_snap, natom, amp=0.03):
    d = rng.normal(size=(n_snap, natom, 3)) * amp
    f = rng.normal(size=(n_snap, natom, 3))
    return d, f


def reordered(sc):
    """the same supercell with two atom labels exchanged such that the translation table changes (a 'twin': same numbers of
    atoms and lattice points, same geometry); swaps that keep the list of orbit minima (independent atoms) are preferred,
    so that the twin also agrees with its sibling in that respect"""
    import itertools as _it
    import numpy as _np
    from symfc.spg_reps import SpgRepsO2
    tp0 = _np.asarray(SpgRepsO2(atoms_of(sc)).translation_permutations)
    N0 = len(sc["numbers"])
    fallback = None
    for a_, b_ in _it.combinations(range(N0), 2):
        perm = _np.arange(N0)
        perm[[a_, b_]] = perm[[b_, a_]]
        sc2 = dict(sc)
        sc2["positions"] = _np.asarray(sc["positions"])[perm]
        sc2["numbers"] = _np.asarray(sc["numbers"])[perm]
        sc2["name"] = sc["name"] + f"-swap{a_}{b_}"
        tp2 = _np.asarray(SpgRepsO2(atoms_of(sc2)).translation_permutations)
        if sorted(map(tuple, tp2.tolist())) != sorted(map(tuple, tp0.tolist())):
            if sorted(set(tp2.min(axis=0).tolist())) == sorted(set(tp0.min(axis=0).tolist())):
                return sc2
            fallback = fallback or sc2
    return fallback or sc
