"""Spot checks on supercells beyond the reach of the exhaustive oracles (36-64 atoms quick, up to 216 thorough): a random
combination of ALL expanded basis vectors (so every column takes part) is tested for the property of the calling check --
index-permutation symmetry (C01), invariance under space-group operations incl. pure translations (C02), the sum rule (C03).
Complements the pair-model span oracle of C04 (which finds missing degrees of freedom) by finding inadmissible ones on both
sides of the size-dependent code paths."""
from __future__ import annotations

import numpy as np

from gens import atoms_of, base_cells, make_supercell
from reference import atom_perm_by_matching
from tensors import apply_op, perm_asym, sum_rule_residual

CELLS_QUICK = [("bcc_conv", (3, 3, 2), 3, False), ("sc1", (4, 4, 4), 2, False), ("hcp", (3, 3, 1), 3, True)]
CELLS_MORE = [("sc1", (6, 6, 6), 2, False), ("nacl_prim", (3, 3, 2), 3, True), ("fcc_conv", (2, 2, 2), 3, False), ("wurtzite", (3, 3, 1), 3, True), ("mono_P", (3, 3, 2), 3, True)]


def check_bigcells(ctx, prop, rng):
    import spglib
    from symfc import Symfc

    for cname, diag, order, shuffle in CELLS_QUICK + ([] if ctx.quick else CELLS_MORE):
        sc = make_supercell(base_cells()[cname], diag, rng=rng, shuffle=shuffle)
        N = len(sc["numbers"])
        b = Symfc(atoms_of(sc)).compute_basis_set(orders=[order]).basis_set[order]
        B = np.asarray(b.basis_set)
        if B.shape[1] == 0:
            continue
        v = np.asarray(b.compression_matrix @ (B @ rng.normal(size=B.shape[1]))).reshape((N,) * order + (3,) * order)
        ctx.case({"big_cell": sc["name"], "order": order, "N": N, "n_basis": int(B.shape[1])}, nontrivial=True)
        ctx.count("big-cell")
        rep = {"cell": sc["name"], "lattice": np.asarray(sc["lattice"]).tolist(), "positions": np.asarray(sc["positions"]).tolist(), "numbers": [int(z) for z in sc["numbers"]], "order": order}
        scale = float(np.abs(v).max())
        if prop == "C01":
            a, pi = perm_asym(v, order)
            if a > 1e-9:
                ctx.fail("oracle", f"C01/oracle/big-cell/order{order}", f"{sc['name']} (N={N}) order {order}: a combination of the expanded basis vectors is not index-permutation symmetric ({a:.2e})", replay=rep, has_input=True)
        elif prop == "C03":
            r, k = sum_rule_residual(v, order)
            if r > 1e-9:
                ctx.fail("oracle", f"C03/oracle/big-cell/order{order}", f"{sc['name']} (N={N}) order {order}: a combination of the expanded basis vectors violates the sum rule over index {k} ({r:.2e})", replay=rep, has_input=True)
        elif prop == "C02":
            L = np.asarray(sc["lattice"], float)
            ops = spglib.get_symmetry((sc["lattice"], sc["positions"], sc["numbers"]))
            rots, trans = np.asarray(ops["rotations"]), np.asarray(ops["translations"])
            pure = [i for i in range(len(rots)) if (rots[i] == np.eye(3, dtype=int)).all() and np.abs(trans[i]).max() > 1e-9]
            pick = list(rng.choice(len(rots), size=min(5, len(rots)), replace=False)) + (list(rng.choice(pure, size=min(2, len(pure)), replace=False)) if pure else [])
            worst = 0.0
            for i in pick:
                perm = atom_perm_by_matching(L, sc["positions"], sc["numbers"], rots[i], trans[i])
                R = L.T @ rots[i] @ np.linalg.inv(L.T)
                worst = max(worst, float(np.abs(apply_op(v, order, perm, R) - v).max() / scale))
            if worst > 1e-9:
                ctx.fail("oracle", f"C02/oracle/big-cell/order{order}", f"{sc['name']} (N={N}) order {order}: a combination of the expanded basis vectors is not invariant under the space group ({worst:.2e})", replay=rep, has_input=True)
