"""C08 — compact vs full.  Coq: props/C08.v (class code of a tuple with independent first atom; canonical
translate; one lowest-index independent atom per orbit).  Correspondence: class tables (shared with C01)
and the element-level decompression indices used by C_trans.  Oracle: compact == full[p2s_map] and
full reconstructed from compact by translations, all solver combinations."""
from __future__ import annotations

import itertools

import numpy as np

from common import try_coq
from gens import tables
from permcorr import model_cls
from solvers import COMBOS, Prepared, solver_cells

UNITS = ["SolverStruct", "IndepGen", "ShapesBasis", "ShapesReps", "SkelSpg", "SkelBasis", "SkelIdx", "ShapesApi", "SkelApi", "ShapesSolvers", "SkelSolvers", "Tables", "ShapesCombos", "ShapesPerm", "ShapesCoset", "ShapesSumRule", "ShapesSpg", "ShapesO1", "ShapesAuxO1", "ShapesAuxEig", "ShapesAuxBatch", "EigStruct", "CutoffGen", "ShapesGeom", "ShapesAuxCut", "SkelEig", "SkelMat", "SkelPerm", "SkelCut"]
PROPS = ["props/C08.v"]
EXTRA = ["theories/Pipeline.vo"]
ASSUMPTIONS = ["floating point: the factor 1/sqrt(n_lp) is applied once in the compact matrix and once in C_trans; equality of values is checked to 1e-10 relative"]


def check(ctx):
    import symfc.utils.utils_O2 as u2
    import symfc.utils.utils_O3 as u3
    import symfc.utils.utils_O4 as u4
    from symfc.utils.utils import get_indep_atoms_by_lat_trans

    rng = np.random.default_rng(ctx.seed)
    ctx.rule = ("G-tables (all translation groups with n_lp<=8, n_a<=3, N<=6 quick/8) for class tables and p2s; cells with n_lp in {1,2,4}, shuffled atom order, "
                "six solver combinations, random data; non-trivial: n_lp >= 2")
    # ---- correspondence: class tables and element-level indices
    tabs = tables(6 if ctx.quick else 8, rng)
    fns = {2: (u2._get_atomic_lat_trans_decompr_indices, u2.get_lat_trans_decompr_indices),
           3: (u3.get_atomic_lat_trans_decompr_indices_O3, u3.get_lat_trans_decompr_indices_O3),
           4: (u4.get_atomic_lat_trans_decompr_indices_O4, u4.get_lat_trans_decompr_indices_O4)}
    cases = []
    for name, tp in tabs:
        N = tp.shape[1]
        for order in (2, 3, 4):
            if N ** order * 3 ** order > 200000:
                continue
            cases.append((name, tp, order))
    impl = {}
    for name, tp, order in cases:
        a = np.asarray(fns[order][0](tp))
        e = np.asarray(fns[order][1](tp))
        N = tp.shape[1]
        indep = get_indep_atoms_by_lat_trans(tp)
        impl[(name, order)] = (a, indep)
        ctx.case({"table": name, "order": order, "N": int(N)}, nontrivial=tp.shape[0] >= 2)
        ctx.count(f"tables-order{order}")
        # element-level = atomic * 3^n + cart, in (atoms..., carts...) layout
        exp = (a[:, None] * 3 ** order + np.arange(3 ** order)[None, :]).reshape(-1)
        if not np.array_equal(e, exp):
            ctx.fail("oracle", f"C08/oracle/elem-index/order{order}", f"element-level decompression indices of {name} order {order} are not atomic*3^n+cart",
                     replay={"tp": tp.tolist(), "order": order}, has_input=True)
        # oracle: first atom independent -> rank * N^(n-1) + ravel(rest); classes complete and of size n_lp
        n_lp = tp.shape[0]
        rank = {int(x): r for r, x in enumerate(indep)}
        bad = None
        for i in indep:
            block = a[int(i) * N ** (order - 1):(int(i) + 1) * N ** (order - 1)]
            if not np.array_equal(block, rank[int(i)] * N ** (order - 1) + np.arange(N ** (order - 1))):
                bad = int(i)
        if bad is not None:
            ctx.fail("oracle", f"C08/oracle/indep-first/order{order}", f"class codes of tuples starting on independent atom {bad} of {name} are not rank*N^(n-1)+ravel(rest)",
                     replay={"tp": tp.tolist(), "order": order, "atom": bad}, has_input=True)
        cnt = np.bincount(a, minlength=len(indep) * N ** (order - 1))
        if len(cnt) != len(indep) * N ** (order - 1) or (cnt != n_lp).any():
            ctx.fail("oracle", f"C08/oracle/class-size/order{order}", f"classes of {name} order {order} do not all have n_lp members", replay={"tp": tp.tolist(), "order": order}, has_input=True)
        # translation invariance and p2s = lowest of each orbit
        orbmin = tp.min(axis=0)
        if sorted(set(orbmin.tolist())) != [int(x) for x in indep]:
            ctx.fail("oracle", "C08/oracle/p2s", f"independent atoms {indep.tolist()} of {name} are not the orbit minima {sorted(set(orbmin.tolist()))}", replay={"tp": tp.tolist()}, has_input=True)

    def corr():
        res = model_cls([(tp, order) for (_, tp, order) in cases], "c08_" + ctx.tier)
        for (name, tp, order), (mi, mc, valid) in zip(cases, res):
            a, indep = impl[(name, order)]
            ctx.traces += 1
            if mi != indep.tolist() or mc != a.tolist() or not valid:
                ctx.fail("correspondence", f"C08/corr/cls/order{order}", f"class table / independent atoms of {name} order {order} differ from the model", replay={"tp": tp.tolist(), "order": order}, has_input=True)
    try_coq(ctx, "C08/corr/model", corr)

    # ---- oracle through the API
    cells = solver_cells(ctx.quick) + [("bcc_conv", (1, 1, 1)), ("ortho_C", (1, 1, 1))]
    if not ctx.quick:
        cells += [("fcc_conv", (1, 1, 1)), ("tri1", (2, 2, 1))]
    from gens import reordered, base_cells as _bc, make_supercell as _ms
    twin0 = _ms(_bc()["mono_P"], (2, 1, 1))
    # twins (same atom and lattice-point counts, other translation table) one after the other
    for cname, diag in cells + [("twin", twin0), ("twin", reordered(twin0))]:
        P = Prepared(None, None, rng, sc=diag) if cname == "twin" else Prepared(cname, diag, rng)
        N = P.N
        tp = P.trans_perms
        if sorted(P.p2s.tolist()) != sorted(set(tp.min(axis=0).tolist())) or list(P.p2s) != sorted(P.p2s.tolist()):
            ctx.fail("oracle", "C08/oracle/p2s-cell", f"{P.sc['name']}: p2s_map {P.p2s.tolist()} is not the increasing list of orbit minima", replay=P.describe(), has_input=True)
        for orders in COMBOS:
            if not P.usable(orders):
                continue
            ncoef = sum(P.nb[m] for m in orders)
            n = 2 * int(np.ceil(ncoef / (3 * N))) + 6
            d = rng.normal(size=(n, N, 3)) * 0.1
            f = rng.normal(size=(n, N, 3))
            try:
                oc = P.new(d, f); oc.solve(orders=list(orders), is_compact_fc=True)
                of = P.new(d, f); of.solve(orders=list(orders), is_compact_fc=False)
            except np.linalg.LinAlgError:
                ctx.count("skipped-singular")
                continue
            ctx.case({"cell": P.sc["name"], "orders": list(orders), "n_lp": int(P.n_lp)}, nontrivial=P.n_lp >= 2)
            ctx.count("api-compact-vs-full")
            for m in orders:
                comp, full = oc.force_constants[m], of.force_constants[m]
                s = max(np.abs(full).max(), 1e-300)
                if comp.shape != (len(P.p2s),) + full.shape[1:]:
                    ctx.fail("oracle", f"C08/oracle/shape/order{m}", f"{P.sc['name']}: compact fc{m} shape {comp.shape}", replay=P.describe(), has_input=True)
                    continue
                e1 = float(np.abs(comp - full[P.p2s]).max() / s)
                if not e1 <= 1e-9:
                    ctx.fail("oracle", f"C08/oracle/restriction/order{m}", f"{P.sc['name']} orders {orders}: compact fc{m} != full fc{m}[p2s_map] (relative difference {e1:.2e})",
                             replay={**P.describe(), "orders": list(orders), "order": m, "disps": d.tolist(), "forces": f.tolist()}, has_input=True)
                # reconstruct full from compact by translations
                rec = np.zeros_like(full)
                for t in range(tp.shape[0]):
                    row = tp[t]
                    idx = np.ix_(row[P.p2s], *([row] * (m - 1)))
                    rec[idx] = comp
                e2 = float(np.abs(rec - full).max() / s)
                if not e2 <= 1e-9:
                    ctx.fail("oracle", f"C08/oracle/reconstruction/order{m}", f"{P.sc['name']} orders {orders}: full fc{m} is not the translation image of the compact one ({e2:.2e})",
                             replay={**P.describe(), "orders": list(orders), "order": m}, has_input=True)
