"""C05 — exact recovery of admissible force constants.  Coq: props/C05.v (translated reshape chains
for all N, nx; Taylor constants; structure facts; uniqueness of the solution of the normal equations
for exact data).  Correspondence: reshape functions on random sparse matrices vs the translated chains.
Oracle: ground truths -> independent einsum force model -> fit -> compare, all six combinations,
compact and full, several atom/snapshot batch settings."""
from __future__ import annotations

import os

import numpy as np
from scipy.sparse import csr_array

from common import coq_eval, parse_ints, try_coq
from solvers import solve_with_batch, COMBOS, Prepared, dense_design, expanded_basis, forces_from_fc, solver_cells

UNITS = ["ReshapeGen", "SolverStruct", "BatchGen", "DesignGen", "ShapesSolvers", "SkelSolvers", "ShapesApi", "SkelApi", "Tables", "IndepGen", "ShapesCombos", "ShapesPerm", "ShapesCoset", "ShapesSumRule", "ShapesSpg", "ShapesReps", "ShapesBasis", "ShapesO1", "ShapesAuxO1", "ShapesAuxEig", "ShapesAuxBatch", "EigStruct", "CutoffGen", "ShapesGeom", "ShapesAuxCut", "SkelSpg", "SkelBasis", "SkelEig", "SkelMat", "SkelPerm", "SkelIdx", "SkelCut"]
PROPS = ["props/C05.v"]
ASSUMPTIONS = ["conditioning and rounding are outside the theorems: recovery is checked to 1e-6 relative on designs with condition number < 1e8",
               "sparse/dense products are exact real products in the model"]


def reshape_cases(rng, n_cases):
    out = []
    for _ in range(n_cases):
        m = int(rng.integers(2, 5))
        N = int(rng.integers(1, 5))
        n = int(rng.integers(1, N + 1))
        nx = int(rng.integers(1, 6))
        nrow = n * N ** (m - 1) * 3 ** m
        lo = 36 if m == 4 else 1  # the order-4 reshaper splits its entries into 36 batches and raises (loudly) on fewer entries
        k = int(rng.integers(lo, max(lo, min(60, nrow * nx)) + 1))
        flat = rng.choice(nrow * nx, size=k, replace=False)
        rows, cols = flat // nx, flat % nx
        out.append((m, N, n, nx, rows, cols))
    return out


def impl_reshape(m, N, n, nx, rows, cols):
    from symfc.solvers.solver_O2 import reshape_nN33_nx_to_N3_n3nx
    from symfc.solvers.solver_O2O3 import reshape_nNN333_nx_to_N3N3_n3nx
    from symfc.solvers.solver_O2O3O4 import reshape_nNNN3333_nx_to_N3N3N3_n3nx

    fn = {2: reshape_nN33_nx_to_N3_n3nx, 3: reshape_nNN333_nx_to_N3N3_n3nx, 4: reshape_nNNN3333_nx_to_N3N3N3_n3nx}[m]
    nrow = n * N ** (m - 1) * 3 ** m
    vals = np.arange(1, len(rows) + 1, dtype=float)
    mat = csr_array((vals, (rows, cols)), shape=(nrow, nx))
    out = fn(mat, N, n).tocoo()
    where = {int(v): (int(r), int(c)) for v, r, c in zip(out.data, out.row, out.col)}
    return [where.get(i + 1) for i in range(len(rows))], out.shape


def check(ctx):
    rng = np.random.default_rng(ctx.seed)
    ctx.rule = ("reshape correspondence: random (order, N<=4, n<=N, nx<=5) with up to 40 random COO entries each; recovery: cells as in C06 x six combinations x compact/full x "
                "snapshot batch sizes; ground truth = random coefficients on the expanded basis pushed through an independent einsum force model")
    # ---- correspondence: reshape chains
    cases = reshape_cases(rng, 60 if ctx.quick else 400)
    impl = [impl_reshape(*c) for c in cases]

    def corr():
        exprs = []
        for (m, N, n, nx, rows, cols) in cases:
            items = "; ".join(f"({int(r)}, {int(c)})" for r, c in zip(rows, cols))
            exprs.append(f"flat_map (fun rc => let p := reshape_O{m} {N} {nx} (fst rc) (snd rc) in [fst p; snd p]) [{items}]")
        res = []
        for s in range(0, len(exprs), 100):
            res += coq_eval(f"c05_reshape_{s}", ["From SymfcG Require Import ReshapeGen."], [], exprs[s:s + 100])
        for (m, N, n, nx, rows, cols), (got, shape), r in zip(cases, impl, res):
            flat = parse_ints(r)
            model = [(flat[2 * i], flat[2 * i + 1]) for i in range(len(rows))]
            ctx.traces += 1
            exp_shape = ((3 * N) ** (m - 1), n * 3 * nx)
            if tuple(shape) != exp_shape:
                ctx.fail("correspondence", f"C05/corr/reshape_O{m}/shape", f"reshape order {m} N={N} n={n} nx={nx}: output shape {shape}, expected {exp_shape}",
                         replay={"order": m, "N": N, "n": n, "nx": nx}, has_input=True)
            if got != model:
                k = next(i for i in range(len(rows)) if got[i] != model[i])
                ctx.fail("correspondence", f"C05/corr/reshape_O{m}", f"reshape order {m} N={N} n={n} nx={nx}: entry (row {int(rows[k])}, col {int(cols[k])}) goes to {got[k]} in the implementation, {model[k]} in the translated chain",
                         replay={"order": m, "N": N, "n": n, "nx": nx, "row": int(rows[k]), "col": int(cols[k]), "impl": got[k], "model": model[k]}, has_input=True)
    try_coq(ctx, "C05/corr/reshape/model", corr)
    # ---- correspondence: Kronecker products of displacements (gen/DesignGen.v: which digit of the flat index each factor reads)
    def kron_corr():
        from symfc.solvers.solver_O2O3 import set_disps_N3N3
        from symfc.solvers.solver_O2O3O4 import set_disps_N3N3N3
        sizes = [3, 6] if ctx.quick else [3, 6, 9]
        exprs = []
        for N3 in sizes:
            exprs.append(f"flat_map (fun r => [zdigit {N3} 2 0 r; zdigit {N3} 2 1 r]) (map Z.of_nat (seq 0 {N3 ** 2}))")
            exprs.append(f"flat_map (fun r => [zdigit {N3} 3 0 r; zdigit {N3} 3 1 r; zdigit {N3} 3 2 r]) (map Z.of_nat (seq 0 {N3 ** 3}))")
        res = coq_eval("c05_kron", ["From SymfcV Require Import DesignPre.", "From SymfcG Require Import DesignGen."], [], exprs)
        for si, N3 in enumerate(sizes):
            d = rng.normal(size=(3, N3))
            dig2 = np.array(parse_ints(res[2 * si])).reshape(-1, 2)
            dig3 = np.array(parse_ints(res[2 * si + 1])).reshape(-1, 3)
            m2 = d[:, dig2[:, 0]] * d[:, dig2[:, 1]]
            m3 = d[:, dig3[:, 0]] * d[:, dig3[:, 1]] * d[:, dig3[:, 2]]
            i2 = np.asarray(set_disps_N3N3(d, sparse=False))
            i3 = np.asarray(set_disps_N3N3N3(d, sparse=False))
            i32 = np.asarray(set_disps_N3N3N3(d, sparse=False, disps_N3N3=i2))
            i2s = set_disps_N3N3(d, sparse=True).toarray()
            i3s = set_disps_N3N3N3(d, sparse=True).toarray()
            ctx.traces += 1
            ctx.case({"kronecker": N3}, nontrivial=True)
            ctx.count("kronecker-products")
            for nm, a, b in (("set_disps_N3N3", i2, m2), ("set_disps_N3N3N3", i3, m3), ("set_disps_N3N3N3(disps_N3N3=...)", i32, m3),
                             ("set_disps_N3N3(sparse)", i2s, m2), ("set_disps_N3N3N3(sparse)", i3s, m3)):
                if a.shape != b.shape or not np.allclose(a, b, rtol=1e-13, atol=0):
                    ctx.fail("correspondence", "C05/corr/kronecker", f"{nm} for 3N={N3}: the products differ from the regenerated model (digits of the flat index)",
                             replay={"function": nm, "N3": N3, "disps": d.tolist()}, has_input=True)
    try_coq(ctx, "C05/corr/kronecker/model", kron_corr)
    # direct oracle on reshape: the documented target (independent of the Coq model)
    for (m, N, n, nx, rows, cols), (got, shape) in zip(cases, impl):
        ctx.case({"reshape": m, "N": N, "n": n, "nx": nx, "entries": len(rows)}, nontrivial=N > 1)
        ctx.count(f"reshape_O{m}")
        for r, c, g in zip(rows, cols, got):
            r = int(r)
            cart = r % 3 ** m
            at = r // 3 ** m
            atoms = [(at // N ** (m - 1 - k)) % N if k > 0 else at // N ** (m - 1) for k in range(m)]
            carts = [(cart // 3 ** (m - 1 - k)) % 3 for k in range(m)]
            row = 0
            for k in range(1, m):
                row = row * (3 * N) + 3 * atoms[k] + carts[k]
            col = (3 * atoms[0] + carts[0]) * nx + int(c)
            if g != (row, col):
                ctx.fail("oracle", f"C05/oracle/reshape_O{m}", f"reshape order {m} N={N} n={n} nx={nx}: entry (row {r}, col {int(c)}) -> {g}, documented target {(row, col)}",
                         replay={"order": m, "N": N, "n": n, "nx": nx, "row": r, "col": int(c), "impl": g, "expected": [row, col]}, has_input=True)
                break

    facade_cutoff_recovery(ctx, np.random.default_rng(ctx.seed + 31))
    coincident_sizes_recovery(ctx, np.random.default_rng(ctx.seed + 33))
    pair_model_recovery(ctx, np.random.default_rng(ctx.seed + 32))
    # ---- recovery of ground truths
    nbatch_settings = [None] if ctx.quick else [None, 2]
    for cname, diag in solver_cells(ctx.quick):
        P = Prepared(cname, diag, rng)
        for orders in COMBOS:
            if not P.usable(orders):
                continue
            ncoef = sum(P.nb[m] for m in orders)
            n = 3 * int(np.ceil(ncoef / (3 * P.N))) + 4
            d = rng.normal(size=(n, P.N, 3)) * 0.1
            X = dense_design(P.basis, orders, d)
            sv = np.linalg.svd(X, compute_uv=False)
            if sv[-1] < 1e-8 * sv[0]:
                ctx.count("skipped-ill-conditioned")
                continue
            truth = {}
            for m in orders:
                T = expanded_basis(P.basis[m], m, P.N)
                c = rng.normal(size=P.nb[m])
                truth[m] = np.tensordot(c, T, axes=(0, 0))
            f = forces_from_fc(truth, d)
            for compact in (True, False):
                # (snapshot batch size, forced atom batches); n // 2 with two atom batches: two or three snapshot batches, two of them of
                # equal length, inside an atom-batch loop (R15-L3: products cached across atom batches under the batch LENGTH)
                settings = [(bs, nb) for bs in ((100,) if ctx.quick else (1, 3, 100)) for nb in nbatch_settings] + [(max(1, n // 2), 2)]
                for bs, nb in settings:
                    if True:
                        if nb is not None:
                            os.environ["SYMFC_VERIF_SOLVER_NBATCH"] = str(min(nb, P.N))
                        try:
                            # the compact runs get the same numbers in Fortran memory order (a valid (n, N, 3) array)
                            o = P.new(np.asfortranarray(d), np.asfortranarray(f)) if compact else P.new(d, f)
                            solve_with_batch(o, P, orders, compact, bs)
                        finally:
                            os.environ.pop("SYMFC_VERIF_SOLVER_NBATCH", None)
                        ctx.case({"cell": P.sc["name"], "orders": list(orders), "compact": compact, "batch": bs, "atom_batches": nb, "n_snap": n}, nontrivial=True)
                        ctx.count("recovery")
                        for m in orders:
                            got = o.force_constants[m]
                            exp = truth[m][P.p2s] if compact else truth[m]
                            if got.shape != exp.shape:
                                ctx.fail("oracle", f"C05/oracle/layout/order{m}", f"{P.sc['name']} orders {orders} compact={compact}: fc{m} has shape {got.shape}, documented {exp.shape}",
                                         replay={**P.describe(), "orders": list(orders), "compact": compact}, has_input=True)
                                continue
                            s = max(np.abs(exp).max(), 1e-300)
                            err = float(np.abs(got - exp).max() / s)
                            if not err <= 1e-6:
                                ctx.fail("oracle", f"C05/oracle/recovery/order{m}", f"{P.sc['name']} orders {orders} compact={compact} batch_size={bs} atom_batches={nb}: fc{m} not recovered (relative error {err:.2e})",
                                         replay={**P.describe(), "orders": list(orders), "compact": compact, "batch_size": bs, "atom_batches": nb, "disps": d.tolist(), "truth_coefs": "random on expanded basis", "rel_err": err}, has_input=True)

            # the Taylor model is exact for displacements of ANY size: displacements of the order of the cell (several Angstrom,
            # fractional components beyond 1/2) and the same forces model must be recovered as well (through the facade)
            d_big = rng.normal(size=(n, P.N, 3)) * 2.5
            f_big = forces_from_fc(truth, d_big)
            ctx.case({"cell": P.sc["name"], "orders": list(orders), "large_amplitude": 2.5, "n_snap": n}, nontrivial=True)
            ctx.count("recovery-large-amplitude")
            try:
                o = P.new(d_big, f_big)
                o.solve(orders=list(orders), is_compact_fc=False)
                errs = {m: float(np.abs(o.force_constants[m] - truth[m]).max() / max(np.abs(truth[m]).max(), 1e-300)) for m in orders}
            except np.linalg.LinAlgError:
                errs = {}
                ctx.count("skipped-singular")
            bad_m = [m for m, e in errs.items() if not e <= 1e-6]
            if bad_m:
                ctx.fail("oracle", f"C05/oracle/recovery-large-amplitude/order{bad_m[0]}", f"{P.sc['name']} orders {orders}: displacements of 2.5 length units (Taylor model exact for any size): fc{bad_m[0]} not recovered (relative error {errs[bad_m[0]]:.2e})",
                         replay={**P.describe(), "orders": list(orders), "disps": d_big.tolist(), "rel_err": errs[bad_m[0]]}, has_input=True)

            # another unit system: the same crystal with forces (hence force constants) 1e-12 times smaller; recovery is a relative statement
            ctx.case({"cell": P.sc["name"], "orders": list(orders), "unit_scale": 1e-12, "n_snap": n}, nontrivial=True)
            ctx.count("recovery-small-units")
            try:
                o = P.new(d, 1e-12 * f)
                o.solve(orders=list(orders), is_compact_fc=False)
                errs = {m: float(np.abs(o.force_constants[m] - 1e-12 * truth[m]).max() / max(np.abs(1e-12 * truth[m]).max(), 1e-300)) for m in orders}
            except np.linalg.LinAlgError:
                errs = {}
                ctx.count("skipped-singular")
            bad_m = [m for m, e in errs.items() if not e <= 1e-6]
            if bad_m:
                ctx.fail("oracle", f"C05/oracle/recovery-small-units/order{bad_m[0]}", f"{P.sc['name']} orders {orders}: forces and force constants scaled by 1e-12 (another unit system): fc{bad_m[0]} not recovered (relative error {errs[bad_m[0]]:.2e})",
                         replay={**P.describe(), "orders": list(orders), "disps": d.tolist(), "scale": 1e-12, "rel_err": errs[bad_m[0]]}, has_input=True)

            # datasets with structure a shortcut might key on: displacements measured from their mean over the snapshots (every
            # component sums to zero, yet not symmetric under u -> -u), triples {u, -u/2, -u/2}, and true +/- pairs
            raw = rng.normal(size=(n, P.N, 3)) * 0.1
            u_ = rng.normal(size=(n, P.N, 3)) * 0.1          # n independent patterns each: the copies -u/2 (or -u) add no rank for even orders
            h_ = rng.normal(size=(n, P.N, 3)) * 0.1
            for sname, d_s in (("centred", raw - raw.mean(axis=0)), ("zero-sum-triples", np.concatenate([u_, -u_ / 2, -u_ / 2])), ("plus-minus-pairs", np.concatenate([h_, -h_]))):
                Xs = dense_design(P.basis, orders, d_s)
                svs = np.linalg.svd(Xs, compute_uv=False)
                if svs[-1] < 1e-3 * svs[0]:
                    # recovery to 1e-6 through the normal equations needs cond(X)^2 * 1e-16 << 1e-6
                    ctx.count("skipped-ill-conditioned")
                    continue
                f_s = forces_from_fc(truth, d_s)
                ctx.case({"cell": P.sc["name"], "orders": list(orders), "structured": sname, "n_snap": int(len(d_s))}, nontrivial=True)
                ctx.count("recovery-structured:" + sname)
                try:
                    o = P.new(d_s, f_s)
                    o.solve(orders=list(orders), is_compact_fc=False)
                    errs = {m: float(np.abs(o.force_constants[m] - truth[m]).max() / max(np.abs(truth[m]).max(), 1e-300)) for m in orders}
                except np.linalg.LinAlgError:
                    errs = {}
                    ctx.count("skipped-singular")
                bad_m = [m for m, e in errs.items() if not e <= 1e-6]
                if bad_m:
                    ctx.fail("oracle", f"C05/oracle/recovery-structured/{sname}/order{bad_m[0]}", f"{P.sc['name']} orders {orders}, '{sname}' displacements ({len(d_s)} snapshots, design of full rank): fc{bad_m[0]} not recovered (relative error {errs[bad_m[0]]:.2e})",
                             replay={**P.describe(), "orders": list(orders), "dataset": sname, "disps": d_s.tolist(), "rel_err": errs[bad_m[0]]}, has_input=True)

    # ---- ground truths drawn from the INDEPENDENT reference admissible space (reference.py), small cells
    import spglib
    from reference import atom_perm_by_matching, projector_onto_admissible
    for cname, diag in [("mono_P", (1, 1, 1)), ("tri2_P1", (1, 1, 1))] + ([] if ctx.quick else [("tri1", (2, 1, 1)), ("tri2_Pm1", (1, 1, 1))]):
        P = Prepared(cname, diag, rng, shuffle=False)
        sc = P.sc
        L = np.asarray(sc["lattice"], float)
        ops = spglib.get_symmetry((sc["lattice"], sc["positions"], sc["numbers"]))
        G = [(atom_perm_by_matching(L, sc["positions"], sc["numbers"], r, t), L.T @ r @ np.linalg.inv(L.T)) for r, t in zip(ops["rotations"], ops["translations"])]
        for m in (2, 3, 4):
            if P.N ** m * 3 ** m > 1400:
                continue
            Q = projector_onto_admissible(P.N, m, G)
            if Q.shape[1] == 0:
                continue
            # order 4: the arrangement tables lack the pattern (ia,ia,jb,jb) (known finding C04/order4/pattern-aabb).  A truth drawn
            # from the reference space WITH those elements forced to zero must be recovered exactly (normal key); a truth with a
            # non-zero component there is the known consequence -- reported under the known key only when that is the diagnosed cause
            spaces = [("reference admissible space", Q, f"C05/oracle/recovery-independent/order{m}")]
            if m == 4:
                Q22 = projector_onto_admissible(P.N, m, G, drop_pattern_22=True)
                spaces = [("reference admissible space with the (ia,ia,jb,jb) elements zero", Q22, "C05/oracle/recovery-independent/order4")]
                if Q.shape[1] > Q22.shape[1] and P.nb[m] == Q22.shape[1]:
                    spaces.append(("reference admissible space", Q, "C05/order4/pattern-aabb"))
                elif Q.shape[1] > Q22.shape[1]:
                    spaces.append(("reference admissible space", Q, "C05/oracle/recovery-independent/order4"))
            for sname, Qs, key in spaces:
                if Qs.shape[1] == 0:
                    continue
                c = rng.normal(size=Qs.shape[1])
                truth = {m: (Qs @ c).reshape((P.N,) * m + (3,) * m)}
                n = 3 * int(np.ceil(Qs.shape[1] / (3 * P.N))) + 6
                d = rng.normal(size=(n, P.N, 3)) * 0.1
                f = forces_from_fc(truth, d)
                ctx.case({"cell": sc["name"], "independent_truth_order": m, "space": sname, "admissible_dim": int(Qs.shape[1]), "basis_dim": int(P.nb[m])}, nontrivial=True)
                ctx.count("recovery-independent-truth")
                try:
                    o = P.new(d, f)
                    o.solve(orders=[m], is_compact_fc=False)
                    got = o.force_constants[m]
                    err = float(np.abs(got - truth[m]).max() / max(np.abs(truth[m]).max(), 1e-300))
                except (np.linalg.LinAlgError, ValueError, IndexError, RuntimeError):
                    err = float("inf")
                if not err <= 1e-6:
                    ctx.fail("oracle", key, f"{sc['name']}: admissible fc{m} drawn from the independent {sname} (dimension {Qs.shape[1]}, basis has {P.nb[m]}) is not recovered from exact forces (relative error {err:.2e})",
                             replay={**P.describe(), "order": m, "truth": "random vector of the " + sname, "rel_err": err}, has_input=True)


def facade_cutoff_recovery(ctx, rng):
    """Recovery through the facade with a per-order cutoff dictionary: the ground truth of each order is drawn from the basis
    set class of that order built directly with that order's own radius; the fit goes through Symfc(cutoff={...}).run()."""
    from symfc import Symfc
    from symfc.basis_sets import FCBasisSetO2, FCBasisSetO3, FCBasisSetO4
    from gens import atoms_of, base_cells, make_supercell
    from reference import min_image_distances

    classes = {2: FCBasisSetO2, 3: FCBasisSetO3, 4: FCBasisSetO4}
    for cname, diag in [("mono_P", (2, 1, 1))] + ([] if ctx.quick else [("tri2_P1", (2, 1, 1)), ("hcp", (1, 1, 2))]):
        sc = make_supercell(base_cells()[cname], diag, rng=rng, shuffle=True)
        at = atoms_of(sc)
        N = len(sc["numbers"])
        dist = min_image_distances(np.asarray(sc["lattice"], float), np.asarray(sc["positions"], float))
        shells = sorted(set(np.round(dist[dist > 1e-8], 6).tolist()))
        if len(shells) < 3:
            continue
        mids = [(a + b) / 2 for a, b in zip(shells[:-1], shells[1:])]
        configs = [{3: mids[0], 4: mids[1]}, {2: mids[-1], 3: mids[1], 4: mids[0]}, {3: mids[0]}, {4: mids[0]}]
        for cfg in configs[: (2 if ctx.quick else 4)]:
            for orders in ((3, 4), (2, 3, 4), (2, 3), (4,)):
                truth, ncoef, ok = {}, 0, True
                for m in orders:
                    try:
                        b = classes[m](at, cutoff=cfg.get(m)).run()
                    except (IndexError, ValueError):
                        ok = False
                        break
                    nb = b.basis_set.shape[1]
                    if nb == 0 or nb > 400:
                        ok = False
                        break
                    F = np.asarray(b.compression_matrix @ b.basis_set)
                    truth[m] = (F @ rng.normal(size=nb)).reshape((N,) * m + (3,) * m)
                    ncoef += nb
                if not ok:
                    continue
                n = 3 * int(np.ceil(ncoef / (3 * N))) + 8
                d = rng.normal(size=(n, N, 3)) * 0.1
                f = forces_from_fc(truth, d)
                ctx.case({"cell": sc["name"], "facade_cutoff": {str(k): round(v, 4) for k, v in cfg.items()}, "orders": list(orders)}, nontrivial=True)
                ctx.count("recovery-facade-cutoff")
                rep = {"cell": sc["name"], "lattice": np.asarray(sc["lattice"]).tolist(), "positions": np.asarray(sc["positions"]).tolist(), "numbers": [int(z) for z in sc["numbers"]],
                       "cutoff": {str(k): v for k, v in cfg.items()}, "orders": list(orders)}
                try:
                    o = Symfc(at, displacements=d, forces=f, cutoff=dict(cfg)).run(orders=list(orders), is_compact_fc=False)
                except np.linalg.LinAlgError:
                    ctx.count("skipped-singular")
                    continue
                except (IndexError, ValueError) as e:
                    ctx.fail("oracle", "C05/oracle/recovery-facade-cutoff", f"{sc['name']} cutoff {cfg} orders {orders}: the facade raised {type(e).__name__}: {e} although every order's own basis set is non-empty", replay=rep, has_input=True)
                    continue
                for m in orders:
                    err = float(np.abs(o.force_constants[m] - truth[m]).max() / max(np.abs(truth[m]).max(), 1e-300))
                    if not err <= 1e-6:
                        ctx.fail("oracle", "C05/oracle/recovery-facade-cutoff", f"{sc['name']} cutoff {cfg} orders {orders}: admissible fc{m} (basis set of order {m} built with its own radius) is not recovered through the facade (relative error {err:.2e})",
                                 replay={**rep, "order": m, "rel_err": err}, has_input=True)
                        break


def coincident_sizes_recovery(ctx, rng):
    """Recovery for solver combinations whose orders happen to have arrays of EQUAL size (the same number of compressed elements, or
    the same number of basis vectors): per-order cutoffs are scanned shell by shell for such coincidences, and every coincidence
    found is fitted through the facade.  (Bookkeeping keyed by a size instead of by the order works for all other inputs.)"""
    from symfc import Symfc
    from symfc.basis_sets import FCBasisSetO2, FCBasisSetO3, FCBasisSetO4
    from gens import atoms_of, base_cells, make_supercell
    from reference import min_image_distances

    classes = {2: FCBasisSetO2, 3: FCBasisSetO3, 4: FCBasisSetO4}
    pmm2 = {"lattice": np.diag([4.12, 2 * 4.68, 5.12]), "numbers": np.array([1, 2, 1, 1, 2, 1]), "name": "ortho-Pmm2-3atoms-1x2x1",
            "positions": np.array([[0.0, 0.0, 0.0], [0.75, 0.25, 0.5], [0.0, 0.25, 0.0], [0.0, 0.5, 0.0], [0.75, 0.75, 0.5], [0.0, 0.75, 0.0]])}
    cells = [pmm2, make_supercell(base_cells()["mono_P"], (2, 1, 1), rng=rng, shuffle=True)]
    if not ctx.quick:
        cells += [make_supercell(base_cells()["tri2_P1"], (2, 1, 1), rng=rng, shuffle=True), make_supercell(base_cells()["hcp"], (1, 1, 2), rng=rng, shuffle=True)]
    found = 0
    for sc in cells:
        at = atoms_of(sc)
        N = len(sc["numbers"])
        dist = min_image_distances(np.asarray(sc["lattice"], float), np.asarray(sc["positions"], float))
        shells = sorted(set(np.round(dist[dist > 1e-8], 6).tolist()))
        mids = [None] + [(a + b) / 2 for a, b in zip(shells[:-1], shells[1:])][: (5 if ctx.quick else 8)]
        table = {}          # (order, cutoff) -> (basis object, sizes)
        for m in (2, 3, 4):
            for c in mids:
                try:
                    b = classes[m](at, cutoff=c).run()
                except (IndexError, ValueError):
                    continue
                nb = b.basis_set.shape[1]
                if 0 < nb <= 300:
                    table[(m, c)] = (b, {int(b.compact_compression_matrix.shape[1]), int(nb)})
        pairs = [(k1, k2) for k1 in table for k2 in table if k1[0] < k2[0] and (k1[0], k2[0]) != (2, 4) and table[k1][1] & table[k2][1]]
        rng.shuffle(pairs)
        for (m1, c1), (m2, c2) in pairs[: (3 if ctx.quick else 10)]:
            found += 1
            orders = (m1, m2)
            truth = {}
            for m, c in ((m1, c1), (m2, c2)):
                b = table[(m, c)][0]
                F = np.asarray(b.compression_matrix @ b.basis_set)
                truth[m] = (F @ rng.normal(size=F.shape[1])).reshape((N,) * m + (3,) * m)
            ncoef = sum(table[k][0].basis_set.shape[1] for k in ((m1, c1), (m2, c2)))
            n = 3 * int(np.ceil(ncoef / (3 * N))) + 8
            d = rng.normal(size=(n, N, 3)) * 0.1
            f = forces_from_fc(truth, d)
            cfg = {m: c for m, c in ((m1, c1), (m2, c2)) if c is not None}
            ctx.case({"cell": sc["name"], "coincident_sizes": sorted(table[(m1, c1)][1] & table[(m2, c2)][1]), "orders": list(orders), "cutoff": {str(k): round(v, 4) for k, v in cfg.items()}}, nontrivial=True)
            ctx.count("recovery-coincident-sizes")
            rep = {"cell": sc["name"], "lattice": np.asarray(sc["lattice"]).tolist(), "positions": np.asarray(sc["positions"]).tolist(), "numbers": [int(z) for z in sc["numbers"]],
                   "cutoff": {str(k): v for k, v in cfg.items()}, "orders": list(orders)}
            try:
                o = Symfc(at, displacements=d, forces=f, cutoff=dict(cfg) or None).run(orders=list(orders), is_compact_fc=False)
            except np.linalg.LinAlgError:
                ctx.count("skipped-singular")
                continue
            for m in orders:
                err = float(np.abs(o.force_constants[m] - truth[m]).max() / max(np.abs(truth[m]).max(), 1e-300))
                if not err <= 1e-6:
                    ctx.fail("oracle", "C05/oracle/recovery-coincident-sizes", f"{sc['name']} cutoff {cfg} orders {orders} (both orders have an array of size {sorted(table[(m1, c1)][1] & table[(m2, c2)][1])}): admissible fc{m} is not recovered (relative error {err:.2e})",
                             replay={**rep, "order": m, "rel_err": err}, has_input=True)
                    break
    ctx.require("the scan found solver combinations whose orders have arrays of equal size", found >= 1)


def pair_model_recovery(ctx, rng):
    """Ground truth independent of the library: force constants of orders 2 and 3 derived from a periodic pair-potential energy
    (harness/pairmodel.py), forces from the Taylor expansion of those tensors, fit through the facade; supercells of 16-54 atoms,
    full and compact output."""
    from symfc import Symfc
    from gens import atoms_of, base_cells, make_supercell
    from pairmodel import pair_tensor

    cells = [("bcc_conv", (2, 2, 2), True), ("hcp", (3, 3, 1), True)]
    if not ctx.quick:
        cells += [("fcc_conv", (2, 2, 2), True), ("bcc_conv", (3, 3, 2), False), ("wurtzite", (3, 3, 1), True), ("bcc_conv", (3, 3, 3), True)]
    for cname, diag, shuffle in cells:
        sc = make_supercell(base_cells()[cname], diag, rng=rng, shuffle=shuffle)
        N = len(sc["numbers"])
        at = atoms_of(sc)
        truth = {m: pair_tensor(m, sc["lattice"], sc["positions"], sc["numbers"]) for m in (2, 3)}
        o0 = Symfc(at).compute_basis_set(orders=[2, 3])
        ncoef = sum(o0.basis_set[m].basis_set.shape[1] for m in (2, 3))
        n = 2 * int(np.ceil(ncoef / (3 * N))) + 6
        from solvers import finite_displacement_dataset
        datasets_ = [("dense", rng.normal(size=(n, N, 3)) * 0.1), ("finite-displacement", finite_displacement_dataset(rng, N, amp=0.1))]
        for dkind, d in datasets_:
          n = len(d)
          f = forces_from_fc(truth, d)
          for orders in ((2, 3),):
            for compact in ((False, True) if dkind == "dense" else (False,)):
                  ctx.case({"pair_model_recovery": sc["name"], "N": N, "orders": list(orders), "compact": compact, "data": dkind, "n_snap": n, "n_coef": int(ncoef)}, nontrivial=True)
                  ctx.count("recovery-pair-model")
                  rep = {"cell": sc["name"], "lattice": np.asarray(sc["lattice"]).tolist(), "positions": np.asarray(sc["positions"]).tolist(), "numbers": [int(z) for z in sc["numbers"]],
                         "orders": list(orders), "compact": compact, "data": dkind, "truth": "derivatives of the pair-potential energy of harness/pairmodel.py"}
                  try:
                      o = Symfc(at, displacements=d, forces=f)
                      o.basis_set = dict(o0.basis_set)
                      o.solve(orders=list(orders), is_compact_fc=compact)
                  except np.linalg.LinAlgError:
                      ctx.count("skipped-singular")
                      continue
                  p2s = list(map(int, o0.basis_set[2].p2s_map))
                  for m in orders:
                      exp = truth[m][p2s] if compact else truth[m]
                      got = np.asarray(o.force_constants[m])
                      err = float(np.abs(got - exp).max() / max(np.abs(exp).max(), 1e-300)) if got.shape == exp.shape else float("inf")
                      if not err <= 1e-7:
                          ctx.fail("oracle", "C05/oracle/recovery-pair-model", f"{sc['name']} (N={N}) orders {orders} {'compact' if compact else 'full'}: fc{m} of a pair-potential model is not recovered from its exact Taylor forces (relative error {err:.2e})",
                                   replay={**rep, "order": m, "rel_err": err}, has_input=True)
                          break
