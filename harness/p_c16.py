"""C16 — invalid requests are rejected.  Coq: props/C16.v over the translated validators and ladder.
Correspondence: translated check_orders / check_dataset against the real methods on exhaustive small
domains; API histories against Api.v.  Direct oracles (the property's text evaluated on the
implementation) run first and do not need the Coq build: they are the search for a failing input."""
from __future__ import annotations

import itertools

import numpy as np

from apihist import exn_code, run_histories
from common import coq_eval, parse_ints, try_coq, zl

UNITS = ["Orders", "ShapesApi", "SkelApi"]
PROPS = ["props/C16.v"]
EXTRA = ["theories/ApiTrace.vo"]
ASSUMPTIONS = [
    "arrays are modelled by identity and shape, solver results by tokens naming their inputs (Api.v); solver-internal exceptions (LAPACK, memory) are not modelled",
    "Python dynamic typing oddities (max_order=2.0, lists instead of arrays) are covered by the correspondence only",
]
WHITE = [(2,), (3,), (4,), (2, 3), (3, 4), (2, 3, 4)]


def orders_cases(tier):
    maxlen = 3 if tier == "quick" else 4
    lists = [None]
    for n in range(0, maxlen + 1):
        lists.extend(list(t) for t in itertools.product(range(0, 6), repeat=n))
    ms = [None, -1, 0, 1, 2, 3, 4, 5, 6]
    return [(m, l) for l in lists for m in ([None] if l is not None and len(l) > 2 else ms)]


def check(ctx):
    from symfc import Symfc

    rng = np.random.default_rng(ctx.seed)
    ctx.rule = ("order specifications: max_order in {None,-1..6} x orders in {None} + all lists over {0..5} up to length 3 (quick) / 4 (thorough), exhaustive; "
                "dataset shapes: all pairs from a pool of well- and ill-formed shapes, exhaustive; API histories: random, mostly valid, "
                "malformed requests mixed in; a case is non-trivial when it reaches the validators (orders) / contains a solve or run (histories)")
    # ---- check_orders: oracle on the implementation
    cases = orders_cases(ctx.tier)
    obj = Symfc.__new__(Symfc)
    impl = []
    for m, l in cases:
        try:
            r = obj._check_orders(m, None if l is None else list(l))
            impl.append([0] + list(r))
        except Exception as e:  # noqa: BLE001
            impl.append([-exn_code(e)])
    for (m, l), a in zip(cases, impl):
        ctx.case({"check_orders": [m, l]}, nontrivial=True)
        ctx.count("orders:" + ("accepted" if a[0] == 0 else f"exn{-a[0]}"))
        if m is not None:
            exp = [0] + list(range(2, m + 1)) if m in (2, 3, 4) else None
        elif l is not None:
            exp = [0] + sorted(l) if tuple(sorted(l)) in WHITE else None
        else:
            exp = None
        if (exp is None) != (a[0] != 0) or (exp is not None and a != exp):
            ctx.fail("oracle", "C16/oracle/check_orders", f"_check_orders({m}, {l}) returned {a}, the property requires {exp or 'an exception'}",
                     replay={"call": "_check_orders", "max_order": m, "orders": l, "impl": a, "required": exp}, has_input=True)

    def corr_orders():
        model = []
        for ci in range(0, len(cases), 400):
            ch = cases[ci:ci + 400]
            items = "; ".join(f"({'None' if m is None else '(Some (%d))' % m}, {'None' if l is None else '(Some ' + zl(l) + ')'})" for m, l in ch)
            res = coq_eval(f"c16_orders_{ci}", ["From SymfcV Require Import PyPrelude ApiTrace.", "From SymfcG Require Import Orders."], [],
                           [f"map (fun ml => match check_orders (fst ml) (snd ml) with Ok o => 0 :: o | Err e => [- exn_code e] end) [{items}]"])
            model.extend(parse_ints(x) for x in res[0].strip()[1:-1].split("];"))
        for (m, l), a, b in zip(cases, impl, model):
            if a != b:
                ctx.fail("correspondence", "C16/corr/check_orders", f"_check_orders({m}, {l}): implementation {a}, translated model {b}",
                         replay={"call": "_check_orders", "max_order": m, "orders": l, "impl": a, "model": b}, has_input=True)
    try_coq(ctx, "C16/corr/check_orders/model", corr_orders)

    # ---- check_dataset
    N = 4

    class FakeCell:
        def __len__(self):
            return N
    shapes = [None, (5, N, 3), (6, N, 3), (5, N), (5, N, 2), (5, N + 1, 3), (5, N, 3, 1), (N, 3), (0, N, 3), (5, 3, N), (3,)]
    pairs = [(a, b) for a in shapes for b in shapes]
    impl_ds = []
    for a, b in pairs:
        o = Symfc.__new__(Symfc)
        o._supercell = FakeCell()
        o._displacements = None if a is None else np.zeros(a)
        o._forces = None if b is None else np.zeros(b)
        try:
            o._check_dataset()
            impl_ds.append(0)
        except Exception as e:  # noqa: BLE001
            impl_ds.append(exn_code(e))
    for (a, b), x in zip(pairs, impl_ds):
        ctx.case({"check_dataset": [a, b]}, nontrivial=a is not None and b is not None)
        ctx.count("dataset:" + ("accepted" if x == 0 else f"exn{x}"))
        good = a is not None and b is not None and a == b and len(a) == 3 and a[1:] == (N, 3)
        if good != (x == 0):
            ctx.fail("oracle", "C16/oracle/check_dataset", f"_check_dataset shapes {a},{b}: implementation {'accepts' if x == 0 else 'rejects'}",
                     replay={"call": "_check_dataset", "disp_shape": a, "forces_shape": b, "impl": x}, has_input=True)

    def corr_ds():
        items = "; ".join(f"({'None' if a is None else '(Some ' + zl(a) + ')'}, {'None' if b is None else '(Some ' + zl(b) + ')'})" for a, b in pairs)
        res = coq_eval("c16_dataset", ["From SymfcV Require Import PyPrelude ApiTrace.", "From SymfcG Require Import Orders."], [],
                       [f"map (fun ab => match check_dataset {N} (fst ab) (snd ab) with Ok _ => 0 | Err e => exn_code e end) [{items}]"])
        model = parse_ints(res[0])
        for (a, b), x, y in zip(pairs, impl_ds, model):
            if x != y:
                ctx.fail("correspondence", "C16/corr/check_dataset", f"_check_dataset shapes {a},{b}: implementation {x}, model {y}",
                         replay={"call": "_check_dataset", "disp_shape": a, "forces_shape": b, "impl": x, "model": y}, has_input=True)
    try_coq(ctx, "C16/corr/check_dataset/model", corr_ds)

    shape_routes(ctx, np.random.default_rng(ctx.seed + 5))

    nonintegral_orders(ctx, np.random.default_rng(ctx.seed + 17))
    # ---- histories (Api.v when it builds, its Python port otherwise)
    n_hist, length = (14, 7) if ctx.quick else (80, 9)
    bad = run_histories(ctx, "C16", n_hist, length, rng, tag=ctx.tier, use_coq=ctx.coq_ok)
    for b in bad[:10]:
        ctx.fail("correspondence", "C16/corr/history", f"history {b.get('history')} step {b.get('step')}: {b['what']}", replay=b,
                 has_input=not b.get("no_input", False))


def shape_routes(ctx, rng):
    """Every kind of mis-shaped dataset through every route by which a dataset reaches an object (constructor, property
    setters, setter after a valid dataset), followed by solve() and run(): an exception, and the stored force constants of
    an object that already holds results stay as they were."""
    from gens import atoms_of, base_cells, make_supercell
    from symfc import Symfc

    sc = make_supercell(base_cells()["mono_P"], (1, 1, 1))
    at = atoms_of(sc)
    N = len(sc["numbers"])
    n = 12
    d0 = rng.normal(size=(n, N, 3)) * 0.05
    f0 = rng.normal(size=(n, N, 3))
    base = Symfc(at, displacements=d0, forces=f0).run(orders=[2])
    ref = {k: np.array(v) for k, v in base.force_constants.items()}
    basis = dict(base.basis_set)
    good = rng.normal(size=(n, N, 3))
    kinds = {
        "flat rows (n, 3N)": good.reshape(n, 3 * N),
        "trailing axis (n, N, 3, 1)": good.reshape(n, N, 3, 1),
        "axes swapped (n, 3, N)": np.ascontiguousarray(good.transpose(0, 2, 1)),
        "six components (n, N, 6)": rng.normal(size=(n, N, 6)),
        "atoms halved (2n, N/2, 3)": good.reshape(2 * n, N // 2, 3) if N % 2 == 0 else None,
        "atoms doubled (n/2, 2N, 3)": good.reshape(n // 2, 2 * N, 3),
        "rank 1": good.reshape(-1),
        "fewer snapshots (n-1, N, 3)": good[:-1],
        "two components (n, N, 2)": good[:, :, :2].copy(),
        "extra atom (n, N+1, 3)": rng.normal(size=(n, N + 1, 3)),
    }
    # sanity: the same routes with a well-shaped dataset must work (otherwise "it raised" below would mean nothing)
    for route in ("constructor", "setters", "setter-after-valid"):
        for call in ("solve", "run"):
            try:
                if route == "constructor":
                    o = Symfc(at, displacements=d0, forces=good)
                elif route == "setters":
                    o = Symfc(at)
                    o.displacements = d0
                    o.forces = good
                else:
                    o = Symfc(at, displacements=d0, forces=f0)
                    o.forces = good
                o.basis_set = dict(basis)
                (o.solve if call == "solve" else o.run)(orders=[2])
                ok_ = 2 in o.force_constants
            except Exception as e:  # noqa: BLE001
                ok_ = False
                ctx.notes.append(f"shape-route sanity {route}/{call}: {type(e).__name__}: {e}")
            ctx.require(f"a well-shaped dataset given through the {route} is accepted by {call}()", ok_)
    # both arrays mis-shaped ALIKE (they agree with each other and hold the right number of values, but not as (n, N, 3))
    both = {"both: atom axis split (n, 2, N/2, 3)": (n, 2, N // 2, 3) if N % 2 == 0 else None, "both: extra unit axis (n, N, 1, 3)": (n, N, 1, 3), "both: extra unit axis (n, 1, N, 3)": (n, 1, N, 3),
            "both: snapshots split (2, n/2, N, 3)": (2, n // 2, N, 3), "both: flat rows (n, 3N)": (n, 3 * N), "both: components first (n, 3, N)": (n, 3, N)}
    for kname, shp in both.items():
        if shp is not None:
            kinds[kname] = shp
    for kname, bad in kinds.items():
        if bad is None:
            continue
        for which in (("both",) if kname.startswith("both:") else ("displacements", "forces")):
            for route in ("constructor", "setters", "setter-after-valid"):
                for call in ("solve", "run"):
                    ctx.case({"shape_route": kname, "array": which, "route": route, "call": call}, nontrivial=True)
                    ctx.count("shape-route:" + route)
                    if which == "both":
                        shp_, bad = bad if isinstance(bad, tuple) else np.shape(bad), None
                        dd, ff = d0.reshape(shp_), f0.reshape(shp_)
                        bad = dd
                    else:
                        dd, ff = (bad, f0) if which == "displacements" else (d0, bad)
                    raised = None
                    try:
                        if route == "constructor":
                            o = Symfc(at, displacements=dd, forces=ff)
                        elif route == "setters":
                            o = Symfc(at)
                            o.displacements = dd
                            o.forces = ff
                        else:
                            o = Symfc(at, displacements=d0, forces=f0)
                            if which == "both":
                                o.displacements = dd
                                o.forces = ff
                            else:
                                setattr(o, which, bad)
                        o.basis_set = dict(basis)
                        o._force_constants = {k: v.copy() for k, v in ref.items()}     # an object that already holds results
                        if call == "solve":
                            o.solve(orders=[2])
                        else:
                            o.run(orders=[2])
                    except Exception as e:  # noqa: BLE001
                        raised = e
                    rep = {"kind": kname, "array": which, "route": route, "call": call, "shape": list(np.shape(bad)), "N": N, "n_snapshots": n}
                    if raised is None:
                        ctx.fail("oracle", "C16/oracle/shape-route", f"a dataset whose {which} have shape {np.shape(bad)} ({kname}) given through the {route} is accepted by {call}()", replay=rep, has_input=True)
                        continue
                    fc = getattr(o, "_force_constants", None) if "o" in dir() else None
                    if route != "constructor" or fc is not None:
                        if fc is None or set(fc) != set(ref) or any(not np.array_equal(fc[k], ref[k]) for k in ref):
                            ctx.fail("oracle", "C16/oracle/shape-route", f"{call}() rejected {which} of shape {np.shape(bad)} ({kname}, {route}) but the stored force constants changed", replay=rep, has_input=True)


def nonintegral_orders(ctx, rng):
    """Order specifications whose entries are not integers and are not numerically equal to a supported order (2.5, '2', "23",
    float arrays, None, max_order=3.9): an unsupported request, whatever it would truncate or parse to (R15-L4: `int(order)`
    in `_check_orders`).  Through `_check_orders` and through run / solve / compute_basis_set on an object that holds results:
    an exception, and the stored force constants stay as they were."""
    from gens import atoms_of, base_cells, make_supercell
    from symfc import Symfc

    bad_lists = [[2.5], [3.5], [4.9], [2.2, 3.9], [2.5, 3], [2, 3.5, 4], ["2"], ["3"], ["2", "3"], "2", "23", "234", np.array([2.5]), np.array([2.9, 3.1]),
                 np.array([2.000001]), [None], [2, None], [np.float64(3.999999)], [b"2"]]
    bad_max = [2.5, 3.9, "3", 4.5, np.float64(2.2)]
    obj = Symfc.__new__(Symfc)
    for m, l in [(None, x) for x in bad_lists] + [(x, None) for x in bad_max]:
        ctx.case({"check_orders_nonintegral": [repr(m), repr(l)]}, nontrivial=True)
        ctx.count("orders-nonintegral")
        try:
            r = obj._check_orders(m, l)
        except Exception:  # noqa: BLE001  (any exception is a rejection)
            continue
        ctx.fail("oracle", "C16/oracle/check_orders-nonintegral", f"_check_orders({m!r}, {l!r}) returned {r!r}: an order specification that is not one of 2, 3, 4, 2-3, 3-4, 2-3-4 was accepted",
                 replay={"call": "_check_orders", "max_order": repr(m), "orders": repr(l), "impl": repr(r)}, has_input=True)
    sc = make_supercell(base_cells()["mono_P"], (1, 1, 1))
    at = atoms_of(sc)
    N = len(sc["numbers"])
    d0, f0 = rng.normal(size=(12, N, 3)) * 0.05, rng.normal(size=(12, N, 3))
    for l in ([2.5], ["2"], np.array([2.9]), "2"):
        for route in ("run", "solve", "compute_basis_set"):
            o = Symfc(at, displacements=d0, forces=f0).run(orders=[2])
            ref = {k: np.array(v) for k, v in o.force_constants.items()}
            nbasis = {k: v.basis_set.shape for k, v in o.basis_set.items()}
            ctx.case({"nonintegral_orders_route": route, "orders": repr(l)}, nontrivial=True)
            ctx.count("orders-nonintegral-route")
            try:
                getattr(o, route)(orders=l)
                raised = False
            except Exception:  # noqa: BLE001
                raised = True
            same = set(o.force_constants) == set(ref) and all(np.array_equal(o.force_constants[k], ref[k]) for k in ref) and {k: v.basis_set.shape for k, v in o.basis_set.items()} == nbasis
            if not raised or not same:
                ctx.fail("oracle", "C16/oracle/nonintegral-orders-route", f"{route}(orders={l!r}) on an object holding fc2: {'no exception' if not raised else 'exception, but the stored results changed'}",
                         replay={"route": route, "orders": repr(l), "raised": raised, "state_unchanged": bool(same)}, has_input=True)
