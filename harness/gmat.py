"""G-mat: symmetric matrices with spectrum in [0,1] and the eigen-solver oracles."""
from __future__ import annotations

import os

import numpy as np
import scipy.linalg
import scipy.sparse as sp


def rand_orth(rng, n):
    q, r = np.linalg.qr(rng.normal(size=(n, n)))
    return q * np.sign(np.diag(r))


def with_spectrum(rng, lam):
    n = len(lam)
    q = rand_orth(rng, n)
    m = (q * lam) @ q.T
    return (m + m.T) / 2


def projector(rng, n, r):
    return with_spectrum(rng, np.array([1.0] * r + [0.0] * (n - r)))


def block_diag_matrix(rng, blocks, zero_rows=0, permute=True):
    m = scipy.linalg.block_diag(*blocks) if blocks else np.zeros((0, 0))
    n = m.shape[0] + zero_rows
    big = np.zeros((n, n))
    big[: m.shape[0], : m.shape[0]] = m
    if permute and n > 1:
        p = rng.permutation(n)
        big = big[np.ix_(p, p)]
    return big


def gmat(rng, quick):
    """yield (kind, dense symmetric matrix)"""
    sizes = [1, 2, 3, 5, 8, 13, 30] if quick else [1, 2, 3, 5, 8, 13, 30, 64, 150, 400]
    for n in sizes:
        for r in sorted({0, 1, n // 2, n}):
            if r <= n:
                yield f"projector[n={n},r={r}]", projector(rng, n, r)
        lam = np.concatenate([np.ones(max(1, n // 3)), rng.uniform(0, 0.999, size=n - max(1, n // 3))]) if n >= 2 else np.array([1.0])
        yield f"spectrum01[n={n}]", with_spectrum(rng, lam[:n])
        if n >= 3:
            B = (rng.random((max(1, n // 2), n)) < 0.3).astype(float)
            c = max(1.0, np.linalg.eigvalsh(B.T @ B).max()) * 1.0
            yield f"I-BtB/c[n={n}]", np.eye(n) - B.T @ B / c
    # block structures
    for rep in range(4 if quick else 16):
        k = int(rng.integers(2, 5))
        base = [projector(rng, int(rng.integers(2, 6)), 1) for _ in range(k)]
        blocks = []
        for b in base:
            blocks += [b] * int(rng.integers(1, 4))
        ones = [np.array([[v]]) for v in rng.choice([0.0, 1.0], size=int(rng.integers(0, 4)))]
        yield f"blocks[rep={rep}]", block_diag_matrix(rng, blocks + ones, zero_rows=int(rng.integers(0, 4)))
    # 1x1 blocks with an eigenvalue strictly between 0 and 1
    yield "onebyone[0.5]", np.array([[0.5]])
    yield "onebyone-mixed", block_diag_matrix(rng, [np.array([[0.5]]), np.array([[1.0]]), projector(rng, 3, 1), np.array([[0.25]])], zero_rows=1)
    for v in (0.51, 0.75, 0.9, 0.998):
        yield f"onebyone[{v}]", np.array([[v]])
    yield "onebyone-mixed-high", block_diag_matrix(rng, [np.array([[0.7]]), np.array([[1.0]]), projector(rng, 4, 2), np.array([[0.95]]), np.array([[0.6]])], zero_rows=1)
    # connected blocks whose TRACE is an integer although no eigenvalue is 1 (identity minus a scaled PSD matrix can look like that):
    # "rank = round(trace)" must not be taken for the number of unit eigenvalues; alone, repeated, and next to true projector blocks
    yield "integer-trace[2x2,tr=1]", np.array([[0.75, 0.25], [0.25, 0.25]])
    for n, tr in ((2, 1), (3, 1), (3, 2), (5, 2), (6, 3)):
        lam = rng.uniform(0.05, 0.9, size=n)
        for _ in range(200):
            lam = lam * (tr / lam.sum())
            if lam.max() < 0.95:
                break
            lam = rng.uniform(0.05, 0.9, size=n)
        if lam.max() >= 0.95:
            continue
        Mi = with_spectrum(rng, lam)
        Mi[0, 0] += tr - np.trace(Mi)          # trace equal to the integer to the last bit
        yield f"integer-trace[n={n},tr={tr}]", Mi
        yield f"integer-trace-mixed[n={n},tr={tr}]", block_diag_matrix(rng, [Mi, projector(rng, 4, 2), Mi.copy(), np.array([[1.0]]), projector(rng, 3, 1)], zero_rows=1)
    # look-alike blocks: same diagonal but other off-diagonal entries (signs flipped), and same off-diagonal entries but another diagonal
    # (mirror image), next to true repeats: a cache of block eigenvectors keyed by part of the block would mix them up
    for n in (2, 3, 5):
        v = rng.normal(size=n)
        v /= np.linalg.norm(v)
        A = np.outer(v, v)
        sgn = np.ones(n)
        sgn[0] = -1.0
        A_sign = A * np.outer(sgn, sgn)                  # same diagonal, off-diagonal entries of row/column 0 negated
        A_mirror = A[::-1, ::-1].copy()                  # diagonal reversed; for n = 2 the off-diagonal entries are the same
        yield f"lookalike-blocks[n={n}]", block_diag_matrix(rng, [A, A_sign, A_mirror, A.copy(), A_sign.copy()], zero_rows=1, permute=False)
        yield f"lookalike-blocks-permuted[n={n}]", block_diag_matrix(rng, [A, A_sign, A_mirror, A.copy()], zero_rows=0)
    # blocks that share their FIRST ROW but differ elsewhere (B = U A U^T with U = diag(1, reflection fixing the rest of A's first
    # column)); no zero rows or columns anywhere in the matrix
    for n in (3, 4, 6):
        lam = np.concatenate([np.ones(max(1, n // 2)), rng.uniform(0.0, 0.9, size=n - max(1, n // 2))])
        A = with_spectrum(rng, lam)
        a = A[1:, 0]
        w = rng.normal(size=n - 1)
        w -= a * (a @ w) / max(a @ a, 1e-300)
        w /= np.linalg.norm(w)
        U = np.eye(n)
        U[1:, 1:] -= 2.0 * np.outer(w, w)
        B = U @ A @ U.T
        B = (B + B.T) / 2
        B[0, :] = A[0, :]                      # equal to the last bit (the reflection leaves it unchanged up to rounding)
        B[:, 0] = A[:, 0]
        yield f"same-first-row-blocks[n={n}]", block_diag_matrix(rng, [A, B, A.copy()], zero_rows=0, permute=False)
    # rank-one projectors spread over several sub-blocks of the block-divided solver
    for n in (2, 6, 12) if quick else (2, 6, 12, 40, 90):
        v = rng.normal(size=n)
        v /= np.linalg.norm(v)
        yield f"rank1-spread[n={n}]", np.outer(v, v)
    v = np.array([np.sqrt(0.4), np.sqrt(0.6)])
    yield "rank1-0.4/0.6", np.outer(v, v)
    # a unit eigenvector with a tiny (8e-5) amplitude on the coordinates of the first sub-block while other unit eigenvectors
    # are large there: the sub-block has an eigenvalue ~6e-9 that is NOT zero (pruning "null" directions of a sub-block by a
    # threshold destroys the eigenvector); sub-block sizes 3 and 7 of the block-divided solver
    for t in (3, 7):
        n = 5 * t
        for _ in range(20):
            v = rng.normal(size=n)
            v[:t] *= 8e-5 / np.linalg.norm(v[:t])
            V, _r = np.linalg.qr(np.column_stack([v] + [rng.normal(size=n) for _ in range(3)]))
            P_ = V @ V.T
            if np.trace(P_[:t, :t]) > 0.6 and abs(np.linalg.norm(V[:t, 0]) - 8e-5) < 4e-5:
                break
        yield f"tiny-amplitude-on-subblock[n={n},t={t}]", (P_ + P_.T) / 2
    # one dense connected block beyond the 1000-row switch, with eigenvalues at the edge of the allowed gap (1 - 1.1e-3):
    # a tolerance that grows with the matrix size must not accept them
    n = 1100
    lam = np.concatenate([np.ones(60), np.full(60, 1 - 1.1e-3), rng.uniform(0, 0.95, size=n - 120)])
    yield f"dense-large[n={n},gap=1.1e-3]", with_spectrum(rng, lam)
    if not quick:
        # one connected dense block of more than 4096 rows (beyond any size switch of the dense eigen-solve), plus three 1x1 unit blocks and
        # two zero rows: an orthogonal projector V V^T of rank 43 + 3 whose unit eigenspace is known by construction (KNOWN_UNIT)
        nb_, r_ = 4200, 43
        V_, _r = np.linalg.qr(rng.normal(size=(nb_, r_)))
        M_ = np.zeros((nb_ + 5, nb_ + 5))
        M_[:nb_, :nb_] = V_ @ V_.T
        for k_ in range(3):
            M_[nb_ + k_, nb_ + k_] = 1.0
        W_ = np.zeros((nb_ + 5, r_ + 3))
        W_[:nb_, :r_] = V_
        for k_ in range(3):
            W_[nb_ + k_, r_ + k_] = 1.0
        kind_ = f"dense-huge[n={nb_ + 5},rank={r_ + 3}]"
        KNOWN_UNIT[kind_] = W_
        yield kind_, (M_ + M_.T) / 2


KNOWN_UNIT = {}


def unit_projector(M):
    w, V = np.linalg.eigh(M)
    V1 = V[:, np.isclose(w, 1.0, atol=1e-6)]
    return V1 @ V1.T, V1.shape[1]


def judge(E, M, kind=None):
    """returns (ok, message) comparing returned columns with the dense reference unit eigenspace (known by construction for the
    matrices listed in KNOWN_UNIT, computed by a dense eigen-decomposition otherwise)"""
    n = M.shape[0]
    if kind in KNOWN_UNIT:
        W = KNOWN_UNIT[kind]
        Pi, r = W @ W.T, W.shape[1]
    else:
        Pi, r = unit_projector(M)
    if E is None:
        E = np.zeros((n, 0))
    if sp.issparse(E):
        E = E.toarray()
    E = np.asarray(E)
    if E.ndim != 2 or E.shape[0] != n:
        return False, f"returned array of shape {getattr(E, 'shape', None)} for a {n}x{n} matrix"
    G = E.T @ E
    if E.shape[1] and np.abs(G - np.eye(E.shape[1])).max() > 1e-7:
        return False, f"columns not orthonormal (max deviation {np.abs(G - np.eye(E.shape[1])).max():.2e})"
    d = np.abs(E @ E.T - Pi).max() if n else 0.0
    if d > 1e-6:
        tag = "NEAR-UNIT " if (E.shape[1] == r and d < 1e-2) else ""
        return False, f"{tag}span differs from the unit eigenspace (|EE^T - Pi|max = {d:.2e}; returned {E.shape[1]} columns, unit eigenspace has dimension {r})"
    return True, ""


def run_solver(name, M, target=None, threshold=None):
    import symfc.utils.eig_tools as et

    env = {}
    if target is not None:
        env["SYMFC_VERIF_EIG_TARGET"] = str(target)
    if threshold is not None:
        env["SYMFC_VERIF_EIG_THRESHOLD"] = str(threshold)
    os.environ.update(env)
    try:
        p = sp.csr_array(M)
        if name == "eigsh_projector":
            return et.eigsh_projector(p, verbose=False)
        if name == "stable":
            return et.eigsh_projector_sumrule_stable(p, verbose=False)
        if name == "large":
            return et.eigsh_projector_sumrule_large(p, verbose=False)
        return et.eigsh_projector_sumrule(p, verbose=False)
    finally:
        for k in env:
            os.environ.pop(k, None)


def subblock_has_near_unit_eigenvalue(M, target):
    """Diagnosis for the known finding C15/large-subblocks/isclose-rtol: some principal sub-block (contiguous chunks of `target`
    coordinates of a connected block) has an eigenvalue that np.isclose(e, 1) accepts (|e - 1| <= 1e-8 + 1e-5) but that is not 1
    to 1e-8."""
    import scipy.sparse.csgraph as csg
    n = M.shape[0]
    ncomp, lab = csg.connected_components(sp.csr_array(np.abs(M) > 0))
    for c in range(ncomp):
        idx = np.nonzero(lab == c)[0]
        for b in range(0, len(idx), max(1, int(target))):
            ch = idx[b:b + int(target)]
            w = np.linalg.eigvalsh(M[np.ix_(ch, ch)])
            if np.any((np.abs(w - 1) <= 1e-8 + 1e-5) & (np.abs(w - 1) > 1e-8)):
                return True
    return False
