"""C15 — projector eigen-solvers.  Coq: props/C15.v (structure obligations regenerated from eig_tools.py;
block decomposition; sub-block lifting; complement completeness; 1x1 rule).  Oracle: G-mat through the
three public solvers and the block-divided path (sub-block sizes shrunk by the hook), against a dense
reference eigen-decomposition."""
from __future__ import annotations

import numpy as np

from gmat import subblock_has_near_unit_eigenvalue, gmat, judge, run_solver

UNITS = ["EigStruct", "ShapesAuxEig", "SkelEig"]
PROPS = ["props/C15.v"]
ASSUMPTIONS = ["numpy.linalg.eigh / LAPACK syevr return an orthonormal eigenbasis (conformance: the dense reference of the oracle uses the same routine on the whole matrix)",
               "the 1e-8 window and np.isclose are modelled as exact tests; generated spectra keep non-unit eigenvalues below 0.999"]


def check(ctx):
    rng = np.random.default_rng(ctx.seed)
    ctx.rule = ("G-mat: random orthogonal projectors of all ranks, spectra in [0,1] with gap >= 1e-3, I - B^T B / c, block-diagonal matrices with repeated and permuted blocks, zero rows, "
                "1x1 blocks 0 / 1 / 0.5 / 0.25, rank-one projectors spread over several sub-blocks; sizes 1..30 (quick) / 400; solvers: eigsh_projector, sumrule_stable, sumrule_large with sub-block size 1,2,3,7 and default, "
                "eigsh_projector_sumrule with threshold below/above the size. Non-trivial: unit eigenspace of dimension >= 1")
    for kind, M in gmat(rng, ctx.quick):
        n = M.shape[0]
        runs = [("eigsh_projector", None, None), ("stable", None, None), ("large", None, None), ("dispatch", None, 0), ("dispatch", None, 10 ** 6)]
        for t in (1, 2, 3, 7):
            if t < n <= 200:
                runs.append(("large", t, None))
        if n > 200:
            runs = [("eigsh_projector", None, None), ("stable", None, None), ("large", None, None), ("large", 400, None)]
        if n > 4000:
            runs = [("stable", None, None), ("dispatch", None, None)]
        nontriv = True if n > 4000 else np.isclose(np.linalg.eigvalsh(M), 1.0, atol=1e-6).any()
        for name, target, thr in runs:
            if name == "eigsh_projector" and kind.startswith(("spectrum01", "I-BtB")) and False:
                continue
            ctx.case({"matrix": kind, "solver": name, "subblock": target, "threshold": thr}, nontrivial=bool(nontriv))
            ctx.count("solver:" + name + ("" if target is None else "/subblocks"))
            try:
                E = run_solver(name, M.copy(), target=target, threshold=thr)
            except Exception as e:  # noqa: BLE001
                key = f"C15/oracle/{name}{'' if target is None else '-subblocks'}/{kind.split('[')[0]}"
                ctx.fail("oracle", key, f"{name} (sub-block size {target}) raised {type(e).__name__}: {e} on matrix {kind}",
                         replay={"matrix_kind": kind, "matrix": (M.tolist() if M.shape[0] <= 200 else "regenerate with the recorded seed (harness/gmat.py)"), "solver": name, "subblock": target, "threshold": thr}, has_input=True)
                continue
            ok, msg = judge(E, M, kind)
            if not ok:
                key = f"C15/oracle/{name}{'' if target is None else '-subblocks'}/{kind.split('[')[0]}"
                if msg.startswith("NEAR-UNIT") and name == "large" and target is not None and subblock_has_near_unit_eigenvalue(M, target):
                    # right number of columns, span off by < 1e-2: a principal sub-block has an eigenvalue within np.isclose's
                    # default rtol=1e-5 of one, which eigh_projector accepts as a unit eigenvalue (known finding)
                    key = "C15/large-subblocks/isclose-rtol"
                ctx.fail("oracle", key, f"{name} (sub-block size {target}, threshold {thr}) on matrix {kind}: {msg}",
                         replay={"matrix_kind": kind, "matrix": (M.tolist() if M.shape[0] <= 200 else "regenerate with the recorded seed (harness/gmat.py)"), "solver": name, "subblock": target, "threshold": thr}, has_input=True)
