"""C13 — linearity in the forces, multiset dependence, scaling.  Coq: props/C13.v (normal equations
over snapshot lists: Permutation, duplication, linear combination, scaling, zero; uniqueness).
Oracle: metamorphic runs of every solver combination through the public API."""
from __future__ import annotations

import numpy as np

from solvers import solve_with_batch, COMBOS, Prepared, dense_design, solver_cells

UNITS = ["SolverStruct", "BatchGen", "DesignGen", "ShapesSolvers", "SkelSolvers", "ShapesApi", "SkelApi"]
PROPS = ["props/C13.v"]
ASSUMPTIONS = ["exact real arithmetic in the theorems; agreement 'to precision' (1e-7 relative to the largest element) is a tolerance check on well-conditioned data"]


def fit(P, orders, d, f, bs):
    o = P.new(d, f)
    solve_with_batch(o, P, orders, False, bs)
    return {m: np.array(o.force_constants[m]) for m in orders}


def close(a, b, tol=1e-7):
    for m in a:
        s = max(np.abs(a[m]).max(), np.abs(b[m]).max(), 1e-300)
        if not np.abs(a[m] - b[m]).max() <= tol * s:
            return False, m, float(np.abs(a[m] - b[m]).max() / s)
    return True, None, 0.0


def check(ctx):
    rng = np.random.default_rng(ctx.seed)
    ctx.rule = ("cells as in C06; well-conditioned random datasets (3x over-determined, design condition number < 1e8 checked with an independent dense design matrix); "
                "relations: fit(a f1 + b f2), snapshot permutation across batch boundaries (batch sizes 1,2,5), duplication x2/x3, scaling s in {-2,0.5,3} for single orders, zero forces")
    sparse_relations(ctx, np.random.default_rng(ctx.seed + 41))
    dtype_relations(ctx, np.random.default_rng(ctx.seed + 43))
    for cname, diag in solver_cells(ctx.quick):
        P = Prepared(cname, diag, rng)
        for orders in COMBOS:
            if not P.usable(orders):
                continue
            ncoef = sum(P.nb[m] for m in orders)
            n = 3 * int(np.ceil(ncoef / (3 * P.N))) + 4
            d = rng.normal(size=(n, P.N, 3)) * 0.1
            X = dense_design(P.basis, orders, d)
            sv = np.linalg.svd(X, compute_uv=False)
            if sv[-1] < 1e-8 * sv[0]:
                ctx.count("skipped-ill-conditioned")
                continue
            f1 = rng.normal(size=(n, P.N, 3))
            f2 = rng.normal(size=(n, P.N, 3))
            descr = {"cell": P.sc["name"], "orders": list(orders), "n_snap": n, "n_coef": int(ncoef)}
            try:
                base1 = fit(P, orders, d, f1, 100)
                base2 = fit(P, orders, d, f2, 100)
            except np.linalg.LinAlgError:
                ctx.count("skipped-singular")
                continue
            rep = {**P.describe(), "orders": list(orders), "disps": d.tolist(), "f1": f1.tolist(), "f2": f2.tolist()}

            def sfit(*a):
                try:
                    return fit(*a)
                except np.linalg.LinAlgError as e:
                    return e

            def judge(name, got, exp, extra=None):
                if isinstance(got, Exception):
                    ctx.case({**descr, "relation": name}, nontrivial=True)
                    ctx.fail("oracle", f"C13/oracle/{name.split('[')[0]}", f"{P.sc['name']} orders {orders}: the fit of the transformed dataset ({name}) raised {got} although the original dataset was fitted",
                             replay={**rep, "relation": name, **(extra or {})}, has_input=True)
                    return
                ok, m, err = close(got, exp)
                ctx.case({**descr, "relation": name}, nontrivial=True)
                ctx.count("relation:" + name.split("[")[0])
                if not ok:
                    ctx.fail("oracle", f"C13/oracle/{name.split('[')[0]}", f"{P.sc['name']} orders {orders}: relation {name} violated for fc{m} (relative difference {err:.2e})",
                             replay={**rep, "relation": name, **(extra or {})}, has_input=True)
            a, b = 1.7, -0.6
            judge("linearity", sfit(P, orders, d, a * f1 + b * f2, 100), {m: a * base1[m] + b * base2[m] for m in orders})
            # linearity across unit systems: forces in units 1e-12 / 1e+9 times smaller / larger (force constants of magnitude 1e-12:
            # any absolute threshold or rounding of the output shows up as a relative error)
            judge("linearity[scale=1e-12]", sfit(P, orders, d, 1e-12 * f1, 100), {m: 1e-12 * base1[m] for m in orders})
            judge("linearity[scale=1e+9]", sfit(P, orders, d, 1e9 * f1, 100), {m: 1e9 * base1[m] for m in orders})
            for bs in (1, 2, 5):
                perm = rng.permutation(n)
                judge(f"permutation[batch={bs}]", sfit(P, orders, d[perm], f1[perm], bs), base1, {"perm": perm.tolist(), "batch_size": bs})
            # the same numbers in another memory layout (Fortran order, a moveaxis view): through the constructor and the solver classes
            dF, fF = np.asfortranarray(d), np.asfortranarray(f1)
            dV = np.moveaxis(np.ascontiguousarray(np.moveaxis(d, 0, -1)), -1, 0)
            fV = np.moveaxis(np.ascontiguousarray(np.moveaxis(f1, 0, -1)), -1, 0)
            judge("layout[fortran]", sfit(P, orders, dF, fF, 100), base1)
            judge("layout[moveaxis-view]", sfit(P, orders, dV, fV, 3), base1)
            try:
                from symfc import Symfc as _S
                oL = _S(P.atoms, displacements=dV, forces=fF)
                oL.basis_set = dict(P.basis)
                oL.solve(orders=list(orders), is_compact_fc=False)
                judge("layout[constructor]", {m: np.array(oL.force_constants[m]) for m in orders}, base1)
            except np.linalg.LinAlgError as e_:
                judge("layout[constructor]", e_, base1)
            # snapshots whose forces are all exactly zero (displacements not): they carry equations like any other; by linearity
            # fit(f with snapshots 0,2 zeroed) = fit(f) - fit(f with only snapshots 0,2 kept)
            fz = f1.copy()
            fz[[0, 2]] = 0.0
            only = f1 - fz
            got_only = sfit(P, orders, d, only, 100)
            if not isinstance(got_only, Exception):
                judge("zero-force-snapshots", sfit(P, orders, d, fz, 100), {m: base1[m] - got_only[m] for m in orders})
            # an undisplaced snapshot (all displacements exactly zero, residual forces not zero) contributes only zero rows to the
            # design: wherever it stands in the list, and whether it is there at all, the fit is the same
            d0 = np.concatenate([np.zeros((1, P.N, 3)), d])
            f0 = np.concatenate([rng.normal(size=(1, P.N, 3)), f1])
            judge("undisplaced-snapshot[first]", sfit(P, orders, d0, f0, 100), base1)
            pz = np.concatenate([np.arange(1, n // 2 + 1), [0], np.arange(n // 2 + 1, n + 1)])
            judge("undisplaced-snapshot[middle]", sfit(P, orders, d0[pz], f0[pz], 100), base1)
            judge("duplication[x2]", sfit(P, orders, np.concatenate([d, d]), np.concatenate([f1, f1]), 3), base1)
            if not ctx.quick:
                judge("duplication[x3]", sfit(P, orders, np.concatenate([d, d, d]), np.concatenate([f1, f1, f1]), 7), base1)
            if len(orders) == 1:
                m = orders[0]
                for s in (-2.0, 0.5, 3.0):
                    judge(f"scaling[s={s}]", sfit(P, orders, s * d, s ** (m - 1) * f1, 100), base1, {"s": s})
            z = sfit(P, orders, d, np.zeros_like(f1), 100)
            if isinstance(z, Exception):
                ctx.fail("oracle", "C13/oracle/zero", f"{P.sc['name']} orders {orders}: zero forces make the fit raise {z}", replay={**rep, "relation": "zero"}, has_input=True)
                continue
            ctx.case({**descr, "relation": "zero"}, nontrivial=True)
            if any(np.abs(z[m]).max() > 1e-12 for m in orders):
                ctx.fail("oracle", "C13/oracle/zero", f"{P.sc['name']} orders {orders}: zero forces give non-zero force constants", replay={**rep, "relation": "zero"}, has_input=True)


def sparse_relations(ctx, rng, prefix="C13/oracle/sparse-data"):
    """The multiset / batch relations on finite-displacement datasets (exact zeros, clamped atom, sign-definite columns, +/- pairs
    split over batches) on symmetric supercells where such data still determine every coefficient."""
    from solvers import finite_displacement_dataset

    for cname, diag in [("bcc_conv", (2, 2, 2))] + ([] if ctx.quick else [("fcc_conv", (1, 1, 2)), ("hcp", (2, 2, 1))]):
        P = Prepared(cname, diag, rng, shuffle=True)
        d = finite_displacement_dataset(rng, P.N)
        n = len(d)
        f = rng.normal(size=(n, P.N, 3))
        for orders in ((2,), (3,), (2, 3)):
            if not P.usable(orders):
                continue
            try:
                base = fit(P, orders, d, f, n + 1)
            except np.linalg.LinAlgError:
                ctx.count("sparse-data-singular")
                continue
            rep = {**P.describe(), "orders": list(orders), "disps": d.tolist(), "forces": f.tolist()}
            checks = [(f"batch={b}", (d, f, b)) for b in (1, 3, 7, 32)]
            perm = rng.permutation(n)
            checks += [("permutation[batch=5]", (d[perm], f[perm], 5)), ("duplication[batch=11]", (np.concatenate([d, d]), np.concatenate([f, f]), 11))]
            for name, (dd, ff, bs) in checks:
                ctx.case({"cell": P.sc["name"], "orders": list(orders), "sparse_data_relation": name, "n_snap": n}, nontrivial=True)
                ctx.count("sparse-data-relation")
                try:
                    got = fit(P, orders, dd, ff, bs)
                except np.linalg.LinAlgError as e:
                    ctx.fail("oracle", prefix, f"{P.sc['name']} orders {orders}: finite-displacement dataset, {name}: the fit raised {e} although the single-batch fit succeeded", replay={**rep, "relation": name}, has_input=True)
                    continue
                ok, m, err = close(got, base, tol=1e-6)
                if not ok:
                    ctx.fail("oracle", prefix, f"{P.sc['name']} orders {orders}: finite-displacement dataset (exact zeros, clamped atom, sign-definite columns): fc{m} changes by {err:.2e} (relative) with {name}", replay={**rep, "relation": name}, has_input=True)


def dtype_relations(ctx, rng, prefix="C13/oracle/integer-displacements"):
    """Displacements on an integer grid handed over with an INTEGER dtype (int64 / int32; forces float64), through the constructor
    (which keeps the array as given) and through the solver classes directly: the fit is linear in the forces and equals the fit
    of the same numbers typed float64 (R14-K2: forces cast to the displacement dtype, i.e. truncated)."""
    from symfc.solvers import FCSolverO2, FCSolverO3, FCSolverO4

    for cname, diag in [("mono_P", (2, 1, 1)), ("tri2_P1", (3, 1, 1))]:
        P = Prepared(cname, diag, rng, shuffle=True)
        for orders in ((2,), (3,), (2, 3)):
            if not P.usable(orders):
                continue
            ncoef = sum(P.nb[m] for m in orders)
            n = 3 * int(np.ceil(ncoef / (3 * P.N))) + 6
            di = rng.integers(-3, 4, size=(n, P.N, 3))
            X = dense_design(P.basis, orders, di.astype(float))
            sv = np.linalg.svd(X, compute_uv=False)
            if sv[-1] < 1e-3 * sv[0]:      # recovery through normal equations: cond^2 * 1e-16 must stay far below the tolerance
                ctx.count("skipped-ill-conditioned")
                continue
            f1, f2 = rng.normal(size=(n, P.N, 3)), rng.normal(size=(n, P.N, 3))
            a, b = 0.37, -1.9
            for dt in (np.int64, np.int32):
                d = np.ascontiguousarray(di.astype(dt))
                routes = {"constructor": lambda ff: fit(P, orders, d, ff, 100)}
                if len(orders) == 1:
                    k = orders[0]
                    cls = {2: FCSolverO2, 3: FCSolverO3, 4: FCSolverO4}[k]
                    routes["solver class"] = lambda ff: {k: np.array(cls(P.basis[k], log_level=0).solve(d, ff).full_fc)}
                for rname, run in routes.items():
                    ctx.case({"cell": P.sc["name"], "orders": list(orders), "integer_displacements": np.dtype(dt).name, "route": rname, "n_snap": n}, nontrivial=True)
                    ctx.count("integer-displacements")
                    try:
                        r1, r2, r12 = run(f1), run(f2), run(a * f1 + b * f2)
                        ref = fit(P, orders, di.astype(float), f1, 100)
                    except (np.linalg.LinAlgError, TypeError, ValueError) as e:
                        ctx.count("integer-displacements-rejected")       # a loud rejection of integer arrays is not a violation
                        continue
                    rep = {**P.describe(), "orders": list(orders), "dtype": np.dtype(dt).name, "route": rname, "disps": di.tolist(), "f1": f1.tolist(), "f2": f2.tolist()}
                    ok, m, err = close(r12, {q: a * r1[q] + b * r2[q] for q in r1}, tol=1e-6)
                    if not ok:
                        ctx.fail("oracle", prefix, f"{P.sc['name']} orders {orders}, displacements typed {np.dtype(dt).name} ({rname}): fit(a f1 + b f2) differs from a fit(f1) + b fit(f2) by {err:.2e} (relative, fc{m})", replay={**rep, "relation": "linearity"}, has_input=True)
                        continue
                    ok, m, err = close(r1, ref, tol=1e-6)
                    if not ok:
                        ctx.fail("oracle", prefix, f"{P.sc['name']} orders {orders}, displacements typed {np.dtype(dt).name} ({rname}): the fit differs by {err:.2e} (relative, fc{m}) from the fit of the same numbers typed float64", replay={**rep, "relation": "float64 twin"}, has_input=True)
