#!/usr/bin/env python3
"""Record the normalised source of the functions listed in SHAPE_UNITS (translator/shape_units.json) from a source tree into
translator/shapes_<unit>.json.  Run once on the tree the model was written against; the translator then refuses any function
whose normalised source differs (fail-closed whole-function match)."""
import ast
import json
import os
import sys

HERE = os.path.dirname(os.path.abspath(__file__))


def norm(fn):
    body = fn.body
    if body and isinstance(body[0], ast.Expr) and isinstance(body[0].value, ast.Constant) and isinstance(body[0].value.value, str):
        body = body[1:]
    return {"args": [a.arg for a in fn.args.args], "decorators": [ast.unparse(d) for d in fn.decorator_list],
            "body": ast.unparse(ast.Module(body=body, type_ignores=[]))}


def find(tree, cls, name):
    scope = tree.body
    if cls:
        scope = next(n for n in tree.body if isinstance(n, ast.ClassDef) and n.name == cls).body
    hits = [n for n in scope if isinstance(n, ast.FunctionDef) and n.name == name]
    if not hits:
        raise KeyError(f"{cls}.{name}")
    return hits


def main(repo="/repo"):
    units = json.load(open(os.path.join(HERE, "shape_units.json")))
    for unit, spec in units.items():
        out = {}
        for rel, cls, name in spec["functions"]:
            tree = ast.parse(open(os.path.join(repo, rel)).read())
            hits = find(tree, cls, name)
            out[f"{rel}::{cls or ''}::{name}"] = [norm(h) for h in hits]      # properties with setters have several defs
        json.dump(out, open(os.path.join(HERE, f"shapes_{unit}.json"), "w"), indent=1)
        print(unit, len(out))
    sys.path.insert(0, HERE)
    from translate import skeleton
    skel = {}
    for unit, spec in json.load(open(os.path.join(HERE, "skeleton_units.json"))).items():
        for rel in spec["files"]:
            skel[rel] = skeleton(ast.parse(open(os.path.join(repo, rel)).read()).body)
    json.dump(skel, open(os.path.join(HERE, "skeletons.json"), "w"), indent=1)
    print("skeletons", len(skel))


if __name__ == "__main__":
    main(*sys.argv[1:])
