"""Fail-closed translator of a small integer/list subset of Python into Gallina.

Used for the pieces of symfc that are plain control flow over integers, tuples and shapes
(`get_batch_slice`, `Symfc._check_orders`, `Symfc._check_dataset`).  Anything outside the subset raises
TranslationError: the caller reports a broken tie instead of emitting a guess.

Types tracked: 'Z', 'bool', 'list' (list Z), 'listlist', 'optZ', 'optlist', 'pair'.
Target vocabulary: coq/theories/PyPrelude.v.
"""
from __future__ import annotations

import ast


class TranslationError(Exception):
    pass


class NeedUnwrap(Exception):
    def __init__(self, var):
        self.var = var


EXN = {"RuntimeError", "NotImplementedError", "ValueError", "KeyError", "TypeError"}


def zlit(k: int) -> str:
    return f"({k})" if k < 0 else str(k)


class Tr:
    """Translate one function body to a Gallina term of type `result T`."""

    def __init__(self, attr_map=None, self_calls=None):
        # attr_map: dotted attribute chain (e.g. 'self._displacements') -> (coq name, type)
        self.attr_map = attr_map or {}
        self.self_calls = self_calls or {}
        self.zero_step_guards = []  # coq expressions that raise ValueError when = 0

    # ------------------------------------------------------------------ expressions
    def dotted(self, node):
        if isinstance(node, ast.Name):
            return node.id
        if isinstance(node, ast.Attribute):
            b = self.dotted(node.value)
            return None if b is None else b + "." + node.attr
        return None

    def expr(self, n, env):
        if isinstance(n, ast.Constant):
            if n.value is None:
                return "None", "none"
            if isinstance(n.value, bool):
                return ("true" if n.value else "false"), "bool"
            if isinstance(n.value, int):
                return zlit(n.value), "Z"
            raise TranslationError(f"constant {n.value!r}")
        d = self.dotted(n)
        if d is not None and d in self.attr_map:
            name, ty = self.attr_map[d]
            ty = env.get(name, ty)
            if ty.startswith("opt"):
                raise NeedUnwrap(name)
            return name, ty
        if isinstance(n, ast.Attribute):
            v, ty = self.expr(n.value, env)
            if n.attr == "shape" and ty == "list":
                return v, "list"
            if n.attr == "ndim" and ty == "list":
                return f"(py_len {v})", "Z"
            raise TranslationError(f"attribute .{n.attr} on {ty}")
        if isinstance(n, ast.Name):
            if n.id not in env:
                raise TranslationError(f"unbound name {n.id}")
            ty = env[n.id]
            if ty.startswith("opt"):
                raise NeedUnwrap(n.id)
            return n.id, ty
        if isinstance(n, ast.BinOp):
            a, ta = self.expr(n.left, env)
            b, tb = self.expr(n.right, env)
            if isinstance(n.op, ast.Add) and ta == "list" and tb == "list":
                return f"({a} ++ {b})", "list"
            if ta != "Z" or tb != "Z":
                raise TranslationError(f"binop on {ta},{tb}")
            op = {ast.Add: "+", ast.Sub: "-", ast.Mult: "*", ast.FloorDiv: "/", ast.Mod: "mod"}.get(type(n.op))
            if op is None:
                raise TranslationError(f"operator {type(n.op).__name__}")
            return f"({a} {op} {b})", "Z"
        if isinstance(n, ast.UnaryOp) and isinstance(n.op, ast.Not):
            a, ta = self.expr(n.operand, env)
            if ta != "bool":
                raise TranslationError("not on non-bool")
            return f"(negb {a})", "bool"
        if isinstance(n, ast.UnaryOp) and isinstance(n.op, ast.USub):
            a, ta = self.expr(n.operand, env)
            if ta != "Z":
                raise TranslationError("neg on non-Z")
            return f"(- {a})", "Z"
        if isinstance(n, ast.BoolOp):
            parts = [self.expr(v, env) for v in n.values]
            if any(t != "bool" for _, t in parts):
                raise TranslationError("boolop on non-bool")
            op = " && " if isinstance(n.op, ast.And) else " || "
            return "(" + op.join(p for p, _ in parts) + ")", "bool"
        if isinstance(n, ast.Compare):
            if len(n.ops) != 1:
                raise TranslationError("chained comparison")
            return self.compare(n.left, n.ops[0], n.comparators[0], env)
        if isinstance(n, ast.Call):
            return self.call(n, env)
        if isinstance(n, (ast.List, ast.Tuple)):
            elts = [self.expr(e, env) for e in n.elts]
            if all(t == "Z" for _, t in elts):
                return "[" + "; ".join(e for e, _ in elts) + "]", "list"
            if elts and all(t == "list" for _, t in elts):
                return "[" + "; ".join(e for e, _ in elts) + "]", "listlist"
            if not elts:
                return "[]", "list"
            raise TranslationError("heterogeneous literal")
        if isinstance(n, ast.Subscript):
            v, tv = self.expr(n.value, env)
            if tv != "list":
                raise TranslationError("subscript on non-list")
            s = n.slice
            if isinstance(s, ast.Slice):
                if s.upper is not None or s.step is not None or s.lower is None:
                    raise TranslationError("only l[k:] slices")
                k, tk = self.expr(s.lower, env)
                if tk != "Z" or not isinstance(s.lower, ast.Constant) or s.lower.value < 0:
                    raise TranslationError("slice lower bound must be a non-negative literal")
                return f"(py_slice_from {v} {k})", "list"
            raise TranslationError("only slices are supported as subscripts")
        raise TranslationError(f"expression {type(n).__name__}")

    def is_none_test(self, left, op, right, env):
        """x is None / x is not None on an optional variable -> (var, positive?)"""
        if isinstance(right, ast.Constant) and right.value is None and isinstance(op, (ast.Is, ast.IsNot)):
            d = self.dotted(left)
            name = None
            if d is not None and d in self.attr_map:
                name = self.attr_map[d][0]
            elif isinstance(left, ast.Name):
                name = left.id
            if name is None:
                raise TranslationError("None test on a non-variable")
            return name, isinstance(op, ast.Is)
        return None

    def compare(self, left, op, right, env):
        nt = self.is_none_test(left, op, right, env)
        if nt is not None:
            name, positive = nt
            ty = env.get(name) or next((t for (nm, t) in self.attr_map.values() if nm == name), None)
            if ty is None:
                raise TranslationError(f"unbound {name}")
            if ty.startswith("opt"):
                e = f"(match {name} with None => true | Some _ => false end)"
            else:  # already unwrapped on this path: statically not None
                e = "false"
            return (e if positive else f"(negb {e})"), "bool"
        a, ta = self.expr(left, env)
        b, tb = self.expr(right, env)
        if isinstance(op, (ast.In, ast.NotIn)):
            if ta == "Z" and tb == "list":
                e = f"(z_in {a} {b})"
            elif ta == "list" and tb == "listlist":
                e = f"(zlist_in {a} {b})"
            else:
                raise TranslationError(f"membership {ta} in {tb}")
            return (e if isinstance(op, ast.In) else f"(negb {e})"), "bool"
        if ta == "list" and tb == "list" and isinstance(op, (ast.Eq, ast.NotEq)):
            e = f"(zlist_eqb {a} {b})"
            return (e if isinstance(op, ast.Eq) else f"(negb {e})"), "bool"
        if ta == "Z" and tb == "Z":
            sym = {ast.Eq: "=?", ast.Lt: "<?", ast.LtE: "<=?", ast.Gt: ">?", ast.GtE: ">=?"}.get(type(op))
            if sym is not None:
                return f"({a} {sym} {b})", "bool"
            if isinstance(op, ast.NotEq):
                return f"(negb ({a} =? {b}))", "bool"
        raise TranslationError(f"comparison {type(op).__name__} on {ta},{tb}")

    def call(self, n, env):
        if n.keywords:
            raise TranslationError("keyword arguments")
        f = n.func
        if isinstance(f, ast.Name):
            if f.id in ("list", "tuple") and len(n.args) == 1:
                v, t = self.expr(n.args[0], env)
                if t != "list":
                    raise TranslationError("list()/tuple() of non-list")
                return v, "list"
            if f.id == "range":
                args = [self.expr(a, env) for a in n.args]
                if any(t != "Z" for _, t in args):
                    raise TranslationError("range of non-Z")
                if len(args) == 1:
                    a, b, c = "0", args[0][0], "1"
                elif len(args) == 2:
                    a, b, c = args[0][0], args[1][0], "1"
                elif len(args) == 3:
                    a, b, c = (x for x, _ in args)
                    if not isinstance(n.args[2], ast.Constant):
                        self.zero_step_guards.append(c)
                    elif n.args[2].value == 0:
                        raise TranslationError("range with literal zero step")
                else:
                    raise TranslationError("range arity")
                return f"(py_range {a} {b} {c})", "list"
            if f.id == "len" and len(n.args) == 1:
                d = self.dotted(n.args[0])
                if d is not None and d in self.attr_map and self.attr_map[d][1] == "Z":
                    return self.attr_map[d][0], "Z"  # len(self._supercell) -> natom
                v, t = self.expr(n.args[0], env)
                if t not in ("list", "listlist"):
                    raise TranslationError("len of non-list")
                return f"(py_len {v})", "Z"
            if f.id == "sorted" and len(n.args) == 1:
                v, t = self.expr(n.args[0], env)
                if t != "list":
                    raise TranslationError("sorted of non-list")
                return f"(zsorted {v})", "list"
        raise TranslationError("call " + ast.unparse(f))

    # ------------------------------------------------------------------ statements
    @staticmethod
    def always_exits(stmts):
        if not stmts:
            return False
        last = stmts[-1]
        if isinstance(last, (ast.Raise, ast.Return)):
            return True
        if isinstance(last, ast.If):
            return Tr.always_exits(last.body) and Tr.always_exits(last.orelse)
        return False

    def stmts(self, ss, env, ret_default):
        """Translate a statement list into a term of type result _."""
        if not ss:
            return ret_default
        s, rest = ss[0], ss[1:]
        try:
            return self.stmt(s, rest, env, ret_default)
        except NeedUnwrap as u:
            inner = dict(env)
            inner[u.var] = env_unwrap(self, env, u.var)
            body = self.stmts(ss, inner, ret_default)
            return f"(match {u.var} with Some {u.var} => {body} | None => Err TypeError end)"

    def stmt(self, s, rest, env, ret_default):
        if isinstance(s, ast.Expr) and isinstance(s.value, ast.Constant) and isinstance(s.value.value, str):
            return self.stmts(rest, env, ret_default)  # docstring
        if isinstance(s, ast.Raise):
            return "(Err " + self.exn_of(s) + ")"
        if isinstance(s, ast.Return):
            if s.value is None:
                return "(Ok tt)"
            if isinstance(s.value, ast.Tuple) and len(s.value.elts) == 2:
                a, _ = self.expr(s.value.elts[0], env)
                b, _ = self.expr(s.value.elts[1], env)
                return f"(Ok ({a}, {b}))"
            v, _ = self.expr(s.value, env)
            return f"(Ok {v})"
        if isinstance(s, ast.Assign):
            if len(s.targets) != 1 or not isinstance(s.targets[0], ast.Name):
                raise TranslationError("assignment target")
            x = s.targets[0].id
            v, t = self.expr(s.value, env)
            env2 = dict(env)
            env2[x] = t
            return f"(let {x} := {v} in {self.stmts(rest, env2, ret_default)})"
        if isinstance(s, ast.If):
            # None tests on optional variables become matches that unwrap
            if isinstance(s.test, ast.Compare) and len(s.test.ops) == 1:
                nt = self.is_none_test(s.test.left, s.test.ops[0], s.test.comparators[0], env)
                if nt is not None:
                    name, positive = nt
                    ty = env_type(self, env, name)
                    if ty.startswith("opt"):
                        some_env = dict(env)
                        some_env[name] = env_unwrap(self, env, name)
                        none_branch, some_branch = (s.body, s.orelse) if positive else (s.orelse, s.body)
                        nb = self.branch(none_branch, rest, env, ret_default)
                        sb = self.branch(some_branch, rest, some_env, ret_default)
                        return f"(match {name} with None => {nb} | Some {name} => {sb} end)"
            c, tc = self.expr(s.test, env)
            if tc != "bool":
                raise TranslationError("if on non-bool")
            tb = self.branch(s.body, rest, env, ret_default)
            eb = self.branch(s.orelse, rest, env, ret_default)
            return f"(if {c} then {tb} else {eb})"
        raise TranslationError(f"statement {type(s).__name__}")

    def branch(self, body, rest, env, ret_default):
        # assignments made in a branch must be visible in `rest`: translate body ++ rest per branch
        if self.always_exits(body):
            return self.stmts(list(body), env, ret_default)
        return self.stmts(list(body) + list(rest), env, ret_default)

    def exn_of(self, s):
        e = s.exc
        if isinstance(e, ast.Call):
            e = e.func
        if isinstance(e, ast.Name) and e.id in EXN:
            return e.id
        return "OtherError"


def env_type(tr, env, name):
    if name in env:
        return env[name]
    for (nm, t) in tr.attr_map.values():
        if nm == name:
            return t
    raise TranslationError(f"unbound {name}")


def env_unwrap(tr, env, name):
    t = env_type(tr, env, name)
    return {"optZ": "Z", "optlist": "list"}[t]


def find_function(tree, name, cls=None):
    body = tree.body
    if cls is not None:
        for n in body:
            if isinstance(n, ast.ClassDef) and n.name == cls:
                body = n.body
                break
        else:
            raise TranslationError(f"class {cls} not found")
    for n in body:
        if isinstance(n, ast.FunctionDef) and n.name == name:
            return n
    raise TranslationError(f"function {name} not found")
